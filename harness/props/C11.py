"""C11 — the solver query equals the path's constraints; refinement is exact.

Obligations: T-refine, T-pathcopy, T-dumpfs, Props/C11.vo (theorems over the regenerated
rules of solve.refine and f-strings of solve.dump, over the model of one sevm.Path, over the
object-level model of several Path objects whose copy modes are regenerated from
Path.branch / Path.extend_path, and over the file-system model interpreting the regenerated
statements of solve.dump / solve_low_level / solve_end_to_end), lint.
Ties (every run):
  X-refine  real solve.refine on declaration / assert / near-miss lines at many widths
            vs the extracted refine_line; value of the real refined define-fun (z3) on
            concrete operands vs the extracted evaluator vs the Python EVM spec;
  X-path    scripts of append / branch+activate (parent continuing) / slice /
            extend_path on real sevm.Path objects with random z3 conditions vs the
            extracted Path model (conditions, branching flags, solver assertions,
            sliced set, ids) ; real Path.to_smt2 + solve.dump (with and without
            cache_solver, plain and refined) re-parsed with z3 and compared with the
            conjunction of every constraint handed to the path (two unsat calls);
            dumped file text vs the model's dump_text.
  X-heap    programs over SEVERAL real Path objects (appends / forks / activations /
            slices / extensions on any object in any order, several objects created from
            the same state; half of them following the exploration discipline of
            SEVM.run) vs the extracted object-level model (conditions, pending, sliced,
            assertions of the solver object, ids of every object); every object's
            conditions and dumped queries vs the constraints accumulated on its own
            lineage (independent Python rendering, cross-checked against the Coq
            add_all / accumulated / lineages); on disciplined programs the real solver
            of every running path vs the pure model run along its lineage.
  X-engine  small bytecode programs (conditional jumps, vm.assertTrue / assertFalse /
            assertEq / vm.assume on symbolic calldata) through the real SEVM.run, the real
            Path methods wrapped by a recorder of every constraint handed to a path or to
            the fork that created it: every yielded state must have nothing pending and its
            dumped queries must be equivalent to the handed constraints.
  X-dumpfs  the file the solver process reads: sequences of real solve_end_to_end /
            solve_low_level calls on real FunctionContexts (--dump-smt-directory: DIR/<function
            name> shared by same-named functions of several contracts, path ids restarting;
            and temporary directories), queries from real Path.to_smt2, with a stub solver
            command that records name and bytes of the file it is given and answers as planned
            (sat through an abstraction -> refinement, sat, unsat, unknown), over dump
            directories pre-populated with queries of other paths, refined queries, garbage,
            empty and read-only leftovers: the processes started and the bytes each one read
            vs the specification (the query of the path being solved, as text and - for the
            witness - by z3 against the path's constraints) and vs the extracted interpreter
            of the regenerated dump / solve_low_level / solve_end_to_end (Model/DumpFsModel.v,
            T-dumpfs); the *.smt2 files left behind likewise.
Scripts also use "hash twins" (distinct simplified conditions with the same z3 ast hash,
searched at start-up): only structurally equal conditions are duplicates.
"""
import os
import re
import tempfile
from multiprocessing import Pool

from harness import common
from harness.common import Model

PID = "C11"
TRANSLATORS = ["T-refine", "T-pathcopy", "T-dumpfs"]
KNOWN = []  # genuine defects of halmos found by this check (none so far)

ASSUMPTIONS = [
    "z3.simplify preserves meaning, z3.is_true only holds of the literal true, equal dict keys (structural equality of hash-consed terms) denote the same formula -- hypotheses of C11_query_equals_constraints, visible in its statement",
    "z3's printer (Solver.to_smt2) prints the assertions it holds and z3's parser reads them back (the correspondence run re-parses every dumped file and checks equivalence with the path's constraints, as support)",
    "tracking literals |<id>| live in their own name space (decimal z3 ast ids; halmos symbols are never purely numeric)",
    "the worklist of SEVM.run follows the exploration discipline stated as Model/PathHeapModel.sched_step (appends and forks come from the path running on the solver, the most recent waiting fork is activated next): hypothesis `sched_run ... = Some sc` of C11_solver_mirrors_running_path, visible in its statement; the theorems about conditions / queries (C11_paths_do_not_interfere, C11_every_path_query) do not need it",
    "Python object semantics as modelled: dict / set / defaultdict mutation in place, .copy() = new container with the same values, deepcopy = new container with new sets (the copy modes are read off sevm.py by T-pathcopy and cross-checked by object identity on real Path objects)",
    "the solver process reads the file named on its command line, once, after it is started and before solve_low_level returns; a write replaces (write_text / mode w) or extends (mode a) the content of exactly the named file; calls of solve_end_to_end that share a file name do not overlap in time (paths of one FunctionContext solved concurrently have distinct ids): the file-system model of C11_solver_reads_query_of_the_path_being_solved is sequential",
    "the extracted model and driver are faithful to the Coq definitions (extraction is trusted)",
]
PARTIAL = "paths are built directly on sevm.Path objects with generated z3 conditions (L2 of DESIGN 4.2), plus SEVM.run on small hand-assembled programs (single frame, two calldata words) with the Path methods wrapped by a lineage recorder; the dump / solve protocol is exercised through the real solve_end_to_end / solve_low_level on real FunctionContexts with a stub solver command (its answers are planned, not computed); no end-to-end `python -m halmos` run on fabricated build artifacts is part of this check; concurrent solving of the paths of one function and file permission bits are not modelled; the fuel of the slice worklist loop (slice_fuel) is not proved sufficient (running out is the model's error value, excluded by the `= Some` hypotheses and never observed in the correspondence run)"

WIDTH_POOL = ["256", "264", "512", "8", "1", "64", "1024", "0", "007", "257"]
REAL_WIDTHS = {"bvmul": [256, 512], "bvudiv": [256], "bvurem": [256, 264, 512], "bvsdiv": [256], "bvsrem": [256], "exp": [256]}


# ----------------------------------------------------------------- independent spec (python)

def signed(n, x):
    return x if x < (1 << (n - 1)) else x - (1 << n)


def tdiv(a, b):  # truncation toward zero
    q = abs(a) // abs(b)
    return q if (a < 0) == (b < 0) else -q


def spec_op(op, n, x, y):
    """The exact EVM operation on n-bit operands (Yellow Paper: x/0 = x%0 = 0)."""
    m = 1 << n
    if op == "bvmul":
        return (x * y) % m
    if y == 0:
        return 0
    if op == "bvudiv":
        return x // y
    if op == "bvurem":
        return x % y
    sx, sy = signed(n, x), signed(n, y)
    if op == "bvsdiv":
        return tdiv(sx, sy) % m
    if op == "bvsrem":
        return (sx - sy * tdiv(sx, sy)) % m
    raise KeyError(op)


def decl_line(op, n1, n2=None, n3=None, n0=None):
    n2 = n1 if n2 is None else n2
    n3 = n1 if n3 is None else n3
    n0 = n1 if n0 is None else n0
    return f"(declare-fun f_evm_{op}_{n0} ((_ BitVec {n1}) (_ BitVec {n2})) (_ BitVec {n3}))"


# ----------------------------------------------------------------- X-refine

def refine_lines(tier, r):
    ops = ["bvmul", "bvudiv", "bvurem", "bvsdiv", "bvsrem", "exp", "bvadd", "bvsmod", "bvmu", "bvmull", ""]
    lines = []
    for op in ops:
        for n in WIDTH_POOL:
            lines.append(decl_line(op, n))
    for op in ops[:6]:
        lines.append(decl_line(op, "256", "512"))
        lines.append(decl_line(op, "256", "256", "512"))
        lines.append(decl_line(op, "256", n0="512"))
        lines.append(decl_line(op, "256").replace("declare-fun", "define-fun"))
        lines.append(decl_line(op, "256").replace("f_evm_", "f_evm"))
        lines.append(decl_line(op, "256").replace("BitVec", "Bitvec"))
        lines.append(decl_line(op, "256")[:-1])
        lines.append(decl_line(op, "2x6"))
        lines.append(f"(declare-fun f_evm_{op}_256 ((_ BitVec 256)) (_ BitVec 256))")
        lines.append(f"(declare-fun f_evm_{op}_256 () (_ BitVec 256))")
    lines += [
        "", "; benchmark generated from python API", "(set-info :status unknown)",
        "(declare-fun p_x_uint256_00 () (_ BitVec 256))", "(declare-fun |1551| () Bool)",
        "(assert", " (= (f_evm_bvmul_256 p_x p_y) (_ bv6 256)))", "(assert true)",
        "(assert (= (f_evm_bvudiv_256 a b) (_ bv0 256)))",
        "(declare-fun f_sha3_256 ((_ BitVec 256)) (_ BitVec 256))",
        "(define-fun f_evm_bvmul_256 ((x (_ BitVec 256)) (y (_ BitVec 256))) (_ BitVec 256) (bvmul x y))",
    ]
    nrand = 100 if tier == "quick" else 3000
    for _ in range(nrand):
        op = r.choice(ops[:6])
        n = str(r.choice([r.randint(1, 2048), 256, 512, 264]))
        lines.append(decl_line(op, n))
    return lines


def real_refine(text):
    from halmos.sevm import SMTQuery
    from halmos.solve import refine

    q = refine(SMTQuery(text, ["1", "2"]))
    return q.smtlib, list(q.assertions)


def eval_points(n, r, k):
    m = 1 << n
    h = m >> 1
    base = [0, 1, 2, m - 1, h, h - 1, (m - 7) % m] + ([3, m - 2, (h + 1) % m, 7 % m] if k > 10 else [])
    pts = [(x % m, y % m) for x in base for y in base]
    pts += [(r.randrange(m), r.randrange(m)) for _ in range(k)]
    pts += [(r.randrange(m), r.randrange(1, 1 << min(n, 16)) % m) for _ in range(k)]
    return sorted(set(pts))


def z3_apply(def_text, fname, n, pts):
    """Value of the function defined/declared by def_text at each point, by z3 (one parse,
    then simplification of `r_i = f(x_i, y_i)`); None where it stays uninterpreted."""
    import z3

    ctx = z3.Context()
    txt = def_text + "\n" + "".join(
        f"(declare-fun r__{i} () (_ BitVec {n}))\n(assert (= r__{i} ({fname} (_ bv{x} {n}) (_ bv{y} {n}))))\n"
        for i, (x, y) in enumerate(pts))
    try:
        a = z3.parse_smt2_string(txt, ctx=ctx)
    except z3.Z3Exception as e:
        return [f"parse error {str(e)[:80]}"] * len(pts)
    out = []
    for f in a:
        g = z3.simplify(f)
        v = None
        if z3.is_eq(g):
            for side in (g.arg(0), g.arg(1)):
                if z3.is_bv_value(side):
                    v = side.as_long()
        out.append(v)
    return out


# ----------------------------------------------------------------- X-path: generators

VARS = ["a", "b", "c", "d", "e"]


def gen_term(r, depth):
    if depth <= 0 or r.random() < 0.3:
        k = r.random()
        if k < 0.6:
            return ["var", r.choice(VARS)]
        if k < 0.7:
            return ["small", r.choice(["k", "m"])]
        return ["const", r.choice([0, 1, 2, 255, 256, (1 << 255), (1 << 256) - 1, r.randrange(1 << 256)])]
    op = r.choice(["add", "sub", "mul", "div", "mod", "sdiv", "smod", "exp", "mul512", "mod264", "select", "ite", "and", "not"])
    if op == "not":
        return [op, gen_term(r, depth - 1)]
    if op == "select":
        return [op, r.choice(["st", "bal"]), gen_term(r, depth - 1)]
    if op == "ite":
        return [op, gen_bool(r, depth - 1), gen_term(r, depth - 1), gen_term(r, depth - 1)]
    return [op, gen_term(r, depth - 1), gen_term(r, depth - 1)]


def gen_bool(r, depth, prev=()):
    k = r.random()
    if TWINS and k > 0.93:
        t1, t2 = r.choice(TWINS)  # two different constraints with the same ast hash
        return t2 if t1 in prev else t1
    if prev and k < 0.12:
        return r.choice(prev)  # exact duplicate
    if prev and k < 0.2:
        p = r.choice(prev)
        return ["band", p, ["true"]]  # simplifies to an earlier condition
    if k < 0.26:
        t = gen_term(r, depth)
        return ["eq", t, t]  # simplifies to true
    if k < 0.3:
        return ["true"]
    if depth > 0 and k < 0.45:
        op = r.choice(["band", "bor", "bnot"])
        if op == "bnot":
            return [op, gen_bool(r, depth - 1)]
        return [op, gen_bool(r, depth - 1), gen_bool(r, depth - 1)]
    op = r.choice(["ult", "ule", "eq", "ne", "slt", "ugt"])
    return [op, gen_term(r, depth), gen_term(r, depth)]


def gen_script(r, tier):
    n = r.randint(1, 7 if tier == "quick" else 14)
    steps, prev = [], []
    for _ in range(n):
        k = r.random()
        if k < 0.5:
            c = gen_bool(r, r.randint(0, 2), prev)
            prev.append(c)
            steps.append(["append", c, r.random() < 0.3])
        elif k < 0.75:
            c = gen_bool(r, r.randint(0, 2), prev)
            after = [gen_bool(r, 1, prev) for _ in range(r.randint(0, 2))]
            prev.append(c)
            steps.append(["branch", c, after])
        elif k < 0.9:
            vs = r.sample(VARS + ["st", "bal", "k"], r.randint(0, 3))
            steps.append(["slice", vs])
            steps.append(["extend"])
        elif k < 0.95:
            steps.append(["extend"])
        else:
            steps.append(["slice", r.sample(VARS, r.randint(0, 2))])  # may be a second slice -> ValueError
    return steps


CORPUS = [
    # duplicates, true, slicing that keeps one of two unrelated conditions, then more appends
    [["append", ["ult", ["var", "a"], ["const", 5]], False], ["append", ["true"], False],
     ["append", ["ult", ["var", "a"], ["const", 5]], True], ["append", ["eq", ["var", "b"], ["mul", ["var", "c"], ["var", "d"]]], False],
     ["slice", ["a"]], ["extend"], ["branch", ["ne", ["div", ["var", "a"], ["var", "e"]], ["const", 0]], [["eq", ["var", "a"], ["const", 1]]]]],
    [["append", ["eq", ["exp", ["var", "a"], ["var", "b"]], ["const", 1]], False],
     ["append", ["ne", ["mod264", ["var", "a"], ["var", "b"]], ["mul512", ["var", "a"], ["var", "b"]]], False],
     ["append", ["slt", ["sdiv", ["var", "a"], ["var", "b"]], ["smod", ["var", "a"], ["var", "b"]]], False]],
    [["slice", []], ["slice", ["a"]]],
    [["branch", ["ult", ["select", "st", ["var", "a"]], ["var", "b"]], [["eq", ["var", "b"], ["const", 7]]]],
     ["slice", ["st"]], ["extend"], ["append", ["eq", ["var", "b"], ["const", 7]], False]],
]


# ----------------------------------------------------------------- X-path: implementation side

_SPARE_CTX = []


def make_env():
    """z3 vocabulary shared by the script runners: terms and conditions of the generated
    scripts, and the integer names under which the model sees the simplified conditions."""
    import logging
    from types import SimpleNamespace as NS

    import z3

    if not _SPARE_CTX:
        # Path.to_smt2 creates (and drops) a z3 Context per call: a multi-megabyte allocation
        # that glibc hands back to the kernel and faults in again every time (0.3 s per call
        # with an unlucky heap layout).  Keep freed memory in the process and one idle context
        # alive.  Test-side only: halmos is not touched.
        try:
            import ctypes

            libc = ctypes.CDLL("libc.so.6")
            libc.mallopt(-1, 1 << 30)  # M_TRIM_THRESHOLD
            libc.mallopt(-3, 1 << 30)  # M_MMAP_THRESHOLD
        except Exception:
            pass
        _SPARE_CTX.append(z3.Context())

    logging.getLogger("halmos").setLevel(logging.ERROR)  # generated conditions may simplify to false
    from halmos.sevm import f_div, f_exp, f_mod, f_mul, f_sdiv, f_smod

    BV = z3.BitVecSort(256)
    consts = {v: z3.BitVec(f"p_{v}_uint256_{i:02d}", 256) for i, v in enumerate(VARS)}
    smalls = {"k": z3.BitVec("halmos_k_uint8_01", 8), "m": z3.BitVec("halmos_m_uint8_02", 8)}
    arrays = {"st": z3.Array("storage_st", BV, BV), "bal": z3.Array("balance_00", BV, BV)}
    allvars = {**consts, "k": smalls["k"], "m": smalls["m"], **arrays}

    def ediv(f, x, y, exact, n):
        return z3.If(y == 0, z3.BitVecVal(0, n), f(x, y)) if exact else None

    def mk(t, exact=False):
        op = t[0]
        if op == "var":
            return consts[t[1]]
        if op == "small":
            return z3.ZeroExt(248, smalls[t[1]])
        if op == "const":
            return z3.BitVecVal(t[1], 256)
        if op == "select":
            return z3.Select(arrays[t[1]], mk(t[2], exact))
        if op == "ite":
            return z3.If(mkb(t[1], exact), mk(t[2], exact), mk(t[3], exact))
        if op == "not":
            return ~mk(t[1], exact)
        x, y = mk(t[1], exact), mk(t[2], exact)
        if op == "add":
            return x + y
        if op == "sub":
            return x - y
        if op == "and":
            return x & y
        if op == "mul":
            return x * y if exact else f_mul[256](x, y)
        if op == "div":
            return ediv(z3.UDiv, x, y, True, 256) if exact else f_div(x, y)
        if op == "mod":
            return ediv(z3.URem, x, y, True, 256) if exact else f_mod[256](x, y)
        if op == "sdiv":
            return ediv(lambda p, q: p / q, x, y, True, 256) if exact else f_sdiv(x, y)
        if op == "smod":
            return ediv(z3.SRem, x, y, True, 256) if exact else f_smod(x, y)
        if op == "exp":
            return f_exp(x, y)
        if op == "mul512":
            x5, y5 = z3.ZeroExt(256, x), z3.ZeroExt(256, y)
            return z3.Extract(255, 0, x5 * y5 if exact else f_mul[512](x5, y5))
        if op == "mod264":
            x4, y4 = z3.ZeroExt(8, x), z3.ZeroExt(8, y)
            return z3.Extract(255, 0, ediv(z3.URem, x4, y4, True, 264) if exact else f_mod[264](x4, y4))
        raise KeyError(op)

    def mkb(t, exact=False):
        op = t[0]
        if op == "true":
            return z3.BoolVal(True)
        if op == "band":
            return z3.And(mkb(t[1], exact), mkb(t[2], exact))
        if op == "bor":
            return z3.Or(mkb(t[1], exact), mkb(t[2], exact))
        if op == "bnot":
            return z3.Not(mkb(t[1], exact))
        x, y = mk(t[1], exact), mk(t[2], exact)
        return {"ult": z3.ULT, "ule": z3.ULE, "ugt": z3.UGT, "slt": lambda p, q: p < q,
                "eq": lambda p, q: p == q, "ne": lambda p, q: p != q}[op](x, y)

    keep = []          # keeps every simplified term alive: ast ids stay unique
    ident = {}         # ast id of a simplified condition -> small integer (0 = true)
    table = [[]]       # model input: var sets, row i for condition i
    varid = {}

    def vars_of(term):
        seen, out, todo = set(), [], [term]
        while todo:
            u = todo.pop()
            if u.get_id() in seen:
                continue
            seen.add(u.get_id())
            if z3.is_const(u) and u.decl().kind() == z3.Z3_OP_UNINTERPRETED:
                out.append(varid.setdefault(str(u), len(varid) + 1))
            else:
                todo.extend(u.children())
        return sorted(set(out))

    def cond_int(c):
        sc = z3.simplify(c)
        if z3.is_true(sc):
            return 0
        k = sc.get_id()
        if k not in ident:
            keep.append(sc)
            ident[k] = len(table)
            table.append(vars_of(sc))
        return ident[k]

    def known(ast):
        return ident.get(ast.get_id(), -1)

    return NS(z3=z3, BV=BV, consts=consts, smalls=smalls, arrays=arrays, allvars=allvars, mk=mk, mkb=mkb,
              cond_int=cond_int, known=known, table=table, varid=varid, keep=keep)


def equiv_check(z3, chk, parsed, want, ids):
    """[] if And(parsed) (tracking literals existentially quantified) <=> And(want)."""
    bad = []

    def cex():  # the assignment, without the tracking literals |<id>| of earlier parses
        mdl = chk.model()
        return ", ".join(f"{d.name()} = {mdl[d]}" for d in sorted(mdl.decls(), key=lambda d: d.name())
                         if d.arity() == 0 and not (d.name().isdigit() or d.name().startswith("<")))[:400]

    P_, W_ = z3.And(*parsed) if parsed else z3.BoolVal(True), z3.And(*want) if want else z3.BoolVal(True)
    r1 = chk.check(P_, z3.Not(W_))
    if r1 == z3.sat:
        bad.append(["query-weaker", "satisfies the query, violates a constraint: " + cex()])
    elif r1 != z3.unsat:
        bad.append(["undecided", "query => constraints"])
    Pt = z3.substitute(P_, *[(z3.Bool(i), z3.BoolVal(True)) for i in ids]) if ids else P_
    r2 = chk.check(W_, z3.Not(Pt))
    if r2 == z3.sat:
        bad.append(["query-stronger", "satisfies every constraint, rejected by the query: " + cex()])
    elif r2 != z3.unsat:
        bad.append(["undecided", "constraints => query"])
    return bad


def impl_script(script):
    """Runs the script on real sevm.Path objects; returns observations + the integer
    encoding of the same script for the model + the spec comparison results."""
    from types import SimpleNamespace as NS
    from pathlib import Path as P

    import halmos.solve as S
    from halmos.sevm import Path, f_div, f_exp, f_mod, f_mul, f_sdiv, f_smod
    from halmos.utils import create_solver

    E = make_env()
    z3, BV, consts, smalls, arrays, allvars = E.z3, E.BV, E.consts, E.smalls, E.arrays, E.allvars
    mkb, cond_int, known, table, varid = E.mkb, E.cond_int, E.known, E.table, E.varid

    obs = {"error": None}
    ops = []
    acc = []
    path = Path(create_solver())
    try:
        for st in script:
            if st[0] == "append":
                c = mkb(st[1])
                ops += [1, cond_int(c), 1 if st[2] else 0]
                path.append(c, branching=st[2])
                acc.append(c)
            elif st[0] == "branch":
                c = mkb(st[1])
                ops += [2, cond_int(c)]
                child = path.branch(c)
                for d in st[2]:  # the parent keeps running before the child is activated
                    path.append(mkb(d))
                child.activate()
                path = child
                acc.append(c)
            elif st[0] == "slice":
                vs = [allvars[v] for v in st[1]]
                ops += [3, len(vs)] + [varid.setdefault(str(v), len(varid) + 1) for v in vs]
                path.slice(vs)
            elif st[0] == "extend":
                ops += [4, 0]
                new = Path(create_solver())
                new.extend_path(path)
                path = new
    except ValueError as e:
        obs["error"] = f"ValueError {e.args[0] if e.args else ''}"
    except (KeyError, IndexError, z3.Z3Exception) as e:  # never on a well-formed Path: reported against the model
        obs["error"] = f"{type(e).__name__} {str(e.args[0])[:80] if e.args else ''}"
    obs["ops"] = ops
    obs["table"] = table
    if obs["error"]:
        return obs
    obs["conds"] = [[known(c), 1 if b else 0] for c, b in path.conditions.items()]
    obs["solver"] = sorted(known(a) for a in path.solver.assertions())
    obs["sliced"] = None if path.sliced is None else sorted(path.sliced)
    obs["pending"] = len(path.pending)
    idmap = {str(c.get_id()): known(c) for c in path.conditions}

    td = tempfile.mkdtemp(prefix="c11_")
    obs["q"] = {}
    chk = z3.Solver()
    chk.set("timeout", 2000)

    def equiv(parsed, want, ids):
        return equiv_check(z3, chk, parsed, want, ids)

    # the refined query must be the query with every refinable abstraction read as the exact
    # EVM operation: compared assertion by assertion, structurally after simplification,
    # otherwise under concrete valuations (f_evm_exp gets an arbitrary fixed interpretation)
    import random as _random

    vr = _random.Random(repr(script))

    def exact_body(op, n):
        x, y = z3.Var(0, z3.BitVecSort(n)), z3.Var(1, z3.BitVecSort(n))
        if op == "bvmul":
            return x * y
        g = {"bvudiv": z3.UDiv, "bvurem": z3.URem, "bvsdiv": lambda p, q_: p / q_, "bvsrem": z3.SRem}[op]
        return z3.If(y == 0, z3.BitVecVal(0, n), g(x, y))

    pairs_exact = [(f_mul[256], exact_body("bvmul", 256)), (f_mul[512], exact_body("bvmul", 512)),
                   (f_div, exact_body("bvudiv", 256)), (f_sdiv, exact_body("bvsdiv", 256)),
                   (f_smod, exact_body("bvsrem", 256))] + [(f_mod[n], exact_body("bvurem", n)) for n in (256, 264, 512)]
    pair_exp = (f_exp, z3.Var(0, BV) ^ (z3.Var(1, BV) * 3 + 1))

    def valuation(ids):
        pick = lambda n: vr.choice([0, 1, 2, 3, (1 << n) - 1, 1 << (n - 1), vr.randrange(1 << n), vr.randrange(1 << min(n, 9))])  # noqa: E731
        val = [(c, z3.BitVecVal(pick(256), 256)) for c in consts.values()]
        val += [(c, z3.BitVecVal(pick(8), 8)) for c in smalls.values()]
        val += [(a, z3.Store(z3.K(BV, z3.BitVecVal(pick(256), 256)), z3.BitVecVal(pick(256), 256), z3.BitVecVal(pick(256), 256))) for a in arrays.values()]
        val += [(z3.Bool(i), z3.BoolVal(True)) for i in ids]
        return val

    def refined_witness(refined, ids):
        """A concrete assignment on which the refined file (its tracking literals existentially
        quantified) and the path's constraints under the exact EVM reading disagree."""
        R_ = z3.And(*refined) if refined else z3.BoolVal(True)
        W_ = z3.substitute_funs(z3.And(*acc), *pairs_exact) if acc else z3.BoolVal(True)
        for _ in range(8):
            val = [(a, b) for a, b in valuation([]) ]
            wv = z3.simplify(z3.substitute(z3.substitute_funs(W_, pair_exp), *val))
            rv = z3.simplify(z3.substitute(z3.substitute_funs(R_, pair_exp), *val))  # over the tracking literals only
            if not (z3.is_true(wv) or z3.is_false(wv)):
                continue
            r = chk.check(rv)
            shown = [(str(a), str(b)[:70]) for a, b in val]
            if r == z3.sat and z3.is_false(wv):
                return ["refined-query-weaker", f"satisfies the refined query file (tracking literals { {d.name(): str(chk.model()[d]) for d in chk.model().decls() if d.name().isdigit()} }), violates the constraints: {shown}"]
            if r == z3.unsat and z3.is_true(wv):
                return ["refined-query-stronger", f"satisfies the constraints, rejected by the refined query file: {shown}"]
        return None

    def refined_ok(plain, refined, ids):
        if len(plain) != len(refined):
            w = refined_witness(refined, ids)
            return [w or ["refined-length", f"{len(plain)} assertions before, {len(refined)} after refine"]]
        bad = []
        for i, (p_, r_) in enumerate(zip(plain, refined)):
            F = z3.substitute_funs(p_, *pairs_exact)
            if z3.simplify(F).eq(z3.simplify(r_)):
                continue
            for _ in range(12):
                val = valuation(ids)
                fv = z3.simplify(z3.substitute(z3.substitute_funs(F, pair_exp), *val))
                rv = z3.simplify(z3.substitute(z3.substitute_funs(r_, pair_exp), *val))
                if not ((z3.is_true(fv) or z3.is_false(fv)) and (z3.is_true(rv) or z3.is_false(rv))):
                    bad.append(["undecided", f"assertion {i} does not evaluate to a literal"])
                    break
                if z3.is_true(fv) != z3.is_true(rv):
                    bad.append(["refined-differs", f"assertion {i}: exact reading {fv}, refined query {rv} under {[(str(a), str(b)[:70]) for a, b in val]}"])
                    break
        return bad

    for cs in (False, True):
        q = path.to_smt2(NS(cache_solver=cs))
        ctx = S.PathContext(args=NS(verbose=0, cache_solver=cs), path_id=1 + int(cs),
                            solving_ctx=NS(dump_dir=P(td)), query=q)
        S.dump(ctx)
        text = ctx.dump_file.read_text()
        rctx = ctx.refine()
        S.dump(rctx)
        rtext = rctx.dump_file.read_text()
        o = {"ids": [idmap.get(i, -1) for i in q.assertions], "raw_ids": list(q.assertions),
             "smtlib": q.smtlib, "text": text, "refined_smtlib": rctx.query.smtlib, "refined_text": rtext,
             "refined_ids_same": list(rctx.query.assertions) == list(q.assertions),
             "refined_file": rctx.dump_file.name}
        strip = lambda t: t.replace("(set-option :produce-unsat-cores true)\n", "")  # noqa: E731
        parsed = None
        try:
            parsed = list(z3.parse_smt2_string(strip(text)))
            o["spec"] = equiv(parsed, acc, q.assertions if cs else [])
            o["n_asserts"] = len(parsed)
        except z3.Z3Exception as e:
            o["spec"] = [["unparsable", str(e)[:200]]]
        try:
            if parsed is None:
                raise z3.Z3Exception("the unrefined query does not parse")
            rparsed = list(z3.parse_smt2_string(strip(rtext)))
            o["spec_refined"] = refined_ok(parsed, rparsed, q.assertions if cs else [])
        except z3.Z3Exception as e:
            o["spec_refined"] = [["unparsable", str(e)[:200]]]
        obs["q"][str(cs)] = o
    for f in os.listdir(td):
        os.unlink(os.path.join(td, f))
    os.rmdir(td)
    obs["n_acc"] = len(acc)
    return obs


def parse_model_path(res):
    if res is None:
        return None
    if res[0] == 0:
        return {"error": True}
    it = iter(res[1:])
    n = next(it)
    conds = [[next(it), next(it)] for _ in range(n)]
    n = next(it)
    solver = sorted(next(it) for _ in range(n))
    flag, n = next(it), next(it)
    sl = sorted({next(it) for _ in range(n)})
    n = next(it)
    asserted = [next(it) for _ in range(n)]
    n = next(it)
    ids = [next(it) for _ in range(n)]
    return {"error": False, "conds": conds, "solver": solver, "sliced": sl if flag else None, "asserted": asserted, "ids": ids}


def script_kinds(script, obs):
    kinds = []
    names = [s[0] for s in script]
    if "branch" in names:
        kinds.append("branch")
    if "slice" in names:
        kinds.append("slice")
    if "extend" in names:
        kinds.append("extend_path")
    if obs.get("error"):
        kinds.append("raises")
        return kinds
    if obs["n_acc"] > len(obs["conds"]):
        kinds.append("dedup_or_true")
    if len(obs["solver"]) < len(obs["conds"]):
        kinds.append("solver_holds_sliced_subset")
    if "f_evm_" in obs["q"]["False"]["smtlib"]:
        kinds.append("abstraction")
    if obs["q"]["False"]["refined_smtlib"] != obs["q"]["False"]["smtlib"]:
        kinds.append("refined")
    return kinds


# ----------------------------------------------------------------- X-heap: several Path objects

def gen_hscript(r, tier):
    """A program over Path objects (handle = creation index): appends / forks / activations /
    slices / extensions on ANY live object in any order -- in particular several objects
    forked off or extended from the same parent, the parent or a sibling running on."""
    n = r.randint(3, 11 if tier == "quick" else 20)
    hs = [{"pending": False, "sliced": False, "kids": 0}]
    steps, prev = [], []

    def pick():
        k = r.random()
        if k < 0.35:
            return len(hs) - 1
        parents = [i for i, h in enumerate(hs) if h["kids"]]
        if parents and k < 0.7:
            return r.choice(parents)  # a state something else was already started from
        return r.randrange(len(hs))

    for _ in range(n):
        i = pick()
        h = hs[i]
        k = r.random()
        if h["pending"] and k < 0.85:
            steps.append(["activate", i])
            h["pending"] = False
        elif k < 0.5:
            c = gen_bool(r, r.randint(0, 2), prev)
            prev.append(c)
            steps.append(["append", i, c, r.random() < 0.3])
        elif k < 0.65:
            c = gen_bool(r, r.randint(0, 2), prev)
            prev.append(c)
            steps.append(["branch", i, c])
            if h["pending"]:
                break  # branching from an inactive path raises: the program ends there
            hs.append({"pending": True, "sliced": False, "kids": 0})
            h["kids"] += 1
        elif k < 0.75:
            steps.append(["slice", i, r.sample(VARS + ["st", "bal", "k"], r.randint(0, 3))])
            if h["sliced"]:
                break  # already sliced: raises
            h["sliced"] = True
            steps.append(["extend", i])
            hs.append({"pending": False, "sliced": False, "kids": 0})
            h["kids"] += 1
        elif k < 0.97:
            steps.append(["extend", i])
            hs.append({"pending": False, "sliced": False, "kids": 0})
            h["kids"] += 1
        else:
            steps.append(["activate", i])  # also on an active path / out of LIFO order
            h["pending"] = False
    return steps


def gen_dfs_hscript(r, tier):
    """A program that follows the exploration discipline of SEVM.run (Model sched_step): on
    every solver object one running path appends and forks, the most recent waiting fork is
    activated when the running path is done; finished / running paths are sliced and
    extended into new explorations (new solver objects), several times from the same state."""
    n = r.randint(4, 12 if tier == "quick" else 24)
    solver_of, current, waiting, sliced = [0], [0], [[]], {0: False}
    steps, prev = [], []
    for _ in range(n):
        s = r.randrange(len(current)) if r.random() < 0.5 else len(current) - 1
        i = current[s]
        k = r.random()
        if k < 0.4:
            c = gen_bool(r, r.randint(0, 2), prev)
            prev.append(c)
            steps.append(["append", i, c, r.random() < 0.3])
        elif k < 0.6:
            c = gen_bool(r, r.randint(0, 2), prev)
            prev.append(c)
            steps.append(["branch", i, c])
            new = len(solver_of)
            solver_of.append(s)
            sliced[new] = False
            waiting[s].insert(0, new)
            if r.random() < 0.7:  # the parent takes the other side
                steps.append(["append", i, ["bnot", c], True])
        elif k < 0.78 and waiting[s]:
            j = waiting[s].pop(0)
            steps.append(["activate", j])
            current[s] = j
        else:
            active = [j for j in range(len(solver_of)) if not any(j in w for w in waiting)]
            j = r.choice(active)
            if not sliced[j] and r.random() < 0.5:
                steps.append(["slice", j, r.sample(VARS + ["st", "bal", "k"], r.randint(0, 3))])
                sliced[j] = True
            for _ in range(r.randint(1, 2)):
                steps.append(["extend", j])
                new = len(solver_of)
                solver_of.append(len(current))
                sliced[new] = False
                current.append(new)
                waiting.append([])
    return steps


def _c(op, a, b):
    return [op, ["var", a], ["const", b]]


HCORPUS = [
    # two transactions started from the same state (unsliced): the first one appends on its
    # in-place lineage, the second one must not see it
    [["append", 0, _c("ugt", "a", 0), False], ["extend", 0], ["append", 1, _c("ugt", "a", 1000), True],
     ["extend", 0], ["append", 2, _c("ugt", "a", 2000), True]],
    # ... the same from a sliced state, the first transaction forking on the way
    [["append", 0, _c("ugt", "a", 0), False], ["append", 0, _c("ult", "b", 9), False], ["slice", 0, ["a"]],
     ["extend", 0], ["branch", 1, _c("ugt", "a", 1000)], ["append", 1, ["bnot", _c("ugt", "a", 1000)], True],
     ["activate", 2], ["extend", 0], ["branch", 3, _c("ugt", "a", 2000)],
     ["append", 3, ["bnot", _c("ugt", "a", 2000)], True], ["activate", 4]],
    # both sides of a fork keep running; a grandchild; the parent appends a condition over the
    # same variables after the fork
    [["append", 0, _c("ult", "a", 50), False], ["branch", 0, _c("eq", "b", 1)], ["append", 0, _c("ne", "b", 1), True],
     ["append", 0, ["ult", ["var", "a"], ["var", "b"]], False], ["activate", 1], ["branch", 1, _c("eq", "c", 2)],
     ["append", 1, _c("ne", "c", 2), True], ["activate", 2], ["append", 2, ["ult", ["var", "c"], ["var", "a"]], False]],
    # a frontier state extended three times, the state itself sliced between the extensions
    [["append", 0, ["ult", ["select", "st", ["var", "a"]], ["var", "b"]], False], ["extend", 0],
     ["append", 1, _c("eq", "b", 7), False], ["slice", 0, ["st"]], ["extend", 0],
     ["append", 2, ["ult", ["var", "b"], ["select", "st", ["var", "c"]]], False], ["extend", 0],
     ["append", 3, _c("ne", "b", 7), False], ["slice", 1, ["b"]], ["extend", 1]],
    # out-of-order activation of two forks of the same parent, and a fork of an inactive path
    [["branch", 0, _c("eq", "a", 1)], ["branch", 0, _c("eq", "a", 2)], ["activate", 1], ["activate", 2]],
    [["branch", 0, _c("eq", "a", 1)], ["branch", 1, _c("eq", "a", 2)]],
]


def spec_lineage_conditions(script, cond_int):
    """Independent rendering of the property for every Path object: the integer names of the
    first occurrences of the non-trivial simplified constraints accumulated on its lineage
    (what its ancestors were handed before it was created from them, then its own; the
    condition of a fork joins when the fork is activated), plus the raw z3 constraints."""
    raw, pend = [[]], [[]]
    for st in script:
        i = st[1]
        if i >= len(raw):
            break
        if st[0] == "append":
            raw[i].append(st[2])
        elif st[0] == "branch":
            if pend[i]:
                break
            raw.append(list(raw[i]))
            pend.append([st[2]])
        elif st[0] == "activate":
            raw[i] += pend[i]
            pend[i] = []
        elif st[0] == "extend":
            raw.append(list(raw[i]))
            pend.append([])
    out = []
    for cs in raw:
        seen = []
        for c in cs:
            k = cond_int(c)
            if k != 0 and k not in seen:
                seen.append(k)
        out.append(seen)
    return raw, out


def impl_hscript(script):
    """Runs a program over several real sevm.Path objects; observes every object at the end
    and compares its conditions / its dumped queries with the constraints of its lineage."""
    from types import SimpleNamespace as NS
    from pathlib import Path as P

    import halmos.solve as S
    from halmos.sevm import Path
    from halmos.utils import create_solver

    E = make_env()
    z3, allvars, mkb, known, table, varid = E.z3, E.allvars, E.mkb, E.known, E.table, E.varid
    built = {}

    def cond(t):  # one z3 term per script term: the same object whenever the script repeats it
        key = repr(t)
        if key not in built:
            built[key] = mkb(t)
        return built[key]

    def cint(t):
        return E.cond_int(cond(t))

    obs = {"error": None}
    ops = []
    paths = [Path(create_solver())]
    try:
        for st in script:
            i = st[1]
            if st[0] == "append":
                ops += [1, i, cint(st[2]), 1 if st[3] else 0]
                paths[i].append(cond(st[2]), branching=st[3])
            elif st[0] == "branch":
                ops += [2, i, cint(st[2])]
                paths.append(paths[i].branch(cond(st[2])))
            elif st[0] == "activate":
                ops += [5, i]
                paths[i].activate()
            elif st[0] == "slice":
                vs = [allvars[v] for v in st[2]]
                ops += [3, i, len(vs)] + [varid.setdefault(str(v), len(varid) + 1) for v in vs]
                paths[i].slice(vs)
            elif st[0] == "extend":
                ops += [4, i, 0]
                new = Path(create_solver())
                new.extend_path(paths[i])
                paths.append(new)
    except (ValueError, KeyError, IndexError, z3.Z3Exception) as e:
        obs["error"] = f"{type(e).__name__} {str(e.args[0])[:80] if e.args else ''}"
    raw, want = spec_lineage_conditions(script, cint)
    obs["ops"] = ops
    obs["table"] = table
    obs["spec_conds"] = want
    if obs["error"]:
        return obs
    td = tempfile.mkdtemp(prefix="c11h_")
    chk = z3.Solver()
    chk.set("timeout", 2000)
    strip = lambda t: t.replace("(set-option :produce-unsat-cores true)\n", "")  # noqa: E731
    obs["paths"] = []
    for j, path in enumerate(paths):
        o = {"conds": [[known(c), 1 if b else 0] for c, b in path.conditions.items()],
             "pending": len(path.pending),
             "sliced": None if path.sliced is None else sorted(path.sliced),
             "solver": sorted(known(a) for a in path.solver.assertions()),
             "q": {}}
        idmap = {str(c.get_id()): known(c) for c in path.conditions}
        for cs in (False, True):
            q = path.to_smt2(NS(cache_solver=cs))
            qo = {"ids": [idmap.get(i, -1) for i in q.assertions], "n_ids": len(q.assertions)}
            if not cs or j == len(paths) - 1 or j == 0:
                ctx = S.PathContext(args=NS(verbose=0, cache_solver=cs), path_id=10 * j + int(cs),
                                    solving_ctx=NS(dump_dir=P(td)), query=q)
                S.dump(ctx)
                text = ctx.dump_file.read_text()
                try:
                    parsed = list(z3.parse_smt2_string(strip(text)))
                    qo["spec"] = equiv_check(z3, chk, parsed, [cond(t) for t in raw[j]], q.assertions if cs else [])
                except z3.Z3Exception as e:
                    qo["spec"] = [["unparsable", str(e)[:200]]]
            o["q"][str(cs)] = qo
        obs["paths"].append(o)
    for f in os.listdir(td):
        os.unlink(os.path.join(td, f))
    os.rmdir(td)
    return obs


def parse_model_heap(res):
    if res is None:
        return None
    if res[0] == 0:
        return {"error": True}
    it = iter(res[1:])
    out = []
    for _ in range(next(it)):
        n = next(it)
        conds = [[next(it), next(it)] for _ in range(n)]
        pending = next(it)
        flag, n = next(it), next(it)
        sl = sorted({next(it) for _ in range(n)})
        n = next(it)
        solver = sorted(next(it) for _ in range(n))
        n = next(it)
        asserted = [next(it) for _ in range(n)]
        n = next(it)
        ids = [next(it) for _ in range(n)]
        out.append({"conds": conds, "pending": pending, "sliced": sl if flag else None, "solver": solver,
                    "asserted": asserted, "ids": ids})
    return {"error": False, "paths": out}


def parse_model_lineage(res):
    if res is None or res[0] == 0:
        return None
    it = iter(res[1:])
    return [[next(it) for _ in range(next(it))] for _ in range(next(it))]


def hscript_kinds(script, obs):
    names = [s[0] for s in script]
    kinds = []
    parents = [s[1] for s in script if s[0] in ("extend", "branch")]
    if any(parents.count(i) > 1 for i in parents):
        kinds.append("several_children_of_one_state")
    ext = {}
    for k, s in enumerate(script):
        if s[0] == "extend":
            ext.setdefault(s[1], []).append(k)
    created, nobj = {}, 1
    for k, s in enumerate(script):
        if s[0] in ("extend", "branch"):
            created[nobj] = (k, s[1])
            nobj += 1
    # the m4 shape: a second object started from a state after an earlier one of the same
    # state (or that state itself) was appended to
    for child, (k, par) in created.items():
        for other, (k2, par2) in created.items():
            if par2 == par and k2 > k and any(s[0] == "append" and s[1] in (child, par) for s in script[k + 1:k2]):
                kinds.append("sibling_after_append")
                break
        else:
            continue
        break
    if "slice" in names:
        kinds.append("slice")
    if "branch" in names:
        kinds.append("fork")
    if obs.get("error"):
        kinds.append("raises")
    return kinds



# ----------------------------------------------------------------- hash twins (coarser-than-equality duplicate tests)

TWINS = []  # pairs of script conditions: structurally different after simplify, same z3 ast hash


def find_hash_twins(limit=3000):
    """Pairs of DISTINCT simplified conditions with the same z3 ast hash (z3's 32-bit structural
    hash is weak: a few pairs exist among `a op k`, k < 3000).  A path that is handed both must
    keep both: only structurally equal conditions are duplicates."""
    E = make_env()
    z3 = E.z3
    out = []
    for op in ("ne", "eq", "ugt", "ult"):
        for v in ("a", "b"):
            seen = {}
            for k in range(1, limit):
                term = [op, ["var", v], ["const", k]]
                sc = z3.simplify(E.mkb(term))
                h = sc.hash()
                if h in seen and not sc.eq(seen[h][1]):
                    out.append([seen[h][0], term])
                seen.setdefault(h, (term, sc))
            if len(out) >= 12:
                return out
    return out


# ----------------------------------------------------------------- X-engine: paths as SEVM.run yields them

THIS_ADDR = 0xAAAA0001
ENGINE_ENDS = ["STOP", "REVERT", "INVALID"]
VM_ASSERTS = {"assertTrue": 0x0C9FD581, "assertFalse": 0xA5982885, "assertEq": 0x98296C54, "assume": 0x4C63E562}


def gen_engine_program(r):
    """A small bytecode program over two symbolic calldata words: conditional jumps to
    STOP / REVERT / INVALID, vm.assertTrue / assertFalse / assertEq / vm.assume on symbolic
    conditions (the assert handlers fork a failing state that halts at once), then STOP."""
    stmts = []
    for _ in range(r.randint(1, 4)):
        cmp_ = [r.choice(["LT", "GT", "EQ"]), r.choice([0, 32]), r.choice([0, 1, 7, 10, 255, 1000, (1 << 255), (1 << 256) - 1, r.randrange(1 << 16)])]
        k = r.random()
        if k < 0.35:
            stmts.append(["jumpi", cmp_, r.choice(ENGINE_ENDS)])
        elif k < 0.85:
            stmts.append(["vm", r.choice(["assertTrue", "assertFalse", "assertEq"]), cmp_])
        else:
            stmts.append(["vm", "assume", cmp_])
    return stmts


ENGINE_CORPUS = [
    [["vm", "assertTrue", ["LT", 0, 10]]],
    [["vm", "assertEq", ["EQ", 32, 7]], ["jumpi", ["GT", 0, 255], "INVALID"], ["vm", "assertFalse", ["EQ", 0, 1000]]],
    [["vm", "assume", ["GT", 0, 1]], ["vm", "assertTrue", ["LT", 0, 10]], ["vm", "assertTrue", ["LT", 32, 10]]],
]


def assemble_engine_program(stmts):
    from harness.asm import assemble
    from halmos.cheatcodes import hevm_cheat_code

    hevm = int(hevm_cheat_code.address.as_z3().as_long())
    items, ends = [], []

    def cond(c):  # (calldataload(off) OP K) on the stack
        return [("push", c[2]), ("push", c[1]), "CALLDATALOAD", c[0]]

    def call(argsize):
        return ["PUSH0", "PUSH0", ("push", argsize), "PUSH0", "PUSH0", ("pushn", 20, hevm), "GAS", "CALL", "POP"]

    for n, st in enumerate(stmts):
        if st[0] == "jumpi":
            items += cond(st[1]) + [("ref", f"end{n}"), "JUMPI"]
            ends.append((f"end{n}", st[2]))
        else:
            items += [("pushn", 4, VM_ASSERTS[st[1]]), ("push", 0xE0), "SHL", "PUSH0", "MSTORE"]
            if st[1] == "assertEq":
                items += [("push", st[2][1]), "CALLDATALOAD", ("push", 4), "MSTORE", ("push", st[2][2]), ("push", 36), "MSTORE"] + call(0x44)
            else:
                items += cond(st[2]) + [("push", 4), "MSTORE"] + call(0x24)
    items.append("STOP")
    for name, end in ends:
        items.append(("label", name))
        items += ["PUSH0", "PUSH0", "REVERT"] if end == "REVERT" else [end]
    return assemble(items)


class LineageRecorder:
    """Records, on the real Path objects and through the real methods, every constraint handed
    to a path or to the fork that created it (attribute _c11_handed).  The wrapped methods
    are the originals; nothing of their behaviour changes."""

    def __enter__(self):
        from halmos.sevm import Path

        self.Path = Path
        self.orig = {n: getattr(Path, n) for n in ("append", "branch", "extend_path")}
        o = self.orig

        def append(p, cond, branching=False):
            p.__dict__.setdefault("_c11_handed", []).append(cond)
            return o["append"](p, cond, branching=branching)

        def branch(p, cond):
            child = o["branch"](p, cond)
            child._c11_handed = list(p.__dict__.get("_c11_handed", [])) + [cond]
            return child

        def extend_path(p, parent):
            p._c11_handed = list(parent.__dict__.get("_c11_handed", []))
            return o["extend_path"](p, parent)

        Path.append, Path.branch, Path.extend_path = append, branch, extend_path
        return self

    def __exit__(self, *a):
        for n, f in self.orig.items():
            setattr(self.Path, n, f)


def impl_engine(stmts):
    """Runs the program through the real SEVM.run; for every yielded state: what is pending
    on its path, and its dumped queries vs every constraint handed to that path's lineage."""
    import contextlib
    import io
    from pathlib import Path as P
    from types import SimpleNamespace as NS

    import z3

    import halmos.solve as S
    from halmos.__main__ import mk_solver
    from halmos.calldata import FunctionInfo
    from halmos.mapper import BuildOut
    from halmos.sevm import SEVM
    from harness import engine

    make_env()  # spare context / malloc settings
    if BuildOut()._build_out_map is None:
        BuildOut().set_build_out({})
    obs = {"error": None, "paths": []}
    scn = {"accounts": {THIS_ADDR: {"code": assemble_engine_program(stmts)}}, "this": THIS_ADDR,
           "calldata": [("s", "p_x_uint256_00", 32), ("s", "p_y_uint256_01", 32)]}
    td = tempfile.mkdtemp(prefix="c11e_")
    chk = z3.Solver()
    chk.set("timeout", 2000)
    strip = lambda t: t.replace("(set-option :produce-unsat-cores true)\n", "")  # noqa: E731
    buf = io.StringIO()
    try:
        with LineageRecorder(), contextlib.redirect_stdout(buf), contextlib.redirect_stderr(buf):
            opts = engine.make_options(scn.get("options"))
            sevm = SEVM(opts, FunctionInfo("T", "test", "test()", "f8a8fd6d"))
            ex0 = engine.build_exec(scn, sevm, mk_solver(opts))
            for n, ex in enumerate(sevm.run(ex0)):
                path = ex.path
                handed = list(path.__dict__.get("_c11_handed", []))
                o = {"outcome": engine.outcome_kind(ex), "pending": [str(c)[:80] for c in path.pending],
                     "n_conditions": len(path.conditions), "n_handed": len(handed), "q": {}}
                for cs in (False, True):
                    q = path.to_smt2(NS(cache_solver=cs))
                    ctx = S.PathContext(args=NS(verbose=0, cache_solver=cs), path_id=10 * n + int(cs),
                                        solving_ctx=NS(dump_dir=P(td)), query=q)
                    S.dump(ctx)
                    try:
                        parsed = list(z3.parse_smt2_string(strip(ctx.dump_file.read_text())))
                        o["q"][str(cs)] = equiv_check(z3, chk, parsed, handed, q.assertions if cs else [])
                    except z3.Z3Exception as e:
                        o["q"][str(cs)] = [["unparsable", str(e)[:200]]]
                obs["paths"].append(o)
    except Exception as e:  # noqa: BLE001
        obs["error"] = f"{type(e).__name__}: {str(e)[:200]}"
    for f in os.listdir(td):
        os.unlink(os.path.join(td, f))
    os.rmdir(td)
    return obs


# ----------------------------------------------------------------- X-dumpfs: which bytes the solver process reads

FS_FUNCS = ["check_x", "setUp", "_compute_frontier"]
FS_ANSWERS = ["sat-abstraction", "sat", "unsat", "unknown"]
FS_STUB = r"""#!/bin/sh
# stub solver: $1 = log directory, $2 = the query file halmos hands to the solver.
# Records the name and the bytes of that file, then answers as planned for this invocation.
d="$1/$(cat "$1/current")"
n=0
[ -e "$d/count" ] && read n < "$d/count"
printf '%s' "$2" > "$d/$n.name"
[ -e "$2" ] && cat "$2" > "$d/$n.bytes"
ans=unknown
[ -e "$d/answer.$n" ] && read ans < "$d/answer.$n"
echo $((n + 1)) > "$d/count"
case "$ans" in
  sat-abstraction) printf 'sat\n(\n  (define-fun f_evm_bvudiv_256 ((x!0 (_ BitVec 256)) (x!1 (_ BitVec 256))) (_ BitVec 256)\n    #x0000000000000000000000000000000000000000000000000000000000000000)\n)\n' ;;
  sat) printf 'sat\n(\n)\n' ;;
  unsat) printf 'unsat\n()\n' ;;
  *) printf 'unknown\n' ;;
esac
"""


def gen_fs_conds(r):
    """Constraints of one path: comparisons of x / y with constants, sometimes through the
    division abstraction (then refinement changes the query)."""
    cs = []
    for _ in range(r.randint(1, 3)):
        k = r.random()
        v = r.choice(["x", "y"])
        c = r.choice([0, 1, 5, 7, 42, 255, 1000, r.randrange(1 << 16)])
        if k < 0.3:
            cs.append(["div", v, r.choice(["x", "y"]), c])   # f_evm_bvudiv_256(v, w) == c
        else:
            cs.append([r.choice(["ugt", "ule", "eq"]), v, c])
    return cs


def gen_fs_scenario(r, tier):
    """Function contexts (same-named functions of two contracts share DIR/<function> under
    --dump-smt-directory; path ids restart at 0 in each), files already in the dump
    directories, then a sequence of solve_end_to_end / solve_low_level calls."""
    nf = r.randint(1, 3)
    fn_pool = r.sample(FS_FUNCS, r.randint(1, 2))
    custom_all = r.random() < 0.8
    fctxs = [{"contract": r.choice(["A", "B", "C"]), "fn": r.choice(fn_pool),
              "custom": custom_all if r.random() < 0.9 else not custom_all, "cache": r.random() < 0.4} for _ in range(nf)]
    jobs = []
    for _ in range(r.randint(1, 5 if tier == "quick" else 8)):
        jobs.append({"fctx": r.randrange(nf), "path_id": r.choice([0, 0, 0, 1, 1, 2]), "conds": gen_fs_conds(r),
                     "call": "low" if r.random() < 0.2 else "e2e", "refined": r.random() < 0.08,
                     "core": r.random() < 0.08, "answer": r.choice(FS_ANSWERS + ["sat-abstraction"])})
    stale = []
    for _ in range(r.choice([0, 1, 1, 2, 3])):
        j = r.randrange(len(jobs))
        k = r.random()
        stale.append({"fctx": jobs[j]["fctx"] if k < 0.8 else r.randrange(nf),
                      "file": f"{jobs[j]['path_id'] if k < 0.9 else r.randint(0, 3)}{r.choice(['', '', '.refined'])}.smt2{r.choice(['', '', '', '.out'])}",
                      "kind": r.choice(["query-of", "query-of", "refined-query-of", "garbage", "empty"]),
                      "of": r.randrange(len(jobs)), "conds": gen_fs_conds(r), "readonly": r.random() < 0.25})
    return {"fctxs": fctxs, "jobs": jobs, "stale": stale}


def _fsj(f, pid, conds, answer="sat", **kw):
    return dict({"fctx": f, "path_id": pid, "conds": conds, "call": "e2e", "refined": False, "core": False, "answer": answer}, **kw)


_FEAS, _INFEAS, _ABS = [["ugt", "x", 7]], [["ule", "x", 5], ["ugt", "x", 7]], [["div", "x", "y", 3], ["ugt", "y", 1]]
FS_CORPUS = [
    # the same-named test of two contracts in one run (DIR/check_x/0.smt2 twice), both orders, plain and --cache-solver
    {"fctxs": [{"contract": "A", "fn": "check_x", "custom": True, "cache": False}, {"contract": "B", "fn": "check_x", "custom": True, "cache": False}],
     "jobs": [_fsj(0, 0, _FEAS), _fsj(1, 0, _INFEAS, "unsat")], "stale": []},
    {"fctxs": [{"contract": "A", "fn": "check_x", "custom": True, "cache": True}, {"contract": "B", "fn": "check_x", "custom": True, "cache": True}],
     "jobs": [_fsj(0, 0, _INFEAS, "unsat"), _fsj(1, 0, _FEAS)], "stale": []},
    # assertion probes of two invariant depths: a new FunctionContext per depth, ids restart
    {"fctxs": [{"contract": "Inv", "fn": "_compute_frontier", "custom": True, "cache": False}, {"contract": "Inv", "fn": "_compute_frontier", "custom": True, "cache": False}],
     "jobs": [_fsj(0, 0, _FEAS), _fsj(0, 1, _INFEAS, "unsat"), _fsj(1, 0, _INFEAS, "unsat"), _fsj(1, 1, _FEAS)], "stale": []},
    # a second run on the same --dump-smt-directory: files of the earlier run, also refined ones and solver outputs
    {"fctxs": [{"contract": "A", "fn": "setUp", "custom": True, "cache": False}],
     "jobs": [_fsj(0, 0, _ABS, "sat-abstraction"), _fsj(0, 1, _FEAS)],
     "stale": [{"fctx": 0, "file": "0.smt2", "kind": "query-of", "of": 1, "conds": [], "readonly": False},
               {"fctx": 0, "file": "0.refined.smt2", "kind": "refined-query-of", "of": 1, "conds": _INFEAS, "readonly": False},
               {"fctx": 0, "file": "0.smt2.out", "kind": "garbage", "of": 0, "conds": [], "readonly": False},
               {"fctx": 0, "file": "1.smt2", "kind": "garbage", "of": 0, "conds": [], "readonly": True}]},
    # refinement of two same-named tests: DIR/check_x/0.refined.smt2 twice
    {"fctxs": [{"contract": "A", "fn": "check_x", "custom": True, "cache": False}, {"contract": "B", "fn": "check_x", "custom": True, "cache": True}],
     "jobs": [_fsj(0, 0, _ABS, "sat-abstraction"), _fsj(1, 0, [["div", "y", "x", 9]], "sat-abstraction")], "stale": []},
    # default temporary directories: the same path solved again, leftovers inside the temporary directory
    {"fctxs": [{"contract": "A", "fn": "check_x", "custom": False, "cache": False}],
     "jobs": [_fsj(0, 0, _FEAS), _fsj(0, 0, _INFEAS, "unsat"), _fsj(0, 0, _ABS, "sat-abstraction", call="low", refined=True)],
     "stale": [{"fctx": 0, "file": "0.smt2", "kind": "empty", "of": 0, "conds": [], "readonly": True}]},
]


def impl_fs_scenario(sc):
    """Runs the calls of the scenario through the real solve_end_to_end / solve_low_level with
    a stub solver that records the bytes of the file it is given.  Returns, per call: the
    processes started (file name, bytes) next to what the property demands (the query of the
    path being solved as text; z3 comparison of the bytes with the path's constraints), and
    the model input."""
    import contextlib
    import io
    import shutil
    import stat
    from pathlib import Path as P
    from types import SimpleNamespace as NS

    import halmos.solve as S
    from halmos.calldata import FunctionInfo
    from halmos.config import ConfigSource, default_config
    from halmos.sevm import Path, f_div
    from halmos.utils import create_solver

    E = make_env()
    z3 = E.z3
    X = {"x": z3.BitVec("p_x_uint256_00", 256), "y": z3.BitVec("p_y_uint256_01", 256)}
    root = os.geteuid() == 0

    def cond(c):
        if c[0] == "div":
            return f_div(X[c[1]], X[c[2]]) == z3.BitVecVal(c[3], 256)
        a, b = X[c[1]], z3.BitVecVal(c[2], 256)
        return {"ugt": z3.UGT, "ule": z3.ULE, "eq": lambda p, q: p == q}[c[0]](a, b)

    base = P(tempfile.mkdtemp(prefix="c11fs_"))
    obs = {"error": None, "jobs": [], "root": root}
    fobjs = []
    buf = io.StringIO()
    try:
        (base / "log").mkdir()
        stub = base / "solver.sh"
        stub.write_text(FS_STUB)
        fresh = base / "fresh"
        fresh.mkdir()

        def reference_text(q, cache, refined):
            """what the property demands the solver to read: the query as the dump of an empty directory"""
            d = P(tempfile.mkdtemp(dir=fresh))
            ctx = S.PathContext(args=NS(verbose=0, cache_solver=cache), path_id=0, solving_ctx=NS(dump_dir=d), query=q, is_refined=refined)
            S.dump(ctx)
            return ctx.dump_file.read_text()

        with contextlib.redirect_stdout(buf), contextlib.redirect_stderr(buf):
            for f in sc["fctxs"]:
                over = {"cache_solver": f["cache"], "solver_command": f"/bin/sh {stub} {base / 'log'}", "solver_timeout_assertion": 120.0}
                if f["custom"]:
                    over["dump_smt_directory"] = str(base / "dump")
                args = default_config().with_overrides(ConfigSource.command_line, **over)
                fobjs.append(S.FunctionContext(args=args, info=FunctionInfo(f["contract"], f["fn"], f"{f['fn']}()", "00000000"),
                                               solver=None, contract_ctx=None))
        dirs = [S.dirname(fo.solving_ctx.dump_dir) for fo in fobjs]

        # the queries of the calls, from real Path objects
        built = []
        for j in sc["jobs"]:
            fo = fobjs[j["fctx"]]
            p = Path(create_solver())
            conds = [cond(c) for c in j["conds"]]
            for c in conds:
                p.append(c)
            q = p.to_smt2(fo.args)
            rq = S.refine(q)
            built.append({"q": q, "rq": rq, "conds": conds, "changed": rq.smtlib != q.smtlib})

        # files already there
        files0 = {}
        for s in sc["stale"]:
            name = dirs[s["fctx"]] + "/" + s["file"]
            if s["kind"] in ("query-of", "refined-query-of"):
                b = built[s["of"]] if not s["conds"] else None
                if b is None:
                    p = Path(create_solver())
                    for c in s["conds"]:
                        p.append(cond(c))
                    q = p.to_smt2(fobjs[s["fctx"]].args)
                else:
                    q = b["q"]
                if s["kind"] == "refined-query-of":
                    q = S.refine(q)
                content = reference_text(q, sc["fctxs"][s["fctx"]]["cache"], False)
            elif s["kind"] == "garbage":
                content = "(set-logic QF_AUFBV)\n(assert false)\n(check-sat)\n"
            else:
                content = ""
            if name in files0:
                continue
            files0[name] = content
            P(name).write_text(content)
            if s["readonly"]:
                os.chmod(name, stat.S_IRUSR | stat.S_IRGRP)
        obs["files0"] = files0

        chk = z3.Solver()
        chk.set("timeout", 2000)
        strip = lambda t: re.sub(r"(?m)^\((set-option|set-logic|check-sat|get-model|get-unsat-core)[^\n]*\n", "", t)  # noqa: E731
        model_jobs = []
        for k, (j, b) in enumerate(zip(sc["jobs"], built)):
            fo, cache = fobjs[j["fctx"]], sc["fctxs"][j["fctx"]]["cache"]
            ctx = S.PathContext(args=fo.args, path_id=j["path_id"], solving_ctx=fo.solving_ctx,
                                query=b["rq"] if j["refined"] else b["q"], is_refined=j["refined"])
            q_now = ctx.query
            r_now = S.refine(q_now)
            core = j["core"] and j["call"] == "e2e" and cache and len(q_now.assertions) > 0
            again = (j["call"] == "e2e" and not core and j["answer"] == "sat-abstraction" and not j["refined"] and r_now.smtlib != q_now.smtlib)
            # specification: the processes that must be started and what each must read
            want = []
            if not core:
                want.append([str(ctx.dump_file), reference_text(q_now, cache, j["refined"])])
                if again:
                    want.append([str(ctx.refine().dump_file), reference_text(r_now, cache, True)])
            ld = base / "log" / str(k)
            ld.mkdir()
            (base / "log" / "current").write_text(str(k))
            (ld / "answer.0").write_text(j["answer"] + "\n")
            (ld / "answer.1").write_text("sat\n")
            o = {"raised": None, "want": want, "core": core, "again": again}
            if core:
                fo.solving_ctx.unsat_cores.append(list(q_now.assertions[:1]))
            try:
                with contextlib.redirect_stdout(buf), contextlib.redirect_stderr(buf):
                    out = S.solve_end_to_end(ctx) if j["call"] == "e2e" else S.solve_low_level(ctx)
                o["result"] = str(out.result)
            except OSError as e:  # a leftover that cannot be written (not as root): no solver may be started on it
                o["raised"] = f"{type(e).__name__}"
            finally:
                if core:
                    fo.solving_ctx.unsat_cores.pop()
            got = []
            n = 0
            while (ld / f"{n}.name").exists():
                bf = ld / f"{n}.bytes"
                got.append([(ld / f"{n}.name").read_text(), bf.read_text() if bf.exists() else None])
                n += 1
            o["got"] = got
            # the dumped *.smt2 files left behind by this call
            o["left"] = [P(w[0]).read_text() if P(w[0]).is_file() else None for w in want]
            # the bytes the solver read against the constraints of the path (z3), for the unrefined query
            o["sem"] = []
            if got and got[0][1] is not None and not j["refined"] and (not want or got[0][1] != want[0][1]):
                try:
                    parsed = list(z3.parse_smt2_string(strip(got[0][1])))
                    ids = re.findall(r"\(assert \(! \|([0-9]+)\| :named", got[0][1])
                    o["sem"] = equiv_check(z3, chk, parsed, b["conds"], ids)
                except z3.Z3Exception as e:
                    o["sem"] = [["unparsable", str(e)[:120]]]
            obs["jobs"].append(o)
            model_jobs.append({"dir": dirs[j["fctx"]], "id": j["path_id"], "refined": j["refined"], "cache": cache, "core": core,
                               "again": again, "smtlib": q_now.smtlib, "rsmtlib": r_now.smtlib,
                               "ids": [int(i) for i in q_now.assertions] if all(i.isdigit() for i in q_now.assertions) else None})
        obs["model_jobs"] = model_jobs
        files1 = {}
        for d in sorted(set(dirs)):
            for p_ in sorted(P(d).iterdir()):
                if p_.is_file() and not p_.name.endswith((".out", ".err")):
                    files1[str(p_)] = p_.read_text()
        obs["files1"] = files1
    except Exception as e:  # noqa: BLE001
        obs["error"] = f"{type(e).__name__}: {str(e)[:300]}"
    finally:
        for fo in fobjs:
            with contextlib.suppress(Exception):
                fo.thread_pool.shutdown(wait=False)
            with contextlib.suppress(Exception):
                fo.solving_ctx.executor.shutdown(wait=False)
            if not isinstance(fo.solving_ctx.dump_dir, P):
                with contextlib.suppress(Exception):
                    fo.solving_ctx.dump_dir.cleanup()
        for dp, _, fs_ in os.walk(base):
            for f in fs_:
                with contextlib.suppress(OSError):
                    os.chmod(os.path.join(dp, f), 0o600)
        shutil.rmtree(base, ignore_errors=True)
    return obs


def fs_model_call(obs):
    """the integer encoding of a scenario for the extracted c11_fs (None: ids not numeric)"""
    def enc(s):
        return [len(s)] + [ord(c) for c in s]

    a = [len(obs["files0"])]
    for name, content in obs["files0"].items():
        a += enc(name) + enc(content)
    a.append(len(obs["model_jobs"]))
    for j in obs["model_jobs"]:
        if j["ids"] is None:
            return None
        a += enc(j["dir"]) + [j["id"], int(j["refined"]), int(j["cache"]), int(j["core"]), int(j["again"])]
        a += enc(j["smtlib"]) + enc(j["rsmtlib"]) + [len(j["ids"])] + j["ids"]
    return a


def parse_fs_model(res):
    if not res:
        return None
    it = iter(res)

    def s():
        n = next(it)
        return "".join(chr(next(it)) for _ in range(n))

    try:
        trace = []
        for _ in range(next(it)):
            name = s()
            trace.append([name, s() if next(it) else None])
        files = {}
        for _ in range(next(it)):
            name = s()
            files[name] = s()
    except StopIteration:
        return None
    return {"trace": trace, "files": {n: c for n, c in files.items() if not n.endswith((".out", ".err"))}}


def describe_bytes(got, sc, obs, k):
    """whose text a file handed to the solver holds (for the failure message)"""
    if got is None:
        return "no such file"
    for k2, o2 in enumerate(obs["jobs"]):
        for w in o2["want"]:
            if w[1] == got and k2 != k:
                return f"the query of call {k2} ({sc['fctxs'][sc['jobs'][k2]['fctx']]['contract']}.{sc['fctxs'][sc['jobs'][k2]['fctx']]['fn']} path {sc['jobs'][k2]['path_id']}, constraints {sc['jobs'][k2]['conds']})"
    for k2, o2 in enumerate(obs["jobs"]):
        for w in o2["want"]:
            if w[1] and got.startswith(w[1]) and len(got) > len(w[1]):
                return f"the query of call {k2} (constraints {sc['jobs'][k2]['conds']}) followed by {len(got) - len(w[1])} more bytes"
    for name, c in obs["files0"].items():
        if c == got:
            return f"the content {name.split('/')[-2]}/{name.split('/')[-1]} had before the run"
        if c and got.startswith(c):
            return f"the old content of {name.split('/')[-1]} followed by {len(got) - len(c)} more bytes"
    return f"{len(got)} bytes: {got[:120]!r}..."


# ----------------------------------------------------------------- run

def txt(s):
    return [ord(c) for c in s]


def untxt(l):
    return "".join(chr(c) for c in l)


def run(rep, tier):
    b = common.build_property(PID, TRANSLATORS)
    common.standard_obligations(rep, PID, b)
    # the extracted model does not depend on the proofs: it is built (and compared with the
    # implementation) also when a proof obligation is broken
    exe, log = common.build_driver(PID)
    rep.obligation("extraction of Model/SmtTextModel.v + Model/PathHeapModel.v + Model/DumpFsModel.v entry points + OCaml driver build", exe is not None, "" if exe else log[-800:])
    if exe is None and b["make_ok"]:
        rep.fail("broken-tie", "extracted model driver does not build: " + log[-400:], case={})
    m = Model(exe) if exe is not None else None
    r = common.rng(PID)
    nfail = [0]
    import time as _time

    marks = [("start", _time.time())]

    def mark(name):
        marks.append((name, _time.time()))
        rep.coverage["timing_s"] = {b[0]: round(b[1] - a[1], 1) for a, b in zip(marks, marks[1:])}

    perkind = {}

    def fail(kind, what, case, **kw):
        # the report prints 8 failures, failing inputs first: keep room for the other kinds
        nfail[0] += 1
        perkind[kind] = perkind.get(kind, 0) + 1
        if perkind[kind] <= (5 if kind == "failing-input" else 6):
            rep.fail(kind, what, case=case, **kw)

    # ---- translated rules (when the translator still understands solve.py)
    info = None
    try:
        import importlib

        tr = importlib.import_module("translate.t_refine")
        _, info = tr.translate((common.SRC / "solve.py").read_text())
    except Exception:  # reported by standard_obligations
        info = None

    mark('build')
    # ---- X-refine, text
    lines = refine_lines(tier, r)
    mres = m.parallel_batch([("c11_refine_line", txt(s)) for s in lines]) if m else None
    for i, s in enumerate(lines):
        got, ids = real_refine(s)
        mm = re.fullmatch(r"\(declare-fun f_evm_([a-z]*)_([0-9a-z]+) \(\(_ BitVec ([0-9a-z]+)\) \(_ BitVec ([0-9a-z]+)\)\) \(_ BitVec ([0-9a-z]+)\)\)", s)
        wellformed = bool(mm) and len({mm.group(2), mm.group(3), mm.group(4), mm.group(5)}) == 1 and mm.group(2).isdigit()
        refinable = wellformed and mm.group(1) in ("bvmul", "bvudiv", "bvurem", "bvsdiv", "bvsrem")
        rep.count("refine_line", "refinable declaration" if refinable else ("other f_evm_ declaration" if mm else "other line"))
        rep.case({"refine_line": s}, nontrivial=bool(mm))
        # spec: only refinable declarations change, into a define-fun of the same symbol; ids kept
        if ids != ["1", "2"]:
            fail("failing-input", f"refine changed the assertion ids on {s!r}: {ids}", {"refine_line": s}, sig={"what": "refine-ids"})
        if not refinable and got != s:
            fail("failing-input", f"refine rewrote a line that declares no refinable abstraction: {s!r} -> {got!r}",
                 {"refine_line": s, "implementation": got}, sig={"what": "refine-only", "op": mm.group(1) if mm else None})
        if refinable and not got.startswith(f"(define-fun f_evm_{mm.group(1)}_{mm.group(2)} ((x (_ BitVec {mm.group(2)})) (y (_ BitVec {mm.group(2)}))) (_ BitVec {mm.group(2)}) "):
            fail("failing-input", f"refine did not turn the abstraction into a definition of the same symbol: {s!r} -> {got!r}",
                 {"refine_line": s, "implementation": got}, sig={"what": "refine-not-applied", "op": mm.group(1)})
        if mres is not None:
            mo = None if mres[i] is None else untxt(mres[i])
            if mo != got:
                fail("broken-tie", f"model refine_line and solve.refine disagree on {s!r}: model {mo!r}, implementation {got!r}",
                     {"refine_line": s, "implementation": got, "model": mo})

    mark('refine_lines')
    # ---- X-refine, values of the refined definitions
    evals = []
    widths_extra = [8, 1] if tier == "quick" else [8, 1, 2, 3, 5, 16, 64, 255, 257, 1024]
    for op, ws in REAL_WIDTHS.items():
        for n in ws + (widths_extra if op != "exp" else []):
            evals.append((op, n))
    calls, meta = [], []
    for op, n in evals:
        line = decl_line(op, str(n))
        got, _ = real_refine(line)
        pts = eval_points(n, r, 6 if tier == "quick" else 60)
        vals = z3_apply(got, f"f_evm_{op}_{n}", n, pts)
        ri = oi = None
        if info is not None:
            for k, rule in enumerate(info["rules"]):
                if op in rule["ops"]:
                    ri, oi = k, rule["ops"].index(op)
        for (x, y), v in zip(pts, vals):
            rep.count("refined_value", f"{op}_{n}")
            rep.case({"eval": [op, n, x, y]}, nontrivial=(y == 0 or x >= (1 << (n - 1)) or y >= (1 << (n - 1))))
            if op == "exp":
                if v is not None:
                    fail("failing-input", f"f_evm_exp_{n} is constrained after refine", {"eval": [op, n, x, y], "implementation": v}, sig={"what": "exp-interpreted"})
                continue
            want = spec_op(op, n, x, y)
            if v != want:
                fail("failing-input",
                     f"refined f_evm_{op}_{n}({x}, {y}) = {v} but the exact EVM operation gives {want} (refined text: {got!r})",
                     {"eval": [op, n, x, y], "implementation": v, "spec": want, "refined": got},
                     sig={"what": "refine-inexact", "op": op})
            elif m is not None and ri is not None:
                calls.append(("c11_eval", [ri, oi, x, y] + txt(str(n))))
                meta.append((op, n, x, y, v))
    if m is not None and calls:
        res = m.parallel_batch(calls)
        for (op, n, x, y, v), o in zip(meta, res):
            if o != [1, n, v]:
                fail("broken-tie", f"model evaluation of the regenerated body of f_evm_{op}_{n} at ({x}, {y}) gives {o}, z3 on the real refined text gives {v}",
                     {"eval": [op, n, x, y], "implementation": v, "model": o})

    mark('refined_values')
    # ---- conditions that a duplicate test coarser than structural equality would confuse
    TWINS[:] = find_hash_twins()
    rep.coverage["hash_twin_pairs"] = len(TWINS)
    twin_scripts, twin_hscripts = [], []
    for t1, t2 in TWINS[:4]:
        twin_scripts.append([["append", t1, False], ["append", t2, True], ["slice", ["a"]], ["extend"], ["append", t1, False]])
        twin_hscripts.append([["append", 0, t1, False], ["extend", 0], ["append", 1, t2, True], ["branch", 1, t1], ["activate", 2], ["append", 2, t2, False]])
    mark('twins')
    # ---- X-path
    nscripts = 220 if tier == "quick" else 6000
    scripts = list(CORPUS) + twin_scripts + [gen_script(r, tier) for _ in range(nscripts)]
    if tier == "quick":
        impl = [impl_script(sc) for sc in scripts]
    else:
        import multiprocessing as mp

        with mp.get_context("spawn").Pool(8) as pool:
            impl = pool.map(impl_script, scripts, chunksize=25)
    mark('scripts_impl')
    mres = None
    if m is not None:
        calls = []
        for o in impl:
            flat = [len(o["table"])]
            for row in o["table"]:
                flat += [len(row)] + row
            for cs in (0, 1):
                calls.append(("c11_path", [cs] + flat + o["ops"]))
        mres = m.parallel_batch(calls)
        dcalls, dmeta = [], []
        for k, o in enumerate(impl):
            if o["error"]:
                continue
            for cs in (False, True):
                q = o["q"][str(cs)]
                if all(i.isdigit() for i in q["raw_ids"]):
                    for kind in ("smtlib", "refined_smtlib"):
                        dcalls.append(("c11_dump", [int(cs), len(q["raw_ids"])] + [int(i) for i in q["raw_ids"]] + txt(q[kind])))
                        dmeta.append((k, cs, kind))
        dres = m.parallel_batch(dcalls) if dcalls else []
        dump_model = {key: (None if v is None else untxt(v)) for key, v in zip(dmeta, dres)}
    mark('scripts_model')
    undecided = 0
    for k, (script, o) in enumerate(zip(scripts, impl)):
        kinds = script_kinds(script, o)
        for kd in kinds or ["plain"]:
            rep.count("script_kind", kd)
        rep.count("script_len", len(script))
        case = {"script": script}
        rep.case(case, nontrivial=bool(set(kinds) & {"dedup_or_true", "solver_holds_sliced_subset", "refined", "branch"}))
        mo = [parse_model_path(mres[2 * k]), parse_model_path(mres[2 * k + 1])] if mres is not None else None
        if o["error"]:
            if mo is not None and not (mo[0] and mo[0]["error"]):
                fail("broken-tie", f"implementation raised {o['error']} but the model ran on {script}", case)
            continue
        # --- spec vs implementation: the query is equivalent to the accumulated constraints
        for cs in ("False", "True"):
            q = o["q"][cs]
            for which, key in (("spec", "query"), ("spec_refined", "refined query")):
                for kind, detail in q[which]:
                    if kind == "undecided":
                        undecided += 1
                        continue
                    fail("failing-input",
                         f"the {key} (cache_solver={cs}) is not equivalent to the path's constraints [{kind}]: {detail} on script {script}",
                         dict(case, cache_solver=cs, kind=kind, detail=detail), sig={"what": "query-" + kind, "refined": which == "spec_refined"})
            left = re.findall(r"\(declare-fun f_evm_(?!exp_)[a-z]+_[0-9]+ ", q["refined_smtlib"])
            if left:
                fail("failing-input", f"after refine the query still declares {left} uninterpreted (script {script})",
                     dict(case, cache_solver=cs, left=left), sig={"what": "refine-not-applied"})
            if not q["refined_ids_same"]:
                fail("failing-input", f"refine changed the assertion ids on script {script}", case, sig={"what": "refine-ids"})
            if len(q["raw_ids"]) != len(o["conds"]) or -1 in q["ids"]:
                fail("failing-input", f"the ids of the query are not the ids of the path conditions: {q['raw_ids']} on {script}", case, sig={"what": "query-ids"})
        if o["pending"]:
            fail("broken-tie", "script left pending conditions", case)
        if mo is None:
            continue
        for ci, cs in enumerate(("False", "True")):
            q, mm_ = o["q"][cs], mo[ci]
            if mm_ is None or mm_["error"]:
                fail("broken-tie", f"model failed / raised on script {script} where the implementation ran", case)
                break
            for field in ("conds", "solver", "sliced"):
                if mm_[field] != o[field]:
                    fail("broken-tie", f"Path.{field}: implementation {o[field]} vs model {mm_[field]} on script {script}",
                         dict(case, field=field, implementation=o[field], model=mm_[field]))
            if mm_["ids"] != q["ids"] or mm_["asserted"] != [c for c, _ in o["conds"]]:
                fail("broken-tie", f"to_smt2 ids (cache_solver={cs}): implementation {q['ids']} vs model {mm_['ids']} / asserted {mm_['asserted']} on script {script}", case)
            for kind, tkey in (("smtlib", "text"), ("refined_smtlib", "refined_text")):
                dm = dump_model.get((k, cs == "True", kind))
                if dm is not None and dm != q[tkey]:
                    fail("broken-tie", f"dump text (cache_solver={cs}, {kind}) differs from the model's dump_text on script {script}: implementation {q[tkey][-300:]!r} vs model {dm[-300:]!r}",
                         dict(case, cache_solver=cs))
            # whole-query refine: per line through the model
        # model refine on every line of the real query text
    # whole-query refine via the model, line by line (plain + cached)
    if m is not None:
        lcalls, lmeta = [], []
        for k, o in enumerate(impl):
            if o["error"]:
                continue
            for cs in ("False", "True"):
                ls = o["q"][cs]["smtlib"].split("\n")
                for ln in ls:
                    lcalls.append(("c11_refine_line", txt(ln)))
                lmeta.append((k, cs, len(ls)))
        lres = m.parallel_batch(lcalls) if lcalls else []
        pos = 0
        for k, cs, n in lmeta:
            outl = lres[pos:pos + n]
            pos += n
            mo_text = None if any(x is None for x in outl) else "\n".join(untxt(x) for x in outl)
            if mo_text != impl[k]["q"][cs]["refined_smtlib"]:
                fail("broken-tie", f"refine of the whole query (cache_solver={cs}) differs from the model applied line by line on script {scripts[k]}",
                     {"script": scripts[k], "cache_solver": cs})
    mark("compare")

    # ---- X-heap: programs over several Path objects
    nh = 220 if tier == "quick" else 12000
    hscripts = list(HCORPUS) + twin_hscripts + [gen_hscript(r, tier) if k % 2 else gen_dfs_hscript(r, tier) for k in range(nh)]
    if tier == "quick":
        himpl = [impl_hscript(sc) for sc in hscripts]
    else:
        import multiprocessing as mp

        with mp.get_context("spawn").Pool(8) as pool:
            himpl = pool.map(impl_hscript, hscripts, chunksize=25)
    mark("hscripts_impl")
    hres = None
    if m is not None:
        calls = []
        for o in himpl:
            flat = [len(o["table"])]
            for row in o["table"]:
                flat += [len(row)] + row
            for cs in (0, 1):
                calls.append(("c11_heap", [cs] + flat + o["ops"]))
            calls.append(("c11_lineage_spec", [0] + flat + o["ops"]))
            calls.append(("c11_sched", [0] + flat + o["ops"]))
            calls.append(("c11_lineage_solver", [0] + flat + o["ops"]))
        hres = m.parallel_batch(calls)
    mark("hscripts_model")
    nobjects = 0
    for k, (script, o) in enumerate(zip(hscripts, himpl)):
        kinds = hscript_kinds(script, o)
        for kd in kinds or ["plain"]:
            rep.count("hscript_kind", kd)
        case = {"hscript": script}
        rep.case(case, nontrivial=bool(set(kinds) & {"several_children_of_one_state", "sibling_after_append", "fork"}))
        mo = [parse_model_heap(hres[5 * k]), parse_model_heap(hres[5 * k + 1])] if hres is not None else None
        if o["error"]:
            if mo is not None and not (mo[0] and mo[0]["error"]):
                fail("broken-tie", f"implementation raised {o['error']} but the object-level model ran on {script}", case)
            continue
        rep.count("objects_per_program", len(o["paths"]))
        nobjects += len(o["paths"])
        # --- spec vs implementation: every object's conditions / query = the constraints of its lineage
        for j, po in enumerate(o["paths"]):
            got, want = [c for c, _ in po["conds"]], o["spec_conds"][j] if j < len(o["spec_conds"]) else None
            if got != want:
                extra = [c for c in got if want is None or c not in want]
                missing = [c for c in (want or []) if c not in got]
                kind = "query-stronger" if extra else ("query-weaker" if missing else "query-order")
                fail("failing-input",
                     f"Path object {j} holds conditions {got} (to_smt2 serialises them all) but the constraints accumulated on its own lineage are {want}"
                     f" (foreign: {extra}, lost: {missing}; integers name the simplified conditions of the program) on program {script}",
                     dict(case, object=j, conditions=got, lineage=want), sig={"what": "object-" + kind})
            for cs in ("False", "True"):
                q = po["q"][cs]
                if q["ids"] != got or q["n_ids"] != len(got):
                    fail("failing-input", f"the ids of the query of Path object {j} (cache_solver={cs}) are not the ids of its conditions: {q['ids']} vs {got} on {script}",
                         dict(case, object=j), sig={"what": "query-ids"})
                for kind, detail in q.get("spec", []):
                    if kind == "undecided":
                        undecided += 1
                        continue
                    fail("failing-input",
                         f"the dumped query of Path object {j} (cache_solver={cs}) is not equivalent to the constraints accumulated on its lineage [{kind}]: {detail} on program {script}",
                         dict(case, object=j, cache_solver=cs, kind=kind, detail=detail), sig={"what": "object-" + kind})
        if mo is None:
            continue
        ml = parse_model_lineage(hres[5 * k + 2])
        if ml != o["spec_conds"]:
            fail("broken-tie", f"python rendering of the lineage constraints {o['spec_conds']} differs from add_all/accumulated/lineages of the Coq development {ml} on {script}", case)
        # C11_solver_mirrors_running_path on the real objects: when the program follows the
        # exploration discipline, the z3 solver a path is running on holds the pure model's
        # solver view of that path's lineage
        sch = hres[5 * k + 3]
        if sch and sch[0] == 1:
            rep.count("hscript_kind", "follows_exploration_discipline")
            it = iter(hres[5 * k + 4] or [0])
            pure = []
            for _ in range(next(it)):
                st_, n_ = next(it), next(it)
                pure.append(sorted(next(it) for _ in range(n_)) if st_ else None)
            for sref, i in enumerate(sch[2:2 + sch[1]]):
                if i < len(o["paths"]) and i < len(pure) and pure[i] != o["paths"][i]["solver"]:
                    fail("broken-tie", f"solver object {sref}, running Path object {i}: z3 holds {o['paths'][i]['solver']}, the pure model's solver view along the lineage is {pure[i]} on disciplined program {script}",
                         dict(case, object=i, implementation=o["paths"][i]["solver"], model=pure[i]))
        for ci, cs in enumerate(("False", "True")):
            mm_ = mo[ci]
            if mm_ is None or mm_["error"]:
                fail("broken-tie", f"object-level model failed / raised on program {script} where the implementation ran", case)
                break
            if len(mm_["paths"]) != len(o["paths"]):
                fail("broken-tie", f"{len(o['paths'])} Path objects, model {len(mm_['paths'])} on {script}", case)
                break
            for j, (po, pm) in enumerate(zip(o["paths"], mm_["paths"])):
                for field in ("conds", "pending", "sliced", "solver"):
                    if pm[field] != po[field]:
                        fail("broken-tie", f"Path object {j}.{field}: implementation {po[field]} vs object-level model {pm[field]} on program {script}",
                             dict(case, object=j, field=field, implementation=po[field], model=pm[field]))
                if pm["ids"] != po["q"][cs]["ids"]:
                    fail("broken-tie", f"to_smt2 ids of Path object {j} (cache_solver={cs}): implementation {po['q'][cs]['ids']} vs model {pm['ids']} on {script}", dict(case, object=j))
    mark("hcompare")

    # ---- X-engine: the paths SEVM.run yields (forks made by JUMPI and by the vm.assert* handlers)
    ne = 40 if tier == "quick" else 1500
    eprogs = list(ENGINE_CORPUS) + [gen_engine_program(r) for _ in range(ne)]
    if tier == "quick":
        eimpl = [impl_engine(pg) for pg in eprogs]
    else:
        import multiprocessing as mp

        with mp.get_context("spawn").Pool(8) as pool:
            eimpl = pool.map(impl_engine, eprogs, chunksize=25)
    nyield = 0
    for pg, o in zip(eprogs, eimpl):
        case = {"engine_program": pg}
        kinds = sorted({st[1] if st[0] == "vm" else "jumpi" for st in pg})
        for kd in kinds:
            rep.count("engine_statement", kd)
        forks = sum(1 for p_ in (o.get("paths") or []) if p_["outcome"] == "fail")
        rep.case(case, nontrivial=forks > 0)
        if o["error"]:
            fail("broken-tie", f"SEVM.run raised {o['error']} on engine program {pg}", case)
            continue
        rep.count("engine_paths_per_program", len(o["paths"]))
        for n, p_ in enumerate(o["paths"]):
            nyield += 1
            rep.count("engine_outcome", p_["outcome"].split(":")[0])
            if p_["pending"]:
                fail("failing-input",
                     f"SEVM.run yielded path {n} ({p_['outcome']}) with conditions still pending {p_['pending']}: they are constraints of the path (handed {p_['n_handed']}, in conditions {p_['n_conditions']}) that to_smt2 does not serialise, on engine program {pg}",
                     dict(case, path=n, pending=p_["pending"]), sig={"what": "yielded-pending"})
            for cs, res in p_["q"].items():
                for kind, detail in res:
                    if kind == "undecided":
                        undecided += 1
                        continue
                    fail("failing-input",
                         f"the dumped query (cache_solver={cs}) of yielded path {n} ({p_['outcome']}) is not equivalent to the constraints handed to that path [{kind}]: {detail} on engine program {pg}",
                         dict(case, path=n, cache_solver=cs, kind=kind, detail=detail), sig={"what": "engine-" + kind})
    mark("engine")

    # ---- X-dumpfs: the bytes the solver process reads, over pre-populated dump directories
    nfs = 34 if tier == "quick" else 1500
    fscs = list(FS_CORPUS) + [gen_fs_scenario(r, tier) for _ in range(nfs)]
    if tier == "quick":
        fimpl = [impl_fs_scenario(sc) for sc in fscs]
    else:
        import multiprocessing as mp

        with mp.get_context("spawn").Pool(8) as pool:
            fimpl = pool.map(impl_fs_scenario, fscs, chunksize=10)
    mark("dumpfs_impl")
    fres = None
    if m is not None:
        fcalls = [(i, fs_model_call(o)) for i, o in enumerate(fimpl) if not o["error"]]
        fcalls = [(i, a) for i, a in fcalls if a is not None]
        out = m.parallel_batch([("c11_fs", a) for _, a in fcalls]) if fcalls else []
        fres = {i: parse_fs_model(o) for (i, _), o in zip(fcalls, out)}
    nproc = 0
    for i, (sc, o) in enumerate(zip(fscs, fimpl)):
        case = {"fs_scenario": sc}
        if o["error"]:
            rep.case(case, nontrivial=False)
            fail("broken-tie", f"the dump / solve scenario could not be run on the real code: {o['error']} on {sc}", case)
            continue
        # a scenario is non-trivial when the name of a query file is taken before it is solved:
        # by a file that was there before, or by an earlier call
        names_before = set(o["files0"])
        collide = False
        for oj in o["jobs"]:
            for w in oj["want"]:
                if w[0] in names_before:
                    collide = True
                names_before.add(w[0])
        rep.case(case, nontrivial=collide)
        rep.count("fs_scenario", "query file name already taken" if collide else "fresh names only")
        rep.count("fs_dump_dir", "+".join(sorted({"--dump-smt-directory" if f["custom"] else "temporary" for f in sc["fctxs"]})))
        raised = False
        for k, (j, oj) in enumerate(zip(sc["jobs"], o["jobs"])):
            f = sc["fctxs"][j["fctx"]]
            who = f"call {k} ({'solve_end_to_end' if j['call'] == 'e2e' else 'solve_low_level'} for {f['contract']}.{f['fn']} path {j['path_id']}, cache_solver={f['cache']}, constraints {j['conds']})"
            rep.count("fs_call", ("core hit" if oj["core"] else "refined again" if oj["again"] else j["call"]) + ("/cache" if f["cache"] else ""))
            nproc += len(oj["got"])
            if oj["raised"]:
                raised = True
                if oj["got"]:
                    fail("failing-input", f"{who} raised {oj['raised']} and yet started a solver on {oj['got']}", dict(case, call=k), sig={"what": "solver-started-after-failed-dump"})
                continue
            # spec vs implementation: the processes started, the file each is given, the bytes it reads
            if [g[0] for g in oj["got"]] != [w[0] for w in oj["want"]]:
                fail("failing-input",
                     f"{who}: the solver was started on {[g[0].split('/')[-1] for g in oj['got']]}, the property demands {[w[0].split('/')[-1] for w in oj['want']]} (the path's query; its refinement when the answer to the path's query is a model of an abstraction) in scenario {sc}",
                     dict(case, call=k), sig={"what": "solver-runs", "refined": bool(oj["again"])})
                continue
            for n, (g, w) in enumerate(zip(oj["got"], oj["want"])):
                if g[1] != w[1]:
                    sem = "; ".join(f"[{kind}] {detail}" for kind, detail in oj["sem"] if kind != "undecided") if n == 0 else ""
                    fail("failing-input",
                         f"{who}: the solver process was handed {'/'.join(g[0].split('/')[-2:])} which holds {describe_bytes(g[1], sc, o, k)} and not the {'refined ' if n else ''}query of the path being solved"
                         f"{' -- against the constraints of the path: ' + sem if sem else ''} (files before: {sorted('/'.join(x.split('/')[-2:]) for x in o['files0'])}) in scenario {sc}",
                         dict(case, call=k, process=n, file=g[0]), sig={"what": "solver-read-other-query", "refined": n > 0, "cache": f["cache"]})
                elif oj["left"][n] != w[1] and all(w2[0] != w[0] for w2 in oj["want"][n + 1:]):
                    fail("failing-input",
                         f"{who}: after the call the dumped file {'/'.join(w[0].split('/')[-2:])} holds {describe_bytes(oj['left'][n], sc, o, k)} and not the {'refined ' if n else ''}query of the path that was solved, in scenario {sc}",
                         dict(case, call=k, process=n, file=w[0]), sig={"what": "dumped-file-not-the-query", "refined": n > 0})
        if raised or fres is None or i not in fres:
            continue
        mo = fres[i]
        got_trace = [g for oj in o["jobs"] for g in oj["got"]]
        if mo is None:
            fail("broken-tie", f"the extracted model of the dump / solve protocol failed on scenario {sc}", case)
        elif mo["trace"] != got_trace:
            d = next((x for x in range(min(len(got_trace), len(mo["trace"]))) if got_trace[x] != mo["trace"][x]), min(len(got_trace), len(mo["trace"])))
            fail("broken-tie",
                 f"solver processes: the real code started {len(got_trace)}, the model interpreting the regenerated dump / solve_low_level / solve_end_to_end {len(mo['trace'])}; first difference at process {d}: "
                 f"implementation {[got_trace[d][0].split('/')[-1], (got_trace[d][1] or '')[-160:]] if d < len(got_trace) else None} vs model {[mo['trace'][d][0].split('/')[-1], (mo['trace'][d][1] or '')[-160:]] if d < len(mo['trace']) else None} on scenario {sc}",
                 case)
        elif mo["files"] != o["files1"]:
            diff = sorted(n_ for n_ in set(mo["files"]) | set(o["files1"]) if mo["files"].get(n_) != o["files1"].get(n_))
            fail("broken-tie", f"query files after the scenario differ between the real dump directories and the model: {['/'.join(x.split('/')[-2:]) for x in diff]} on scenario {sc}", case)
    mark("dumpfs_compare")
    rep.coverage["solver_processes_observed"] = nproc
    rep.coverage["fs_scenarios_validated_against_impl"] = len(fres) if fres is not None else 0
    rep.coverage["engine_paths_observed"] = nyield
    rep.coverage["path_objects_observed"] = nobjects
    rep.coverage["object_programs_validated_against_impl"] = len(hscripts) if hres is not None else 0
    rep.coverage["undecided_equivalence_checks"] = undecided
    rep.coverage["traces_validated_against_impl"] = len(scripts) if mres is not None else 0
    return rep.finish(
        checker_cmd="make -C coq Props/C11.vo (coq_makefile, coqc 8.16.1) after regenerating coq/Gen/GenRefine.v and coq/Gen/GenDumpFs.v from /repo/src/halmos/solve.py and coq/Gen/GenPathCopy.v from /repo/src/halmos/sevm.py",
        trusted_base=common.TRUSTED_BASE_COMMON + ["z3 (python bindings) as the reference parser / evaluator of the dumped SMT-LIB text in the correspondence run"],
        assumptions=ASSUMPTIONS,
        partial=PARTIAL,
        rule="case families: (1) refine_line: declaration lines f_evm_<op>_<N> for ops inside / outside the alternations, widths 256/264/512 and others incl. malformed (mismatching sorts, leading zeros, non-digits), other query lines; non-trivial = an f_evm_ declaration; (2) eval: the real refined define-fun applied by z3 to boundary operands (0, 1, 2^(N-1), 2^N-1, ...) and random ones at widths 256/264/512 and small widths; non-trivial = zero divisor or a negative (msb set) operand; (3) script: random lives of a sevm.Path (append / branch+activate with the parent continuing / slice / extend_path into a Path with a fresh solver) over generated z3 conditions with f_evm_ abstractions, arrays, duplicates and trivially true conditions; non-trivial = a condition was deduplicated or dropped as true, the solver holds a strict subset of conditions (sliced parent), refinement changed the query, or a branch happened; (4) hscript: programs over several Path objects (handle = creation index; append / branch / activate / slice / extend on any live object; every other program generated along the exploration discipline: one running path per solver, LIFO activation, finished states sliced and extended once or twice) plus a directed corpus (two transactions from one unsliced / sliced state, both sides of a fork running on, a frontier state extended three times, out-of-order activation); non-trivial = several objects created from one state, an object created from a state after a sibling (or the state) was appended to, or a fork; (5) engine_program: 1-4 statements over two symbolic calldata words (JUMPI to STOP / REVERT / INVALID, vm.assertTrue / assertFalse / assertEq, vm.assume) assembled to bytecode and run by the real SEVM.run; non-trivial = a failing-assertion fork was yielded; (6) fs_scenario: 1-3 FunctionContexts (contracts A/B/C, functions check_x / setUp / _compute_frontier, --dump-smt-directory or temporary directory, cache_solver or not), 1-5 calls of solve_end_to_end (or solve_low_level, sometimes on an already refined context, sometimes answered by a known unsat core) with path ids 0-2 and 1-3 constraints each (comparisons of two symbols with constants, some through f_evm_bvudiv_256 so that refinement changes the query), planned solver answers (sat through the abstraction / sat / unsat / unknown), 0-3 files placed beforehand under the names of the calls (the dumped query of another call or of other constraints, its refinement, garbage, empty; .smt2 / .refined.smt2 / .out; some read-only) plus a directed corpus (same-named test of two contracts in both orders, plain and cached; probes of two invariant depths; a second run on a used directory with refined leftovers; two refinements under one name; one path solved three times in a temporary directory); non-trivial = the name of a query file is already taken (by a leftover or an earlier call) when it is solved; scripts of (3) and (4) also draw hash twins (pairs of distinct simplified conditions with equal z3 ast hash found by a start-up search over `a op k`, k < 3000); distinct by hash of the case",
    )


def replay(rep, body):
    for f in body.get("failures", []):
        case = f.get("case") or {}
        if "fs_scenario" in case:
            sc = case["fs_scenario"]
            o = impl_fs_scenario(sc)
            print("dump / solve scenario:", sc)
            print("error:", o["error"], " files before:", sorted(o.get("files0", {})))
            for k, oj in enumerate(o.get("jobs", [])):
                print(f" call {k}: raised={oj['raised']} result={oj.get('result')} core_hit={oj['core']} again={oj['again']}")
                for n, g in enumerate(oj["got"]):
                    w = oj["want"][n] if n < len(oj["want"]) else [None, None]
                    print(f"   process {n}: file {g[0]} {'== ' if g[0] == w[0] else '!= demanded ' + str(w[0])}; bytes {'are the query of the path' if g[1] == w[1] else 'ARE NOT the query of the path: ' + describe_bytes(g[1], sc, o, k)}")
                if len(oj["got"]) < len(oj["want"]):
                    print(f"   missing processes: {[w[0] for w in oj['want'][len(oj['got']):]]}")
                if oj["sem"]:
                    print("   against the constraints of the path:", oj["sem"])
        elif "engine_program" in case:
            o = impl_engine(case["engine_program"])
            print("engine program:", case["engine_program"], "bytecode:", assemble_engine_program(case["engine_program"]).hex())
            print("error:", o["error"])
            for n, p_ in enumerate(o["paths"]):
                print(f" path {n}: {p_}")
        elif "hscript" in case:
            TWINS[:] = []
            o = impl_hscript(case["hscript"])
            print("program over Path objects:", case["hscript"])
            print("error:", o.get("error"), " constraints of every object's lineage:", o.get("spec_conds"))
            for j, po in enumerate(o.get("paths") or []):
                print(f" object {j}: conditions={[c for c, _ in po['conds']]} pending={po['pending']} sliced={po['sliced']} solver={po['solver']}"
                      f" spec={ {cs: q.get('spec') for cs, q in po['q'].items()} }")
        elif "script" in case:
            o = impl_script(case["script"])
            print("script:", case["script"])
            print("implementation:", {k: v for k, v in o.items() if k != "q"})
            for cs, q in (o.get("q") or {}).items():
                print(f" cache_solver={cs}: ids={q['raw_ids']} spec={q['spec']} spec_refined={q['spec_refined']}")
        elif "refine_line" in case:
            print("refine:", case["refine_line"], "->", real_refine(case["refine_line"]))
        elif "eval" in case:
            op, n, x, y = case["eval"]
            got, _ = real_refine(decl_line(op, str(n)))
            print("refined text:", got)
            print("implementation value:", z3_apply(got, f"f_evm_{op}_{n}", n, [(x, y)]), "spec:", spec_op(op, n, x, y) if op != "exp" else "unconstrained")
    return 0
