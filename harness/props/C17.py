"""C17 — solver subprocess lifecycle (halmos.processes + solve.solve_low_level) under every schedule.

Obligations: T-solvelow, Props/C17.vo (theorems about Model/ExecModel.v), lint.
Tie X-C17: the real PopenExecutor / PopenFuture / solve_low_level are driven through *forced*
schedules (label lists) -- every thread of the protocol is a real Python thread running the
real code, parked at instrumented points (the shutdown Event, the Lock, the registry list,
Thread.start, Popen, communicate, poll, set_result, result, the cancel thread pool) and
released one label at a time (the per-job spawn lock of PopenFuture is instrumented too: the worker's
first acquisition is the label SpawnEnter, it keeps the lock across the `popen` gate, cancel tasks are
only scheduled while it is free); after every label the observable state (flag, lock owner,
registry, per job: thread positions, process, exception, stdout, number of set_result calls;
per shutdown caller: position and pending cancels / joins) is compared with the extracted
Coq model run on the same schedule.  Every thread (submitter, worker, shutdown caller, cancel
task) is parked at an entry gate before it executes anything of the real code, and every access
to the shared flag / lock is a scheduling point whoever performs it, so that code in front of
the first modelled operation, an additional early test, or a return before the delivery cannot
slip through at thread creation time.  When the real classes cannot follow a label they are left
to complete the run by themselves (first enabled thread) and the property is evaluated on what
they did.  Other direction: the real classes are explored without the model (all maximal runs
up to a preemption bound / random runs, chosen among the steps their parked threads can take);
the model must accept exactly those labels, agree after each, and be quiescent at the end.
Independently, the property itself (Python rendering of Spec/ExecSpec.v) is evaluated on the
events and observations of the implementation.
No edits to /repo: all instrumentation is monkeypatching from this process.
"""
import concurrent.futures as cf
import contextlib
import json
import os
import resource
import subprocess
import sys
import tempfile
import threading as real_threading
import time
import types
from multiprocessing import Pool

from harness import common

PID = "C17"
TRANSLATORS = ["T-solvelow", "T-cancel"]

# Genuine defects of halmos exhibited by this check (failing schedules on the real classes).
KNOWN = common.known_for("C17")  # entries live in /verif/known_findings.json

PARTIAL = (
    "real OS scheduling, signal delivery, pipe/child-process behaviour and CPython's threading/concurrent.futures internals "
    "are outside the model: processes are simulated by a fake Popen in the forced-schedule tie (the thorough tier adds randomized "
    "runs with real `sh`/`sleep` children checked with psutil); schedules are exhaustive only up to the stated preemption bound "
    "in the tie (the theorems cover all schedules of the model)"
)
ASSUMPTIONS = [
    "library facts pinned in Spec/ExecSpec.v and cross-checked on every run (T-cancel selfcheck): psutil.Process.wait(timeout) raises psutil.TimeoutExpired, Popen.communicate(timeout) raises subprocess.TimeoutExpired, the two and psutil.NoSuchProcess are unrelated Exception subclasses; SIGKILL ends every process, SIGTERM ends the ones that do not ignore it",
    "each modelled statement of processes.py is atomic (CPython GIL) and threads interleave only between them",
    "a running solver process eventually exits or hits its time limit (label LExit is always enabled for a running process)",
    "each PopenFuture is submitted once, by the thread that then waits on it (as solve_low_level does)",
    "the extracted model and driver are faithful to the Coq definitions (extraction is trusted)",
]

# label tags (coq/Extract/ExC17.v)
(SUBCHECK, SUBACQ, SUBAPP, SUBSTART, SUBREL, SUBWAIT, POPEN, EXIT, COMMRET, COMMTMO, COMMEXC, FINALLY, SETRES,
 SDSET, SDACQ, SDCANCEL, SDSNAP, SDJOIN, SDRET, SDRAISE, SUBRECHECK, SUBUNLOCK, SDREL, SPAWNENTER) = range(24)
TAGNAME = ["SubCheck", "SubAcquire", "SubAppend", "SubStart", "SubRelease", "SubWait", "Popen", "Exit", "CommRet",
           "CommTimeout", "CommExc", "Finally", "SetResult", "SdSet", "SdAcquire", "SdCancel", "SdSnap", "SdJoin", "SdReturn", "SdRaise",
           "SubRecheck", "SubUnlock", "SdRelease", "SpawnEnter"]
RAW = -1      # [RAW, role, gate]: a step of the implementation that has no label in the model
SUB_TAGS = (SUBCHECK, SUBACQ, SUBAPP, SUBSTART, SUBREL, SUBWAIT, SUBRECHECK, SUBUNLOCK)
WRK_TAGS = (SPAWNENTER, POPEN, EXIT, COMMRET, COMMTMO, COMMEXC, FINALLY, SETRES)
ANSWER_TEXT = ["unsat\n", "sat\n", "unknown\n", "(error \"boom\")\n"]


def show(sched):
    out = []
    for lab in sched:
        if lab is None:
            out.append("<unmodelled step>")
            continue
        t, a, b = lab
        if t == RAW:
            out.append(f"<{a} leaves `{b}`>")
            continue
        if t == POPEN:
            out.append(f"Popen({a},{'ok' if b else 'fail'})")
        elif t == COMMRET:
            out.append(f"CommRet({a},{ANSWER_TEXT[b].strip()})")
        elif t == SDCANCEL:
            out.append(f"SdCancel({a},{b})")
        else:
            out.append(f"{TAGNAME[t]}({a})")
    return " ".join(out)


# =========================================================================== model side

def cfg_words(tmos, waits):
    # per job: bit 0 = has a time limit, bit 1 = its process ignores SIGTERM ("stubborn")
    return [len(tmos)] + [int(b) for b in tmos] + [len(waits)] + [int(b) for b in waits]


def flat(sched):
    return [x for l in sched if l[0] != RAW for x in l]


def _big_stack():
    soft, hard = resource.getrlimit(resource.RLIMIT_STACK)
    with contextlib.suppress(Exception):
        resource.setrlimit(resource.RLIMIT_STACK, (hard, hard))


def model_batch(exe, calls, timeout=900):
    """common.Model.batch with an unlimited stack (the enumeration builds long lists non-tail-recursively)."""
    M = common.Model
    inp = "\n".join(name + "".join(" " + M.enc(v) for v in args) for name, args in calls) + "\n"
    p = subprocess.run(["timeout", str(timeout), str(exe)], input=inp, capture_output=True, text=True, preexec_fn=_big_stack)
    if p.returncode != 0:
        raise RuntimeError(f"model driver failed rc={p.returncode}: {p.stderr[-300:]}")
    lines = p.stdout.split("\n")
    if lines and lines[-1] == "":
        lines.pop()
    if len(lines) != len(calls):
        raise RuntimeError(f"model driver returned {len(lines)} lines for {len(calls)} calls")
    return [None if ln.startswith("!") else [M.dec(t) for t in ln.split()] for ln in lines]


def model_parallel(exe, calls, workers=16):
    if len(calls) < 64:
        return model_batch(exe, calls)
    n = max(1, min(workers, len(calls) // 32))
    chunks = [calls[i::n] for i in range(n)]
    with cf.ThreadPoolExecutor(n) as ex:
        parts = list(ex.map(lambda c: model_batch(exe, c), chunks))
    out = [None] * len(calls)
    for k, part in enumerate(parts):
        out[k::n] = part
    return out


def parse_scheds(res):
    out, i = [], 0
    while i < len(res):
        n = res[i]
        out.append([list(res[i + 1 + 3 * k: i + 4 + 3 * k]) for k in range(n)])
        i += 1 + 3 * n
    return out


def parse_trace(res, njobs, nsd):
    """output of c17_trace -> (list of observations, complete?)"""
    obs, i = [], 0
    while i < len(res):
        if res[i] != 1:
            return obs, False
        o = {"flag": res[i + 1], "lock": [res[i + 2], res[i + 3]]}
        n = res[i + 4]
        o["reg"] = res[i + 5: i + 5 + n]
        i += 5 + n
        o["jobs"] = []
        for _ in range(njobs):
            spc, v, wpc, proc, exc, out, sets, creq, slock = res[i: i + 9]
            o["jobs"].append({"spc": [spc, v], "wpc": wpc, "proc": proc, "exc": exc, "out": out, "sets": sets, "creq": creq, "slock": slock})
            i += 9
        o["sds"] = []
        for _ in range(nsd):
            d, n = res[i], res[i + 1]
            if d in (2, 4, 7):
                pend = res[i + 2: i + 2 + n]
                i += 2 + n
            else:
                pend = []
                i += 2
            o["sds"].append({"dpc": d, "pending": sorted(pend) if d == 2 else pend})
        obs.append(o)
    return obs, True


# =========================================================================== implementation side

class _Abort(BaseException):
    pass


class Ctl:
    """Deterministic scheduler: every controlled thread parks at gates; one label releases one gate."""

    HARD = 8.0

    def __init__(self, tmos, waits):
        self.tmos, self.waits = tmos, waits
        self.HARD = float(os.environ.get("C17_SETTLE_S", "8"))
        self.cv = real_threading.Condition()
        self.th = {}
        self.abort = False
        self.errors = []
        self.local = real_threading.local()
        n = len(tmos)
        self.sets = [0] * n
        self.vfin = [True] * n           # worker has not passed the cleanup gate yet
        self.subres = [None] * n
        self.procs = [[] for _ in range(n)]
        self.by_pid = {}
        self.comm_timeouts = [None] * n
        self.snap = [None] * len(waits)
        self.joined = [0] * len(waits)
        self.sdraised = [None] * len(waits)
        self.spawn_count = {}

    def role(self):
        return getattr(self.local, "role", None)

    def spawn(self, role, fn):
        with self.cv:
            self.spawn_count[role] = self.spawn_count.get(role, 0) + 1
            if self.spawn_count[role] > 1:
                self.errors.append(f"thread {role} started twice")
            self.th[role] = {"state": "running", "gate": None, "go": False, "action": None, "info": None, "cond": None}
            self.cv.notify_all()

        def body():
            self.local.role = role
            try:
                fn()
            except _Abort:
                pass
            except BaseException as e:  # noqa: BLE001
                self.errors.append(f"thread {role} died: {type(e).__name__}: {e}")
            finally:
                with self.cv:
                    self.th[role]["state"] = "done"
                    self.cv.notify_all()

        t = real_threading.Thread(target=body, daemon=True)
        t.start()
        return t

    def gate(self, name, info=None):
        role = self.role()
        if role is None:
            return None
        with self.cv:
            t = self.th[role]
            t["state"], t["gate"], t["go"], t["info"] = "parked", name, False, info
            self.cv.notify_all()
            ok = self.cv.wait_for(lambda: t["go"] or self.abort, timeout=60)
            if self.abort or not ok:
                raise _Abort()
            act, t["action"] = t["action"], None
            return act

    @contextlib.contextmanager
    def blocked(self, cond):
        role = self.role()
        if role is None:
            yield
            return
        with self.cv:
            self.th[role]["state"], self.th[role]["cond"] = "blocked", cond
            self.cv.notify_all()
        try:
            yield
        finally:
            with self.cv:
                self.th[role]["state"] = "running"
                self.cv.notify_all()

    def _settled(self):
        for t in self.th.values():
            if t["state"] in ("parked", "done"):
                continue
            if t["state"] == "blocked" and not t["cond"]():
                continue
            return False
        return True

    def settle(self):
        with self.cv:
            return self.cv.wait_for(self._settled, timeout=self.HARD)

    def release(self, role, gate, action=None):
        with self.cv:
            t = self.th.get(role)
            if t is None:
                return f"no thread {role} exists (expected it parked at `{gate}`)"
            if t["state"] != "parked" or t["gate"] != gate:
                return f"thread {role} is {t['state']} at `{t['gate']}`, expected parked at `{gate}`"
            t["action"], t["go"], t["state"], t["gate"] = action, True, "running", None
            self.cv.notify_all()
        if not self.settle():
            import traceback

            stacks = []
            for tid, fr in sys._current_frames().items():
                if tid != real_threading.get_ident():
                    stacks.append(" <- ".join(f"{f.name}:{f.lineno}" for f in traceback.extract_stack(fr)[-6:]))
            return f"threads did not settle within {self.HARD}s after releasing {role} from `{gate}`: " + json.dumps(
                {str(r): [t["state"], t["gate"]] for r, t in self.th.items()}) + " stacks: " + " || ".join(stacks)
        return None

    def stop(self):
        with self.cv:
            self.abort = True
            self.cv.notify_all()


class FakeStream:
    def __init__(self):
        self.closed = False

    def close(self):
        self.closed = True


class FakeProc:
    def __init__(self, ctl, j, cmd):
        self.ctl, self.j, self.cmd = ctl, j, cmd
        self.pid = 700000 + 100 * j + len(ctl.procs[j])
        self.state, self.returncode = "run", None
        self.stdout, self.stderr, self.stdin = FakeStream(), FakeStream(), None
        self.fin_gate = False
        self.stubborn = bool(ctl.tmos[j] & 2)      # ignores SIGTERM: only SIGKILL ends it
        self.sigterms = 0

    def die(self, rc):
        if self.state == "run":
            self.state, self.returncode = "dead", rc

    def poll(self):
        r = self.ctl.role()
        if r and r[0] == "wrk" and not self.fin_gate:
            self.fin_gate = True
            self.ctl.gate("finally")
            self.ctl.vfin[self.j] = False
        return None if self.state == "run" else self.returncode

    def communicate(self, input=None, timeout=None):  # noqa: A002
        self.ctl.comm_timeouts[self.j] = timeout
        act = self.ctl.gate("comm")
        if act is None or act[0] == "exc":
            raise ValueError("I/O operation on closed file")
        if act[0] == "timeout":
            raise subprocess.TimeoutExpired(self.cmd, timeout)
        if self.state == "run":
            self.ctl.errors.append("harness: communicate returned while the fake process runs")
        return ANSWER_TEXT[act[1]], ""

    def wait(self, timeout=None):
        # subprocess.Popen.wait: raises subprocess.TimeoutExpired while the process lives
        if self.state == "run":
            if timeout is None:
                self.ctl.errors.append("harness: wait() without timeout on a fake process that runs")
            raise subprocess.TimeoutExpired(self.cmd, timeout)
        return self.returncode

    def kill(self):
        self.die(-9)

    def terminate(self):
        self.sigterms += 1
        if not self.stubborn:
            self.die(-15)


class FakePs:
    def __init__(self, p):
        self.p = p

    def children(self, recursive=False):
        return []

    def terminate(self):
        self.p.terminate()

    def kill(self):
        self.p.die(-9)

    def wait(self, timeout=None):
        # psutil.Process.wait: raises psutil.TimeoutExpired while the process lives (no real sleeping here)
        import psutil

        if self.p.state == "run":
            if timeout is None:
                self.p.ctl.errors.append("harness: psutil wait() without timeout on a fake process that runs")
            raise psutil.TimeoutExpired(timeout, pid=self.p.pid)
        return self.p.returncode

    def is_running(self):
        return self.p.state == "run"


_ATTRS = {}


def spawn_attrs():
    """names of the spawn lock / cancel-request flag of PopenFuture, as T-cancel reads them from the source"""
    if not _ATTRS:
        _ATTRS.update(lock="_spawn_lock", flag="_cancel_requested")
        with contextlib.suppress(Exception):
            from translate import t_cancel

            info = t_cancel.translate((common.SRC / t_cancel.SRC).read_text())[1]
            _ATTRS.update(lock=info["spawn_lock"], flag=info["cancel_flag"])
    return _ATTRS["lock"], _ATTRS["flag"]


def install(ctl):
    """Patch halmos.processes / halmos.solve module globals for one forced run."""
    import psutil

    import halmos.processes as P
    import halmos.solve as S

    class ShimThread:
        def __init__(self, group=None, target=None, name=None, args=(), kwargs=None, daemon=None):
            self.target, self.args, self.kwargs, self.daemon = target, args, kwargs or {}, daemon

        def start(self):
            r = ctl.role()
            ctl.gate("start")
            wrole = ("wrk", r[1]) if r and r[0] == "sub" else ("wrk", -1)

            def body():
                # nothing of the thread body runs before the schedule says so
                ctl.gate("enter")
                self.target(*self.args, **self.kwargs)

            ctl.spawn(wrole, body)

        def join(self, timeout=None):
            return None

    shim_threading = types.SimpleNamespace(Thread=ShimThread, Event=real_threading.Event, Lock=real_threading.Lock,
                                           RLock=real_threading.RLock, Condition=real_threading.Condition,
                                           current_thread=real_threading.current_thread)

    def fake_popen(cmd, *a, **kw):
        r = ctl.role()
        j = r[1] if r and r[0] == "wrk" else int(cmd[1])
        ok = ctl.gate("popen")
        if ok is False:
            raise FileNotFoundError(2, "No such file or directory", cmd[0])
        p = FakeProc(ctl, j, cmd)
        ctl.procs[j].append(p)
        ctl.by_pid[p.pid] = p
        return p

    def ps_process(pid):
        p = ctl.by_pid.get(pid)
        if p is None or p.state != "run":
            raise psutil.NoSuchProcess(pid)
        return FakePs(p)

    shim_psutil = types.SimpleNamespace(Process=ps_process, NoSuchProcess=psutil.NoSuchProcess,
                                        TimeoutExpired=psutil.TimeoutExpired, AccessDenied=psutil.AccessDenied)

    class CtlPool:
        def __init__(self, *a, **kw):
            r = ctl.role()
            self.k = r[1] if r and r[0] == "sd" else -1

        def __enter__(self):
            return self

        def __exit__(self, *a):
            return False

        def shutdown(self, *a, **kw):
            return None

        def submit(self, fn, *args, **kwargs):
            fut = cf.Future()
            j = getattr(getattr(fn, "__self__", None), "_c17_j", -1)

            def body():
                ctl.gate("cancel")
                try:
                    fut.set_result(fn(*args, **kwargs))
                except _Abort:
                    raise
                except BaseException as e:  # noqa: BLE001
                    fut.set_exception(e)

            ctl.spawn(("can", self.k, j), body)
            return fut

    def shim_wait(tasks, timeout=None, return_when=cf.ALL_COMPLETED):
        tasks = list(tasks)
        with ctl.blocked(lambda: all(t.done() for t in tasks)):
            while True:
                done, notdone = cf.wait(tasks, timeout=0.2, return_when=return_when)
                if not notdone:
                    return done, notdone
                if ctl.abort:
                    raise _Abort()

    shim_futures = types.SimpleNamespace(ThreadPoolExecutor=CtlPool, wait=shim_wait, CancelledError=cf.CancelledError,
                                         Future=cf.Future, Executor=cf.Executor, TimeoutError=cf.TimeoutError,
                                         ALL_COMPLETED=cf.ALL_COMPLETED, FIRST_COMPLETED=cf.FIRST_COMPLETED,
                                         as_completed=cf.as_completed, InvalidStateError=cf.InvalidStateError)
    shim_concurrent = types.SimpleNamespace(futures=shim_futures)

    saved = (P.threading, P.Popen, P.psutil, P.concurrent, S.PopenFuture, S.dump)

    def restore():
        P.threading, P.Popen, P.psutil, P.concurrent, S.PopenFuture, S.dump = saved

    ctl.restore = restore
    P.threading = shim_threading
    P.Popen = fake_popen
    P.psutil = shim_psutil
    P.concurrent = shim_concurrent

    class CtlEvent:
        def __init__(self):
            self.real = real_threading.Event()

        def is_set(self):
            r = ctl.role()
            if r is not None:
                ctl.gate("recheck" if ex._lock.owner == r else "check")
            return self.real.is_set()

        def set(self):
            if ctl.role() is not None:
                ctl.gate("set")
            self.real.set()

        def clear(self):
            self.real.clear()

        def wait(self, timeout=None):
            return self.real.wait(timeout)

    class CtlLock:
        def __init__(self):
            self.real = real_threading.Lock()
            self.owner = None

        def acquire(self, blocking=True, timeout=-1):
            ctl.gate("acquire")
            if not self.real.acquire(timeout=1.5):
                ctl.errors.append(f"{ctl.role()} blocks acquiring the executor lock (held by {self.owner})")
                raise _Abort()
            self.owner = ctl.role()
            return True

        def release(self, gate="release"):
            ctl.gate(gate)
            self.owner = None
            self.real.release()

        def __enter__(self):
            return self.acquire()

        def __exit__(self, et=None, ev=None, tb=None):
            # leaving the `with` normally / by an exception (submit: ShutdownError under the lock)
            self.release("release" if et is None else "unlock")
            return False

        def locked(self):
            return self.real.locked()

    class CtlList(list):
        def append(self, x):
            ctl.gate("append")
            list.append(self, x)

        def __iter__(self):
            r = ctl.role()
            if r and r[0] == "sd" and ctl.waits[r[1]]:
                ctl.gate("snap")
                ctl.snap[r[1]] = [getattr(x, "_c17_j", -1) for x in list.__iter__(self)]
            return list.__iter__(self)

    ex = P.PopenExecutor()
    ex._shutdown = CtlEvent()
    ex._lock = CtlLock()
    ex._futures = CtlList()

    RealFuture = P.PopenFuture

    class CtlSpawnLock:
        """PopenFuture._spawn_lock: taking it is a scheduling point (the worker's first acquisition is
        the label SpawnEnter; the one of its finally block and those of cancel tasks belong to Finally /
        SdCancel); the worker keeps it across the `popen` gate"""

        def __init__(self, j):
            self.j, self.real, self.owner, self.wrk_acq = j, real_threading.Lock(), None, 0

        def acquire(self, blocking=True, timeout=-1):
            r = ctl.role()
            if r is not None:
                if r[0] == "wrk":
                    self.wrk_acq += 1
                    ctl.gate("slock" if self.wrk_acq == 1 else "fslock")
                elif r[0] == "can":
                    ctl.gate("cslock")
                else:
                    ctl.gate("xslock")
            if not self.real.acquire(timeout=1.5):
                ctl.errors.append(f"{r} blocks acquiring the spawn lock of job {self.j} (held by {self.owner})")
                raise _Abort()
            self.owner = r
            return True

        def release(self):
            self.owner = None
            self.real.release()

        def __enter__(self):
            return self.acquire()

        def __exit__(self, *a):
            self.release()
            return False

        def locked(self):
            return self.real.locked()

    ctl.SpawnLock = CtlSpawnLock

    def mk_future(cmd, timeout=None):
        f = RealFuture(cmd, timeout=timeout)
        j = int(cmd[1])
        f._c17_j = j
        ctl.futs[j] = f
        if hasattr(f, spawn_attrs()[0]):
            setattr(f, spawn_attrs()[0], CtlSpawnLock(j))
        orig_set, orig_result = f.set_result, f.result

        def set_result(res):
            ctl.gate("setres")
            ctl.sets[j] += 1
            return orig_set(res)

        def result(timeout=None):
            r = ctl.role()
            if r and r[0] == "sub":
                ctl.gate("wait")
            elif r and r[0] == "sd":
                ctl.gate("join", info=j)
                ctl.joined[r[1]] += 1
            try:
                return orig_result(timeout=2.0 if timeout is None else timeout)
            except cf.TimeoutError:
                ctl.errors.append(f"{r}: result() of job {j} blocks although the schedule says it returns")
                raise _Abort() from None

        f.set_result, f.result = set_result, result
        return f

    S.PopenFuture = mk_future
    S.dump = lambda path_ctx: None
    return ex, P, S


def verdict_code(res):
    import z3

    if isinstance(res, str):
        return 3 if res == "err" else 4
    for z, c in ((z3.unsat, 0), (z3.sat, 1), (z3.unknown, 2)):
        if res == z:
            return c
    return 4


SUBG = {"enter": 0, "check": 0, "acquire": 1, "recheck": 8, "append": 2, "start": 3, "release": 4, "unlock": 9, "wait": 5}
WRKG = {"enter": 1, "slock": 1, "popen": 7, "comm": 2, "fslock": 3, "finally": 3, "setres": 4}
SUB_GATE = {SUBCHECK: "check", SUBACQ: "acquire", SUBRECHECK: "recheck", SUBUNLOCK: "unlock", SUBAPP: "append",
            SUBSTART: "start", SUBREL: "release", SUBWAIT: "wait"}


def impl_run(case):
    """Drive the real classes.  The labels of case["sched"] are forced one by one; if the
    implementation cannot follow one of them (or case["free"] is set) the run is *completed by
    the implementation*: enabled steps of the parked threads are released (first / random one)
    until nothing can move, every step recorded with the label it corresponds to (None for a
    step that has no label in the model) and the observation after it.
    Returns dict(obs=[...aligned with the forced labels...], error, at, tail=[{label, what, obs}],
    stuck=[threads that never finished], done=bool (ran until nothing could move))."""
    import random

    tmos, waits, sched = case["tmos"], case["waits"], case["sched"]
    n, nsd = len(tmos), len(waits)
    ctl = Ctl(tmos, waits)
    ctl.futs = [None] * n
    tmpdir = tempfile.mkdtemp(prefix="c17_")
    try:
        ex, P, S = install(ctl)
        solving_ctx = types.SimpleNamespace(executor=ex)

        def sub_body(j):
            args = types.SimpleNamespace(resolved_solver_command=["fake-solver", str(j)], verbose=0,
                                         solver_timeout_assertion=(7.5 if tmos[j] & 1 else 0), cache_solver=False)
            ctx = types.SimpleNamespace(args=args, path_id=j, dump_file=os.path.join(tmpdir, f"{j}.smt2"),
                                        solving_ctx=solving_ctx, query=None, is_refined=False)
            ctl.gate("enter")           # the call happens when the schedule says so
            try:
                out = S.solve_low_level(ctx)
            except P.ShutdownError:
                # refused by submit(), or accepted and cancelled before its process existed (delivered by the worker)
                ctl.subres[j] = [6, 4] if ("wrk", j) in ctl.th else [7, -1]
                return
            except _Abort:
                raise
            except Exception:  # noqa: BLE001
                ctl.subres[j] = [6, 4]
                return
            ctl.subres[j] = [6, verdict_code(out.result)]

        def sd_body(k):
            ctl.gate("enter")           # the call happens when the schedule says so
            try:
                ex.shutdown(wait=bool(waits[k]))
            except _Abort:
                raise
            except Exception as e:  # noqa: BLE001
                ctl.sdraised[k] = type(e).__name__      # shutdown() terminated by an exception
                return
            if waits[k]:
                ctl.gate("return")

        for j in range(n):
            ctl.spawn(("sub", j), lambda j=j: sub_body(j))
        for k in range(nsd):
            ctl.spawn(("sd", k), lambda k=k: sd_body(k))
        if not ctl.settle():
            return {"obs": [], "error": "threads did not reach their first gates", "at": -1, "tail": [], "stuck": [], "done": False}

        def fut_done(j):
            f = ctl.futs[j] if 0 <= j < n else None
            return f is not None and f.done()

        def observe():
            o = {"flag": int(ex._shutdown.real.is_set())}
            ow = ex._lock.owner
            o["lock"] = [0, 0] if ow is None else ([1, ow[1]] if ow[0] == "sub" else ([2, ow[1]] if ow[0] == "sd" else ["held by", str(ow)]))
            if (ow is not None) != ex._lock.real.locked():
                o["lock"] = ["inconsistent", str(ow), ex._lock.real.locked()]
            o["reg"] = [getattr(x, "_c17_j", -1) for x in list.__iter__(ex._futures)]
            o["jobs"] = []
            for j in range(n):
                t = ctl.th[("sub", j)]
                if t["state"] == "done":
                    spc = ctl.subres[j] if ctl.subres[j] is not None else ["died", -1]
                else:
                    spc = [SUBG.get(t["gate"], f"?{t['state']}:{t['gate']}"), -1]
                w = ctl.th.get(("wrk", j))
                if w is None:
                    wpc = 0
                elif w["state"] == "done":
                    wpc = 5
                else:
                    wpc = WRKG.get(w["gate"], f"?{w['state']}:{w['gate']}")
                    if wpc == 4 and ctl.vfin[j]:
                        wpc = 3
                f = ctl.futs[j]
                jb = {"spc": spc, "wpc": wpc, "proc": 0, "exc": 0, "out": -1, "sets": ctl.sets[j], "creq": 0, "slock": 0}
                if f is not None:
                    jb["creq"] = int(bool(getattr(f, spawn_attrs()[1], False)))
                    lk = getattr(f, spawn_attrs()[0], None)
                    jb["slock"] = int(getattr(lk, "owner", None) is not None)
                    p = f.process
                    jb["proc"] = 0 if p is None else (1 if p.state == "run" else 2)
                    e = f._exception
                    jb["exc"] = 0 if e is None else (1 if isinstance(e, subprocess.TimeoutExpired) else 2)
                    so = f.stdout
                    jb["out"] = -1 if so is None else (ANSWER_TEXT.index(so) if so in ANSWER_TEXT else 9)
                    if f.done() != (ctl.sets[j] > 0):
                        jb["sets"] = f"done()={f.done()} but set_result calls={ctl.sets[j]}"
                    if len(ctl.procs[j]) > 1:
                        jb["proc"] = f"{len(ctl.procs[j])} processes spawned"
                    if wpc == 5 and not f.done():
                        jb["wpc"] = "worker thread ended without delivering a result"
                o["jobs"].append(jb)
            o["sds"] = []
            for k in range(nsd):
                t = ctl.th[("sd", k)]
                g = t["gate"]
                cans = sorted(r[2] for r, c in ctl.th.items() if r[0] == "can" and r[1] == k and c["state"] != "done")
                if t["state"] == "done":
                    d = {"dpc": 6 if ctl.sdraised[k] else 5, "pending": []}
                elif g in ("enter", "set"):
                    d = {"dpc": 0, "pending": []}
                elif g == "acquire":
                    d = {"dpc": 1, "pending": []}
                elif waits[k]:
                    if g == "snap":
                        d = {"dpc": 3, "pending": []}
                    elif g == "release":
                        d = {"dpc": 7, "pending": list(ctl.snap[k] or [])}
                    elif g == "join":
                        d = {"dpc": 4, "pending": list((ctl.snap[k] or [])[ctl.joined[k]:])}
                        if not d["pending"] or d["pending"][0] != t["info"]:
                            d["pending"] = ["join waits on", t["info"], "snapshot rest", d["pending"]]
                    elif g == "return":
                        d = {"dpc": 4, "pending": []}
                    else:
                        d = {"dpc": f"?{t['state']}:{g}", "pending": []}
                else:
                    if t["state"] == "blocked" or g == "release":
                        d = {"dpc": 2, "pending": cans}
                        cans = []
                    else:
                        d = {"dpc": f"?{t['state']}:{g}", "pending": []}
                if cans:
                    d["dpc"] = f"{d['dpc']} with cancel tasks {cans} outside the locked section"
                o["sds"].append(d)
            return o

        def rel(role, gate, action=None):
            """release `role` from `gate`; a thread still parked at its entry gate enters first"""
            with ctl.cv:
                t = ctl.th.get(role)
                at_entry = t is not None and t["state"] == "parked" and t["gate"] == "enter" and gate != "enter"
            if at_entry:
                err = ctl.release(role, "enter")
                if err is not None:
                    return err
            return ctl.release(role, gate, action)

        def rel_seq(role, gates, action=None):
            """one label = the thread passes the remaining gates of `gates` (it is parked at one of them)"""
            with ctl.cv:
                t = ctl.th.get(role)
                g = t["gate"] if t is not None and t["state"] == "parked" else None
            start = gates.index(g) if g in gates else 0
            for i in range(start, len(gates)):
                err = ctl.release(role, gates[i], action if i == len(gates) - 1 else None)
                if err is not None:
                    return err
            return None

        def spawn_lock_free(j):
            f = ctl.futs[j] if 0 <= j < n else None
            lk = getattr(f, spawn_attrs()[0], None)
            return getattr(lk, "owner", None) is None

        def apply(lab):
            t, a, b = lab
            if t == RAW:
                return ctl.release(tuple(a), b)
            if t in SUB_GATE:
                return rel(("sub", a), SUB_GATE[t])
            if t == SPAWNENTER:
                return rel_seq(("wrk", a), ["enter", "slock"])
            if t == POPEN:
                return ctl.release(("wrk", a), "popen", bool(b))
            if t == EXIT:
                f = ctl.futs[a] if 0 <= a < n else None
                p = f.process if f is not None else None
                if p is None or p.state != "run":
                    return f"job {a} has no running process to exit"
                p.die(0)
                return None
            if t == COMMRET:
                return ctl.release(("wrk", a), "comm", ("ret", b))
            if t == COMMTMO:
                return ctl.release(("wrk", a), "comm", ("timeout",))
            if t == COMMEXC:
                return ctl.release(("wrk", a), "comm", ("exc",))
            if t == FINALLY:
                w = ctl.th.get(("wrk", a))
                if w is not None and w["state"] == "parked" and w["gate"] == "setres" and ctl.vfin[a]:
                    # `if self.process:` was false -- the cleanup is skipped (a no-op in the model too)
                    ctl.vfin[a] = False
                    return None
                return rel_seq(("wrk", a), ["fslock", "finally"])
            if t == SETRES:
                return ctl.release(("wrk", a), "setres")
            if t == SDSET:
                return rel(("sd", a), "set")
            if t == SDACQ:
                return ctl.release(("sd", a), "acquire")
            if t == SDCANCEL:
                return rel_seq(("can", a, b), ["cancel", "cslock"])
            if t == SDSNAP:
                return ctl.release(("sd", a), "snap")
            if t == SDREL:
                return ctl.release(("sd", a), "release") if waits[a] else f"shutdown caller {a} is wait=False: no SdRelease"
            if t == SDJOIN:
                return ctl.release(("sd", a), "join")
            if t == SDRET:
                return ctl.release(("sd", a), "return" if waits[a] else "release")
            return f"label {lab} has no counterpart in the implementation"

        def candidates():
            """steps the implementation can take now: (label or None, role, gate)"""
            out = []
            with ctl.cv:
                items = sorted(((r, dict(t)) for r, t in ctl.th.items()), key=lambda x: (x[0][0], x[0][1:]))
            lock_free = ex._lock.owner is None and not ex._lock.real.locked()
            for role, t in items:
                if t["state"] != "parked":
                    continue
                g, kind, a = t["gate"], role[0], role[1]
                lab = None
                if kind == "sub":
                    m = {"enter": SUBCHECK, "check": SUBCHECK, "recheck": SUBRECHECK, "unlock": SUBUNLOCK, "append": SUBAPP,
                         "start": SUBSTART, "release": SUBREL}
                    if g in m:
                        lab = [m[g], a, 0]
                    elif g == "acquire":
                        if not lock_free:
                            continue
                        lab = [SUBACQ, a, 0]
                    elif g == "wait":
                        if not fut_done(a):
                            continue
                        lab = [SUBWAIT, a, 0]
                elif kind == "wrk":
                    if g in ("enter", "slock"):
                        lab = [SPAWNENTER, a, 0]
                    elif g == "popen":
                        lab = [POPEN, a, 1]
                    elif g == "comm":
                        f = ctl.futs[a] if 0 <= a < n else None
                        p = f.process if f is not None else None
                        lab = [EXIT, a, 0] if (p is not None and p.state == "run") else [COMMRET, a, 0]
                    elif g in ("fslock", "finally"):
                        lab = [FINALLY, a, 0]
                    elif g == "setres":
                        lab = [FINALLY, a, 0] if ctl.vfin[a] else [SETRES, a, 0]
                elif kind == "sd":
                    if g in ("enter", "set"):
                        lab = [SDSET, a, 0]
                    elif g == "acquire":
                        if not lock_free:
                            continue
                        lab = [SDACQ, a, 0]
                    elif g == "snap":
                        lab = [SDSNAP, a, 0]
                    elif g == "release":
                        lab = [SDREL, a, 0] if waits[a] else [SDRET, a, 0]
                    elif g == "join":
                        if not fut_done(t["info"] if isinstance(t["info"], int) else -1):
                            continue
                        lab = [SDJOIN, a, 0]
                    elif g == "return":
                        lab = [SDRET, a, 0]
                elif kind == "can":
                    if g in ("cancel", "cslock"):
                        if not spawn_lock_free(role[2]):
                            continue            # waits for the worker to leave its spawn section
                        lab = [SDCANCEL, a, role[2]]
                out.append((lab, role, g))
            return out

        def free_run(r, tail, limit=400):
            """let the implementation finish; r = random.Random or None (first candidate)"""
            for _ in range(limit):
                cands = candidates()
                if not cands:
                    return True
                lab, role, g = r.choice(cands) if r is not None else cands[0]
                if lab is not None and r is not None:
                    t, a = lab[0], lab[1]
                    if t == POPEN and r.random() < 0.15:
                        lab = [POPEN, a, 0]
                    elif t == EXIT:
                        x = r.random()
                        if x < 0.25 and tmos[a] & 1:
                            lab = [COMMTMO, a, 0]
                        elif x < 0.32:
                            lab = [COMMEXC, a, 0]
                    elif t == COMMRET:
                        x = r.random()
                        if x < 0.1 and tmos[a] & 1:
                            lab = [COMMTMO, a, 0]
                        elif x < 0.15:
                            lab = [COMMEXC, a, 0]
                        else:
                            lab = [COMMRET, a, r.randrange(4)]
                if lab is None:
                    err = ctl.release(role, g)
                    what = f"step of thread {role} at `{g}` that has no label in the model"
                else:
                    err = apply(lab)
                    what = None
                    if err is not None:
                        what, lab = f"{show([lab])} could not be completed: {err}", None
                if ctl.errors:
                    what = (what or "") + " harness errors: " + "; ".join(ctl.errors)
                    del ctl.errors[:]
                    lab = None
                tail.append({"label": lab, "what": what, "obs": observe()})
                if err is not None and "did not settle" in err:
                    return False
            return False

        def thread_of(lab, role=None):
            """submitter j / worker j with its process / shutdown caller k with its cancel tasks"""
            if role is not None:
                return ("sd", role[1]) if role[0] == "can" else (role[0], role[1])
            t, a = lab[0], lab[1]
            if t == RAW:
                return thread_of(None, tuple(a))
            return ("sub", a) if t in SUB_TAGS else (("wrk", a) if t in WRK_TAGS else ("sd", a))

        ex_cfg = case.get("explore")
        last_thread, npre = None, 0

        def cost_of(th, cands):
            if last_thread is None or th == last_thread:
                return 0
            return 1 if any(thread_of(None, role) == last_thread for _, role, _ in cands) else 0

        def variants(lab, mask):
            t, a = lab[0], lab[1]
            if t == POPEN:
                return [lab] + ([[POPEN, a, 0]] if mask & 1 else [])
            if t in (EXIT, COMMRET):
                out_ = [lab]
                if t == COMMRET and mask & 8:
                    out_ += [[COMMRET, a, x] for x in (1, 2, 3)]
                if mask & 4 and tmos[a] & 1:
                    out_.append([COMMTMO, a, 0])
                if mask & 2:
                    out_.append([COMMEXC, a, 0])
                return out_
            return [lab]

        obs = [observe()]
        error, at = None, len(sched)
        for i, lab in enumerate(sched):
            if ex_cfg is not None:
                th = thread_of(lab)
                npre += cost_of(th, candidates())
                last_thread = th
            err = apply(lab)
            if err is None and ctl.errors:
                err = "; ".join(ctl.errors)
                del ctl.errors[:]
            if err is not None:
                error, at = err, i
                break
            obs.append(observe())
        tail, done = [], error is None
        if error is not None:
            # whatever the failed label did to the implementation is the first event of the completion
            tail.append({"label": None, "what": f"label #{at} {show(sched[at:at + 1])} could not be followed: {error}", "obs": observe()})
            if "did not settle" not in error:
                done = free_run(None, tail)
        elif case.get("free") is not None:
            done = free_run(random.Random(case["free"]), tail)
        alts = []
        if error is None and ex_cfg is not None:
            # stateless exploration of the implementation: continue on the current thread while it can
            # move (else the first thread that can); every other enabled step within the preemption
            # budget is returned as an alternative prefix to be explored by another run
            maxpre, mask = ex_cfg["maxpre"], ex_cfg["mask"]
            done = False
            for _ in range(400):
                cands = candidates()
                if not cands:
                    done = True
                    break
                opts = []
                for lab, role, g in cands:
                    th = thread_of(None, role)
                    for v in (variants(lab, mask) if lab is not None else [[RAW, list(role), g]]):
                        opts.append((v, th))
                pick = next((o for o in opts if o[1] == last_thread), opts[0])
                pos = len(sched) + len(tail)
                for o in opts:
                    if o is not pick and npre + cost_of(o[1], cands) <= maxpre:
                        alts.append([pos, o[0]])
                npre += cost_of(pick[1], cands)
                last_thread = pick[1]
                err = apply(pick[0])
                what = None
                if pick[0][0] == RAW:
                    what = f"step of thread {tuple(pick[0][1])} at `{pick[0][2]}` that has no label in the model"
                if err is not None:
                    what = f"{show([pick[0]])} could not be completed: {err}"
                if ctl.errors:
                    what = (what or "") + " harness errors: " + "; ".join(ctl.errors)
                    del ctl.errors[:]
                tail.append({"label": pick[0] if what is None else None, "step": pick[0], "what": what, "obs": observe()})
                if err is not None:
                    # do not branch below a step that went wrong; let the implementation finish
                    done = free_run(None, tail) if "did not settle" not in err else False
                    break
        not_quiescent = None
        if error is None and (case.get("maximal") or case.get("free") is not None or ex_cfg is not None):
            rest = candidates()
            if rest:
                not_quiescent = "; ".join(f"{role} at `{g}`" for _, role, g in rest)
        with ctl.cv:
            stuck = [[str(r), t["state"], t["gate"]] for r, t in sorted(ctl.th.items(), key=lambda x: str(x[0])) if t["state"] != "done"]
        extra = {"comm_timeouts": [None if x is None else 1 for x in ctl.comm_timeouts]}
        return {"obs": obs, "error": error, "at": at, "tail": tail, "done": done, "stuck": stuck, "not_quiescent": not_quiescent, "alts": alts, **extra}
    finally:
        ctl.stop()
        if getattr(ctl, "restore", None):
            ctl.restore()
        with contextlib.suppress(Exception):
            for fn in os.listdir(tmpdir):
                os.unlink(os.path.join(tmpdir, fn))
            os.rmdir(tmpdir)


def impl_run_safe(case):
    try:
        return impl_run(case)
    except Exception as e:  # noqa: BLE001
        import traceback

        return {"obs": [], "error": f"harness exception {type(e).__name__}: {e}", "at": -1, "tail": [], "stuck": [], "done": False,
                "trace": traceback.format_exc()[-1500:]}


# =========================================================================== the property (python rendering of Spec/ExecSpec.v)

def impl_driven(case):
    """the schedule is chosen by the implementation (random completion / stateless exploration)"""
    return case.get("free") is not None or case.get("explore") is not None


def impl_events(case, res):
    """What the implementation did, as (labels, obs): obs[0] is the initial observation and
    obs[i + 1] the one after labels[i].  The labels are the forced ones that the implementation
    followed, then the steps of the completion it ran by itself (label None = a step that has no
    label in the model)."""
    k = max(0, len(res.get("obs", [])) - 1)
    tail = res.get("tail") or []
    labels = [(None if l[0] == RAW else list(l)) for l in case["sched"][:k]] + [e["label"] for e in tail]
    obs = list(res.get("obs", [])) + [e["obs"] for e in tail]
    return labels, obs


def spec_check(case, res):
    """Evaluate the property on what the implementation did.  Returns a list of
    dict(clause, cause, detail).  Uses only the events and observations of the implementation
    -- not the model."""
    tmos, waits = case["tmos"], case["waits"]
    labels, obs = impl_events(case, res)
    n = len(tmos)
    out = []
    if not obs:
        return out

    def first(pred, start=0):
        for i in range(start, len(labels)):
            l = labels[i]
            if l is not None and pred(l):
                return i
        return None

    def wpc(i, j):
        return obs[i]["jobs"][j]["wpc"]

    def accepted_at(j):
        """index of the observation at which job j's worker thread exists for the first time"""
        return next((i for i in range(len(obs)) if wpc(i, j) != 0), None)

    # delivered at most once, at every point of the run
    for i, o in enumerate(obs):
        for j, jb in enumerate(o["jobs"]):
            if not isinstance(jb["sets"], int) or jb["sets"] > 1:
                out.append({"clause": "delivered-at-most-once", "cause": "set_result-twice", "detail": f"job {j} after step {i}: {jb['sets']}"})
                break
    # the run is complete when nothing can move any more: a maximal schedule of the model that the
    # implementation followed to the end, or a completion the implementation ran by itself
    if res.get("error") is None:
        complete = bool(case.get("maximal")) or (impl_driven(case) and bool(res.get("done")))
    else:
        complete = bool(res.get("done"))
    if complete:
        last = obs[-1]
        stuck = {s[0]: s for s in res.get("stuck", [])}
        for j in range(n):
            jb = last["jobs"][j]
            acc = accepted_at(j) is not None
            if acc and jb["sets"] != 1:
                out.append({"clause": "delivered-exactly-once", "cause": "not-delivered", "detail": f"job {j} accepted but set_result calls = {jb['sets']} at the end (worker: {jb['wpc']})"})
            if acc and jb["spc"][0] != 6:
                out.append({"clause": "wait-returns", "cause": "waiter-stuck", "detail": f"job {j}: accepted, nothing can move any more, but its submitter is still at {jb['spc']} {stuck.get(str(('sub', j)), '')}"})
            if jb["proc"] == 1:
                out.append({"clause": "no-process-after-delivery", "cause": "process-survives-its-job", "detail": f"nothing can move any more but the process of job {j} still runs (set_result calls {jb['sets']})"})
            if not acc and jb["spc"][0] != 7:
                out.append({"clause": "wait-returns", "cause": "submit-stuck", "detail": f"job {j}: not accepted, nothing can move any more, its submitter is at {jb['spc']} {stuck.get(str(('sub', j)), '')}"})
        for k in range(len(waits)):
            d = last["sds"][k]["dpc"]
            if d not in (5, 6):
                out.append({"clause": "shutdown-wait-returns", "cause": "shutdown-stuck", "k": k,
                            "detail": f"shutdown(wait={bool(waits[k])}) #{k}: nothing can move any more but the call has not returned (state {last['sds'][k]}) {stuck.get(str(('sd', k)), '')}"})
    # time limit exceeded => TimeoutExpired => unknown, never unsat
    for j in range(n):
        it = first(lambda l: l[0] == COMMTMO and l[1] == j)
        if it is None:
            continue
        for i in range(it + 1, len(obs)):
            jb = obs[i]["jobs"][j]
            if jb["exc"] != 1:
                out.append({"clause": "timeout-unknown", "cause": "exception-lost", "detail": f"job {j} timed out at step {it}, _exception kind {jb['exc']} after step {i}"})
                break
            if jb["spc"][0] == 6 and jb["spc"][1] != 2:
                out.append({"clause": "timeout-unknown", "cause": "not-unknown", "detail": f"job {j} timed out, solve_low_level reported verdict code {jb['spc'][1]}"})
                break
    # a job without time limit must not be given one, and vice versa
    for j, v in enumerate(res.get("comm_timeouts", [])):
        if first(lambda l: l[0] in (COMMRET, COMMTMO, COMMEXC) and l[1] == j) is not None and bool(v) != bool(tmos[j] & 1):
            out.append({"clause": "timeout-unknown", "cause": "timeout-not-passed", "detail": f"job {j}: communicate(timeout={'set' if v else 'None'}) but time limit configured = {bool(tmos[j] & 1)}"})
    # after a shutdown() call has ended: it has not raised, nothing is accepted any more, no process runs
    for k, w in enumerate(waits):
        ri = next((i for i, o in enumerate(obs) if o["sds"][k]["dpc"] in (5, 6)), None)
        if ri is None:
            continue
        when = f"shutdown(wait={bool(w)}) #{k} ended after step {ri - 1}"
        if obs[ri]["sds"][k]["dpc"] == 6:
            left = [j for j in range(n) if wpc(ri, j) not in (0, 5)]
            out.append({"clause": "shutdown-wait-returns", "cause": "join-reraises-job-exception", "k": k,
                        "detail": f"{when} with an exception instead of returning; jobs with an unfinished worker at that point: {left}"})
            continue
        s = first(lambda l: l[0] == SDSET and l[1] == k)
        for j in range(n):
            ai = accepted_at(j)
            if ai is not None and ai > ri:
                rchk = first(lambda l: l[0] == SUBRECHECK and l[1] == j)
                if rchk is None or rchk >= ai - 1:
                    cause = "no-flag-test-under-lock"
                elif s is not None and rchk < s:
                    cause = "snapshot-missed-registering-job"
                else:
                    cause = "flag-ignored"
                out.append({"clause": "no-accept-after-shutdown", "cause": cause, "k": k, "j": j,
                            "detail": f"job {j} accepted (worker started) at step {ai - 1}, {when}; flag test under the lock at step {rchk}, request at step {s}"})
            if w and ai is not None and ai <= ri and obs[ri]["jobs"][j]["sets"] != 1:
                out.append({"clause": "no-process-after-shutdown", "cause": "join-returned-early", "k": k, "j": j,
                            "detail": f"{when}, job {j} accepted before is not finished (set_result calls {obs[ri]['jobs'][j]['sets']})"})
            alive = [i for i in range(ri, len(obs)) if obs[i]["jobs"][j]["proc"] == 1]
            if alive:
                pop = first(lambda l: l[0] == POPEN and l[1] == j and l[2])
                can = first(lambda l: l[0] == SDCANCEL and l[1] == k and l[2] == j)
                if ai is not None and ai > ri:
                    cause = "accepted-after-shutdown"
                elif w:
                    cause = "join-returned-early"
                elif can is None:
                    cause = "no-cancel-task"
                elif pop is not None and pop > can:
                    cause = "cancel-before-popen"
                else:
                    cause = "cancel-did-not-kill"
                out.append({"clause": "no-process-after-shutdown", "cause": cause, "k": k, "j": j,
                            "detail": f"process of job {j} runs after step {alive[0] - 1}, {when}; its cancel task ran at step {can}, its Popen at step {pop}"})
    return out


# =========================================================================== real subprocesses

def alive_with(marker):
    """pids of live (non-zombie) processes whose command line contains `marker`; reads /proc directly
    (psutil.process_iter can raise while a process vanishes under it)"""
    out = []
    for d in os.listdir("/proc"):
        if not d.isdigit():
            continue
        try:
            with open(f"/proc/{d}/cmdline", "rb") as f:
                cmd = f.read().replace(b"\0", b" ").decode("utf-8", "replace")
            if marker not in cmd:
                continue
            with open(f"/proc/{d}/stat", "rb") as f:
                st = f.read().decode("utf-8", "replace")
            state = st[st.rindex(")") + 2: st.rindex(")") + 3]
            if state != "Z":
                out.append(int(d))
        except (OSError, ValueError):
            continue
    return out


def real_low_level(spec):
    """Run the real solve_low_level with a real child process.  spec = dict(script, timeout)."""
    import psutil

    import halmos.processes as P
    import halmos.solve as S

    S.dump = lambda path_ctx: None
    tmpdir = tempfile.mkdtemp(prefix="c17r_")
    ex = P.PopenExecutor()
    marker = f"c17marker{os.getpid()}_{time.time_ns()}"
    args = types.SimpleNamespace(resolved_solver_command=["sh", "-c", spec["script"] + f" # {marker}"], verbose=0,
                                 solver_timeout_assertion=spec["timeout"], cache_solver=False)
    ctx = types.SimpleNamespace(args=args, path_id=1, dump_file=os.path.join(tmpdir, "q.smt2"),
                                solving_ctx=types.SimpleNamespace(executor=ex), query=None, is_refined=False)
    t0 = time.time()
    box = {}

    def call():
        try:
            box["res"] = verdict_code(S.solve_low_level(ctx).result)
        except Exception as e:  # noqa: BLE001
            box["res"] = f"EXC {type(e).__name__}"

    th = real_threading.Thread(target=call, daemon=True)
    th.start()
    th.join(spec.get("deadline", 15))
    res = box.get("res", "HANG: solve_low_level did not return (result never delivered)")
    wall = time.time() - t0
    f = ex.futures[0] if ex.futures else None
    # every child has been sent SIGKILL by now; give the kernel a moment to tear them down
    t1 = time.time()
    while True:
        survivors = alive_with(marker)
        if not survivors or time.time() - t1 > 3.0:
            break
        time.sleep(0.1)
    for pid in survivors:
        with contextlib.suppress(Exception):
            psutil.Process(pid).kill()
    with contextlib.suppress(Exception):
        for fn in os.listdir(tmpdir):
            os.unlink(os.path.join(tmpdir, fn))
        os.rmdir(tmpdir)
    return {"verdict": res, "wall": round(wall, 2), "survivors": len(survivors),
            "exc": None if f is None or f._exception is None else type(f._exception).__name__}


REAL_CASES = [
    # (script, timeout seconds or 0, expected verdict code, what)
    ("echo unsat", 0, 0, "plain unsat"),
    ("echo sat", 5, 1, "plain sat within limit"),
    ("sleep 5; echo unsat", 0.3, 2, "time limit exceeded before the answer"),
    ("echo unsat; sleep 5", 0.3, 2, "answer printed, then hangs past the limit"),
    ("(sleep 7; echo unsat) & wait", 0.3, 2, "child of the solver hangs past the limit"),
    ("exit 3", 0, 3, "solver fails without output"),
    ("trap '' TERM; sleep 6; echo unsat", 0.3, 2, "solver (and its child) ignore SIGTERM past the time limit: must be SIGKILLed and reported unknown"),
]


def real_random_run(seed):
    """Randomized run with real children: submit N jobs from threads, shut down at a random
    moment; afterwards no child may survive, every accepted job delivers once."""
    import random

    import psutil

    import halmos.processes as P

    r = random.Random(seed)
    ex = P.PopenExecutor()
    marker = f"c17rand{os.getpid()}_{seed}_{time.time_ns()}"
    n = r.randint(1, 3)
    results = [None] * n
    futs = [None] * n
    counts = [0] * n

    def submitter(j):
        dur = r.choice([0, 0.05, 0.2, 3])
        tmo = r.choice([None, None, 0.1, 1.0])
        f = P.PopenFuture(["sh", "-c", f"sleep {dur}; echo unsat # {marker}"], timeout=tmo)
        orig = f.set_result

        def sr(x):
            counts[j] += 1
            return orig(x)

        f.set_result = sr
        futs[j] = f
        time.sleep(r.random() * 0.05)
        try:
            ex.submit(f)
        except P.ShutdownError:
            results[j] = "rejected"
            return
        try:
            results[j] = ("ok", f.result(timeout=20))
        except subprocess.TimeoutExpired:
            results[j] = "timeout"
        except Exception as e:  # noqa: BLE001
            results[j] = f"EXC {type(e).__name__}"

    ths = [real_threading.Thread(target=submitter, args=(j,), daemon=True) for j in range(n)]
    for t in ths:
        t.start()
    time.sleep(r.random() * 0.15)
    wait = r.random() < 0.3
    t0 = time.time()
    raised = None
    try:
        ex.shutdown(wait=wait)
    except Exception as e:  # noqa: BLE001  (F15: shutdown(wait=True) re-raises a job's exception)
        raised = type(e).__name__
    t_ret = time.time() - t0
    time.sleep(0.1)
    alive_after = alive_with(marker)
    for t in ths:
        t.join(25)
    stuck = [j for j, t in enumerate(ths) if t.is_alive()]
    for pid in alive_after:
        with contextlib.suppress(Exception):
            psutil.Process(pid).kill()
    return {"seed": seed, "n": n, "wait": wait, "results": [x if isinstance(x, str) else "ok" for x in results],
            "counts": counts, "shutdown_raised": raised, "alive_after_shutdown": len(alive_after), "stuck": stuck, "shutdown_s": round(t_ret, 2),
            "late_submit_ok": [j for j in range(n) if futs[j] is not None and results[j] != "rejected" and futs[j].start_time and futs[j].start_time > t0 + t_ret]}


# =========================================================================== the check

def L(*xs):
    """labels from a compact form: ("c",j) SubCheck ... see LAB"""
    return [[LAB[x[0]], x[1], (x[2] if len(x) > 2 else 0)] for x in xs]


LAB = {"c": SUBCHECK, "a": SUBACQ, "r": SUBRECHECK, "u": SUBUNLOCK, "p": SUBAPP, "s": SUBSTART, "l": SUBREL, "w": SUBWAIT,
       "W": SPAWNENTER, "P": POPEN, "X": EXIT, "R": COMMRET, "T": COMMTMO, "E": COMMEXC, "F": FINALLY, "S": SETRES,
       "ds": SDSET, "da": SDACQ, "dc": SDCANCEL, "dn": SDSNAP, "dl": SDREL, "dj": SDJOIN, "dr": SDRET}


def _submit(j):
    return L(("c", j), ("a", j), ("r", j), ("p", j), ("s", j), ("l", j))


CORPUS = [
    # regression schedules of the repaired defects: the implementation must follow them and the property must hold
    {"name": "regression F5 (446a9a7): flag test before the lock, request and shutdown(wait=False) in between -> rejected under the lock",
     "tmos": [0], "waits": [0], "maximal": True,
     "sched": L(("c", 0), ("ds", 0), ("da", 0), ("dr", 0), ("a", 0), ("r", 0), ("u", 0))},
    {"name": "regression F6 (1eaaf0c): shutdown(wait=False) cancels a job whose worker has not spawned yet -> never spawned, ShutdownError delivered once",
     "tmos": [0], "waits": [0], "maximal": True,
     "sched": _submit(0) + L(("ds", 0), ("da", 0), ("dc", 0, 0), ("dr", 0), ("W", 0), ("F", 0), ("S", 0), ("w", 0))},
    {"name": "regression F6 (1eaaf0c): the cancel task waits while the worker is between its test and the end of Popen, then kills the process",
     "tmos": [0], "waits": [0], "maximal": True,
     "sched": _submit(0) + L(("W", 0), ("ds", 0), ("da", 0), ("P", 0, 1), ("dc", 0, 0), ("dr", 0), ("R", 0, 0), ("F", 0), ("S", 0), ("w", 0))},
    {"name": "regression F15 (0f4e35b): shutdown(wait=True) with a timed-out job first in the snapshot waits for the second job",
     "tmos": [1, 0], "waits": [1], "maximal": True,
     "sched": _submit(0) + _submit(1) + L(("W", 0), ("P", 0, 1), ("W", 1), ("P", 1, 1), ("T", 0), ("F", 0), ("S", 0), ("ds", 0), ("da", 0), ("dn", 0), ("dl", 0),
                                          ("dj", 0), ("X", 1), ("R", 1, 0), ("F", 1), ("S", 1), ("dj", 0), ("dr", 0), ("w", 0), ("w", 1))},
    {"name": "regression (2f54d38): submit holds the lock past its flag test while shutdown(wait=True) is requested -> the snapshot waits for the lock and contains the job",
     "tmos": [0], "waits": [1], "maximal": True,
     "sched": L(("c", 0), ("a", 0), ("r", 0), ("ds", 0), ("p", 0), ("s", 0), ("l", 0), ("da", 0), ("dn", 0), ("dl", 0), ("W", 0), ("P", 0, 1),
                ("X", 0), ("R", 0, 0), ("F", 0), ("S", 0), ("dj", 0), ("dr", 0), ("w", 0))},
    # a solver process that ignores SIGTERM (job configuration bit 1): time limit, and shutdown(wait=False)
    {"name": "a job whose process ignores SIGTERM exceeds its time limit: force-killed, delivered, reported unknown",
     "tmos": [3], "waits": [], "maximal": True,
     "sched": _submit(0) + L(("W", 0), ("P", 0, 1), ("T", 0), ("F", 0), ("S", 0), ("w", 0))},
    {"name": "shutdown(wait=False) force-kills a process that ignores SIGTERM; the job is delivered",
     "tmos": [2], "waits": [0], "maximal": True,
     "sched": _submit(0) + L(("W", 0), ("P", 0, 1), ("ds", 0), ("da", 0), ("dc", 0, 0), ("dr", 0), ("R", 0, 0), ("F", 0), ("S", 0), ("w", 0))},
    # a second shutdown request while the first one is in progress (processes.main(): `with` exit = wait=True, callback = wait=False)
    {"name": "shutdown(wait=False) issued while shutdown(wait=True) is blocked in _join kills the job and unblocks it",
     "tmos": [0], "waits": [1, 0], "maximal": True,
     "sched": _submit(0) + L(("W", 0), ("P", 0, 1), ("ds", 0), ("da", 0), ("dn", 0), ("dl", 0), ("ds", 1), ("da", 1), ("dc", 1, 0), ("dr", 1),
                             ("E", 0), ("F", 0), ("S", 0), ("dj", 0), ("dr", 0), ("w", 0))},
]


def families(tier):
    """(tmos, waits, maxpre, mask) enumerated exhaustively."""
    fam = []
    if tier == "quick":
        fam += [([0], [], 3, 15), ([1], [], 3, 15)]
        fam += [([1], [0], 1, 4), ([0], [1], 1, 0), ([0], [0], 1, 6), ([1], [1], 0, 4), ([0], [0, 1], 0, 0), ([1], [0, 0], 0, 4)]
        fam += [([0, 0], [], 0, 0), ([0, 1], [0], 0, 0)]
        fam += [([3], [], 2, 6), ([3], [0], 1, 4), ([2], [1, 0], 0, 0)]          # processes that ignore SIGTERM
    else:
        fam += [([0], [], 4, 15), ([1], [], 4, 15)]
        fam += [([1], [0], 3, 15), ([1], [1], 3, 15), ([0], [0, 1], 2, 0), ([0], [1, 0], 2, 0), ([1], [0, 0], 2, 0), ([1], [1, 1], 1, 4)]
        fam += [([0, 0], [], 2, 0), ([0, 1], [0], 1, 0), ([0, 0], [1], 0, 7), ([0, 1], [0], 0, 4), ([1, 0], [1], 0, 4)]
        fam += [([3], [], 3, 15), ([3], [0], 2, 6), ([2], [1, 0], 1, 0), ([3, 2], [0], 0, 4)]
    return fam


def random_schedules(exe, r, tmos, waits, count, maxpre):
    """random maximal schedules of the model"""
    cw = cfg_words(tmos, waits)
    res = model_parallel(exe, [("c17_random", [r.getrandbits(62), maxpre] + cw) for _ in range(count)])
    return [[list(x[i:i + 3]) for i in range(0, len(x), 3)] for x in res if x is not None]


def explore_impl(pool, cfgs, cap):
    """Stateless exploration of the real classes (no model involved): every maximal run with at most
    `maxpre` preemptions, data alternatives per `mask` (as c17_enum).  One execution per schedule; an
    execution returns the alternatives it did not take as new prefixes."""
    out_cases, out_res, notes = [], [], []
    for tm, wa, maxpre, mask in cfgs:
        frontier = [{"tmos": tm, "waits": wa, "sched": [], "explore": {"maxpre": maxpre, "mask": mask}, "maximal": False,
                     "family": f"impl-exh:{len(tm)}j{len(wa)}s"}]
        count, truncated = 0, False
        while frontier:
            if count + len(frontier) > cap:
                frontier, truncated = frontier[:max(0, cap - count)], True
            results = pool.map(impl_run_safe, frontier, chunksize=2) if frontier else []
            nxt = []
            for c, x in zip(frontier, results):
                out_cases.append(c)
                out_res.append(x)
                count += 1
                k = max(0, len(x.get("obs", [])) - 1)
                steps = [list(l) for l in c["sched"][:k]] + [e.get("step") for e in x.get("tail", [])]
                for pos, st in x.get("alts", []):
                    if all(s_ is not None for s_ in steps[:pos]):
                        nxt.append(dict(c, sched=steps[:pos] + [st]))
            frontier = [] if truncated else nxt
        notes.append(f"implementation-driven: jobs(tmo)={tm} shutdown(wait)={wa}: {'the first ' if truncated else 'all '}{count} maximal runs of the real classes with <= {maxpre} preemptions (data mask {mask})")
    return out_cases, out_res, notes


def compare_obs(a, b):
    """implementation observation a vs model observation b -> None or description"""
    for key in ("flag", "lock", "reg"):
        if a[key] != b[key]:
            return f"{key}: implementation {a[key]} model {b[key]}"
    for j, (x, y) in enumerate(zip(a["jobs"], b["jobs"])):
        for key in ("spc", "wpc", "proc", "exc", "out", "sets", "creq", "slock"):
            if x[key] != y[key]:
                return f"job {j} {key}: implementation {x[key]} model {y[key]}"
    for k, (x, y) in enumerate(zip(a["sds"], b["sds"])):
        if x != y:
            return f"shutdown caller {k}: implementation {x} model {y}"
    return None


_printed_known = set()


def report_violation(rep, case, labels, v, hist):
    sig = {"clause": v["clause"], "cause": v["cause"]}
    for k in KNOWN:
        if k.get("property", PID) == PID and common.finding_matches(k, {"sig": sig}):
            hist[k["id"]] = hist.get(k["id"], 0) + 1
            rep.count("known_finding_schedules", k["id"])
            if k["id"] not in _printed_known:
                _printed_known.add(k["id"])
                # recorded as a failing input with its signature: Report.finish matches it against known_findings.json
                # and prints the KNOWN-FINDING line
                rep.fail("failing-input", f"{v['clause']} / {v['cause']}: {v['detail']} -- e.g. schedule [{show(labels)}] jobs(tmo)={case['tmos']} shutdown(wait)={case['waits']}",
                         case={"tmos": case["tmos"], "waits": case["waits"], "sched": [l for l in labels if l is not None], "maximal": False, "violation": v}, sig=sig)
                rep.coverage.setdefault("known_finding_examples", {})[k["id"]] = {
                    "tmos": case["tmos"], "waits": case["waits"], "schedule": show(labels), "sched": labels, "detail": v["detail"], "sig": sig}
            return True
    return False


def run(rep, tier):
    b = common.build_property(PID, TRANSLATORS)
    common.standard_obligations(rep, PID, b)
    exe = None
    if b["make_ok"]:
        exe, log = common.build_driver(PID)
        rep.obligation("extraction of Model/ExecModel.v entry points + OCaml driver build", exe is not None, "" if exe else log[-800:])
        if exe is None:
            rep.fail("broken-tie", "extracted model driver does not build: " + log[-400:], case={})
    r = common.rng(PID)
    t_start = time.time()

    # ---------------- cases
    cases = [dict(c, maximal=c.get("maximal", False), family="corpus") for c in CORPUS]
    exhaustive_note = []
    # schedules chosen by the implementation itself (no model needed): random completions from the initial state
    free_cfg = [([0], [0], 20), ([1], [1], 20), ([0], [1, 0], 30), ([0, 1], [0], 30), ([1, 0], [1], 30), ([0, 0], [1, 0], 40), ([1, 0], [0, 0], 20),
                ([3], [0], 20), ([2, 3], [0, 1], 30)]
    if tier != "quick":
        free_cfg = [(tm, wa, c * 8) for tm, wa, c in free_cfg] + [([0, 1, 0], [1, 0], 300), ([0, 0, 1], [0], 200)]
    for tm, wa, cnt in free_cfg:
        for _ in range(cnt):
            cases.append({"tmos": tm, "waits": wa, "sched": [], "free": r.randrange(1 << 30), "maximal": False, "family": f"impl-driven:{len(tm)}j{len(wa)}s"})
    if exe is not None:
        fams = families(tier)
        with cf.ThreadPoolExecutor(16) as tp:
            res = list(tp.map(lambda f: model_batch(exe, [("c17_enum", [f[2], f[3]] + cfg_words(f[0], f[1]))])[0], fams))
        for (tm, wa, P_, mask), rr in zip(fams, res):
            if rr is None:
                rep.fail("broken-tie", f"model enumeration failed for {tm},{wa},{P_},{mask}", case={})
                continue
            ss = parse_scheds(rr)
            exhaustive_note.append(f"jobs(tmo)={tm} shutdown(wait)={wa}: all {len(ss)} maximal schedules with <= {P_} preemptions (data mask {mask})")
            for s in ss:
                cases.append({"tmos": tm, "waits": wa, "sched": s, "maximal": True, "family": f"exh:{len(tm)}j{len(wa)}s"})
        # random deeper schedules
        rnd = [([0, 1], [0], 80, 3), ([0, 0], [1], 70, 3), ([1, 0], [0, 1], 60, 3), ([0], [1, 0], 40, 4), ([0, 1], [1, 0], 60, 3), ([3, 2], [0, 1], 40, 3)] if tier == "quick" else \
              [([0, 1], [0], 700, 4), ([0, 0], [1], 500, 4), ([1, 0], [0, 1], 500, 4), ([0, 1], [1, 0], 500, 4), ([0, 1, 0], [0], 700, 3), ([0, 0, 1], [1], 500, 3), ([0, 1, 0], [0, 1], 500, 3)]
        for tm, wa, cnt, P_ in rnd:
            for s in random_schedules(exe, r, tm, wa, cnt, P_):
                cases.append({"tmos": tm, "waits": wa, "sched": s, "maximal": True, "family": f"rnd:{len(tm)}j{len(wa)}s"})

    phase = {"build_s": round(t_start - rep.t0, 1), "generate_s": round(time.time() - t_start, 1)}
    t_ph = time.time()
    # ---------------- implementation (forced schedules) and model traces
    with Pool(min(16, os.cpu_count() or 4)) as pool:
        real_async = pool.map_async(real_low_level, [{"script": s, "timeout": t} for s, t, _, _ in REAL_CASES], chunksize=1)
        nreal = 0 if tier == "quick" else 120
        rand_async = pool.map_async(real_random_run, [r.randrange(1 << 30) for _ in range(nreal)], chunksize=1) if nreal else None
        real = real_async.get(600)
        rand_real = rand_async.get(1500) if rand_async else []
        ex_cfgs = [([0], [0], 2, 0), ([0], [1], 1, 0), ([1], [1], 1, 4), ([1], [0], 1, 6), ([0], [1, 0], 1, 0), ([0, 0], [0], 0, 0),
                   ([3], [0], 1, 4), ([2], [0], 1, 0)] if tier == "quick" else \
                  [([0], [0], 2, 15), ([1], [1], 2, 4), ([0], [1, 0], 1, 0), ([1], [0, 0], 1, 4), ([0, 0], [0], 1, 0), ([0, 1], [1], 0, 4), ([3], [0], 2, 6), ([2, 3], [0], 0, 4)]
        ex_cases, ex_res, ex_notes = explore_impl(pool, ex_cfgs, 220 if tier == "quick" else 1500)
        exhaustive_note += ex_notes
        impl = []
        nerr = 0
        for off in range(0, len(cases), 320):
            # in batches, so that no task is left queued in the pool when we stop early
            part = pool.map(impl_run_safe, cases[off:off + 320], chunksize=4)
            impl += part
            nerr += sum(1 for x in part if x["error"] is not None)
            if nerr >= 40:
                break              # something is badly broken: do not wait for thousands of time-outs
        skipped = len(cases) - len(impl)
        if skipped:
            cases = cases[:len(impl)]
            rep.coverage["skipped_after_40_errors"] = skipped
        cases += ex_cases
        impl += ex_res
        # a thread that is not scheduled for seconds on an overloaded machine looks like a hang:
        # re-run such cases, each in a fresh process with a long limit, before believing them
        def stalled(x):
            txt = (x["error"] or "") + " ".join(str(e.get("what")) for e in x.get("tail", []))
            return "did not settle" in txt or "first gates" in txt

        retry = [i for i, x in enumerate(impl) if stalled(x)]
        if retry and len(retry) < 24:
            os.environ["C17_SETTLE_S"] = "40"
            with Pool(4, maxtasksperchild=1) as pool2:
                again = pool2.map(impl_run_safe, [cases[i] for i in retry], chunksize=1)
            os.environ.pop("C17_SETTLE_S", None)
            for i, x in zip(retry, again):
                impl[i] = x
            rep.coverage["retried_after_scheduling_stall"] = len(retry)
    phase["impl_s"] = round(time.time() - t_ph, 1)
    t_ph = time.time()
    # what the implementation did, per case; the model is run on exactly these labels
    events = [impl_events(c, x) for c, x in zip(cases, impl)]
    model = quiet = None
    if exe is not None:
        def msched(i):
            labels = events[i][0]
            if impl_driven(cases[i]) and all(l is not None for l in labels):
                return labels
            return cases[i]["sched"]

        tr = model_parallel(exe, [("c17_trace", cfg_words(c["tmos"], c["waits"]) + flat(msched(i))) for i, c in enumerate(cases)])
        model = [parse_trace(t, len(c["tmos"]), len(c["waits"])) if t is not None else None for t, c in zip(tr, cases)]
        fidx = [i for i, c in enumerate(cases) if impl_driven(c)]
        en = model_parallel(exe, [("c17_enabled", cfg_words(cases[i]["tmos"], cases[i]["waits"]) + flat(msched(i))) for i in fidx]) if fidx else []
        quiet = dict(zip(fidx, en))

    phase["model_trace_s"] = round(time.time() - t_ph, 1)
    rep.coverage["phase_wall_s"] = phase
    known_hist = {}
    nbad = nfi = 0
    for i, c in enumerate(cases):
        res = impl[i]
        labels, iobs = events[i]
        free = impl_driven(c)
        kinds = []
        tags = {l[0] for l in labels if l is not None}
        if c["waits"]:
            kinds.append("shutdown")
        if len(c["waits"]) > 1:
            kinds.append("two-shutdown-callers")
        if len(c["tmos"]) > 1:
            kinds.append("multi-job")
        if COMMTMO in tags:
            kinds.append("timeout")
        if COMMEXC in tags or any(l is not None and l[0] == POPEN and not l[2] for l in labels):
            kinds.append("failure")
        if SUBUNLOCK in tags:
            kinds.append("rejected-under-lock")
        if any(x & 2 for x in c["tmos"]):
            kinds.append("process-ignores-SIGTERM")
        rep.count("family", c["family"])
        rep.count("length", len(labels) // 5 * 5)
        for k in kinds or ["plain"]:
            rep.count("case_kind", k)
        rep.case({"tmos": c["tmos"], "waits": c["waits"], "schedule": show(labels)}, nontrivial=bool(kinds))
        casedoc = {"tmos": c["tmos"], "waits": c["waits"], "sched": c["sched"], "free": c.get("free"), "explore": c.get("explore"), "maximal": c["maximal"],
                   "schedule": show(c["sched"]), "implementation_did": show(labels)}
        # (1) the property on the implementation
        viol = spec_check(c, res)
        seen = set()
        unknown_v = []
        for v in viol:
            key = (v["clause"], v["cause"])
            if key in seen:
                continue
            seen.add(key)
            if not report_violation(rep, c, labels, v, known_hist):
                unknown_v.append(v)
        if "expect" in c:
            got = {v["clause"]: v["cause"] for v in viol}
            ok = res["error"] is None and all(got.get(k) == w for k, w in c["expect"].items())
            rep.obligation(f"witness schedule {c['name']} of the _refuted theorem reproduces on the real PopenExecutor/PopenFuture", ok,
                           "" if ok else f"error={res['error']} violations={viol}")
            if not ok:
                rep.fail("broken-tie", f"the Coq witness {c['name']} does not reproduce on the real classes (error={res['error']}, violations={viol})", case=casedoc)
        for v in unknown_v:
            nfi += 1
            if nfi <= 12:
                rep.fail("failing-input", f"property violated on the real classes: {v['clause']} / {v['cause']}: {v['detail']} -- the implementation did [{show(labels)}] jobs(tmo)={c['tmos']} shutdown(wait)={c['waits']}"
                         + (f" (forced prefix [{show(c['sched'][:res['at']])}], then it could not follow {show(c['sched'][res['at']:res['at'] + 1])}: {res['error']}; completed by releasing the first enabled thread)" if res["error"] else ""),
                         case={**casedoc, "violation": v}, sig={"clause": v["clause"], "cause": v["cause"]})
        if unknown_v:
            continue
        # (2) model vs implementation, step by step
        if res["error"] is not None:
            nbad += 1
            if nbad <= 12:
                rep.fail("broken-tie", f"the real classes cannot follow a schedule of the model: at label #{res['at']} "
                         f"({show(c['sched'][res['at']:res['at'] + 1]) if res['at'] >= 0 else '-'}): {res['error']} -- schedule [{show(c['sched'])}] jobs(tmo)={c['tmos']} shutdown(wait)={c['waits']}",
                         case={**casedoc, "error": res["error"], "at": res["at"], "trace": res.get("trace")})
            continue
        anomalies = [f"{show([l])} (forced)" for l in c["sched"] if l[0] == RAW] + [e["what"] for e in res.get("tail", []) if e["label"] is None]
        if anomalies:
            nbad += 1
            if nbad <= 12:
                rep.fail("broken-tie", f"the real classes took a step that the model does not have: {anomalies[0]} -- the implementation did [{show(labels)}] jobs(tmo)={c['tmos']} shutdown(wait)={c['waits']}",
                         case={**casedoc, "anomalies": anomalies[:5]})
            continue
        if res.get("not_quiescent") or (free and not res.get("done")):
            nbad += 1
            if nbad <= 12:
                rep.fail("broken-tie", f"the real classes can still move after [{show(labels)}] ({res.get('not_quiescent')}) where the run should be over, jobs(tmo)={c['tmos']} shutdown(wait)={c['waits']}", case=casedoc)
            continue
        if model is not None:
            if model[i] is None or not model[i][1]:
                nbad += 1
                if nbad <= 12:
                    rep.fail("broken-tie", f"the model rejects what the implementation did: [{show(labels)}] jobs(tmo)={c['tmos']} shutdown(wait)={c['waits']}" if free else f"the model rejects schedule [{show(c['sched'])}]", case=casedoc)
                continue
            mobs = model[i][0]
            bad = None
            if len(mobs) != len(iobs):
                bad = (min(len(mobs), len(iobs)), f"{len(iobs)} implementation observations, {len(mobs)} model observations")
            for stepi, (a, m_) in enumerate(zip(iobs, mobs)):
                d = compare_obs(a, m_)
                if d is not None:
                    bad = (stepi, d)
                    break
            if bad is None and free:
                q = quiet.get(i)
                if not q or q[0] != 1 or q[1] != 1:
                    bad = (len(labels), f"nothing can move in the implementation but the model is not quiescent: {q[:8] if q else q}")
            if bad is not None:
                nbad += 1
                if nbad <= 12:
                    rep.fail("broken-tie", f"model and implementation disagree after {bad[0]} labels of [{show(labels)}] (jobs(tmo)={c['tmos']} shutdown(wait)={c['waits']}): {bad[1]}",
                             case={**casedoc, "after": bad[0], "difference": bad[1]})
    # ---------------- real subprocesses through the real solve_low_level
    for (script, tmo, want, what), got in zip(REAL_CASES, real):
        rep.case({"real": script, "timeout": tmo}, nontrivial=True)
        rep.count("case_kind", "real-subprocess")
        if got["verdict"] != want or got["survivors"]:
            cause = "not-unknown" if want == 2 else "real-run"
            rep.fail("failing-input", f"real solve_low_level on `sh -c '{script}'` (timeout {tmo}s, {what}): verdict code {got['verdict']} (expected {want}), surviving children {got['survivors']}",
                     case={"real": script, "timeout": tmo, "got": got}, sig={"clause": "timeout-unknown" if want == 2 else "real", "cause": cause})
    for got in rand_real:
        rep.case({"real_random": got["seed"]}, nontrivial=True)
        rep.count("case_kind", "real-random")
        bad = []
        if any(cn > 1 for cn in got["counts"]):
            bad.append(("delivered-at-most-once", "set_result-twice"))
        if got["stuck"]:
            bad.append(("wait-returns", "waiter-stuck"))
        if got["shutdown_raised"]:
            bad.append(("shutdown-wait-returns", "join-reraises-job-exception" if got["wait"] else "shutdown-nowait-raised"))
        if got["late_submit_ok"]:
            # start_time is taken by the worker thread, which may be scheduled late (the F6 window): not an acceptance time
            rep.count("real_random", "worker of an accepted job started after shutdown returned [F6 window]")
        if got["alive_after_shutdown"] and got["wait"]:
            bad.append(("no-process-after-shutdown", "join-returned-early"))
        if got["alive_after_shutdown"] and not got["wait"]:
            # a child alive after shutdown(wait=False): the F6 window is the known cause; cannot be told apart here
            rep.count("real_random", "child alive after shutdown(wait=False) [F6 window]")
        for cl, ca in bad:
            rep.fail("failing-input", f"randomized real-subprocess run seed={got['seed']}: {cl}/{ca}: {got}", case=got, sig={"clause": cl, "cause": ca})
    rep.coverage["traces_validated_against_impl"] = len(cases) if model is not None else 0
    rep.coverage["exhaustive"] = True
    rep.coverage["exhaustive_note"] = exhaustive_note
    rep.coverage["known_finding_schedule_counts"] = known_hist
    rep.coverage["real_subprocess_cases"] = [{"script": s, "timeout": t, "expected": w, "got": g} for (s, t, w, _), g in zip(REAL_CASES, real)]
    if rand_real:
        rep.coverage["real_random_runs"] = len(rand_real)
    rep.coverage["tie_wall_s"] = round(time.time() - t_start, 1)
    return rep.finish(
        checker_cmd="make -C coq Props/C17.vo (coq_makefile, coqc 8.16.1) after regenerating coq/Gen/GenSolveLow.v from /repo/src/halmos/solve.py",
        trusted_base=common.TRUSTED_BASE_COMMON + ["the scheduling instrumentation of harness/props/C17.py (gates at thread entry and inside Event/Lock/list/Thread/Popen/communicate/poll/set_result/result/ThreadPoolExecutor shims)"],
        assumptions=ASSUMPTIONS,
        partial=PARTIAL,
        rule="cases = (job configuration, shutdown callers, schedule). (a) schedules produced by the extracted model: exhaustively all maximal schedules up to a preemption bound per configuration family (listed in exhaustive_note), random maximal schedules with more preemptions, the witness schedule of the _refuted theorem and regression schedules of the repaired defects; each is forced on the real PopenExecutor/PopenFuture/solve_low_level (fake Popen; every thread -- submitter, worker, shutdown caller, cancel task -- runs nothing before its first label is scheduled) and compared with the model after every label; when the implementation cannot follow a label it is left to complete the run by itself and the property is evaluated on what it did. (b) schedules produced by the implementation: random runs to quiescence choosing among the steps its parked threads can take; the model must accept exactly these labels, agree after every one and be quiescent at the end. A case is non-trivial when it involves a shutdown caller, several jobs, a timeout, a failure or a rejection under the lock; distinct by hash of configuration + schedule. Real `sh` children are used for the time-limit cases (and randomized runs in the thorough tier).",
    )


def replay(rep, body):
    for f in body.get("failures", []):
        c = f.get("case") or {}
        if "sched" in c:
            case = {"tmos": c["tmos"], "waits": c["waits"], "sched": c["sched"], "maximal": c.get("maximal", False)}
            if c.get("free") is not None:
                case["free"] = c["free"]
            if c.get("explore") is not None:
                case["explore"] = c["explore"]
            res = impl_run_safe(case)
            labels, obs = impl_events(case, res)
            print("forced schedule    :", show(case["sched"]), "" if case.get("free") is None else f"(then random completion, seed {case['free']})")
            print("implementation did :", show(labels))
            print("implementation end :", json.dumps(obs[-1:] + [{"error": res["error"], "at": res["at"], "stuck": res.get("stuck")}]))
            print("property           :", spec_check(case, res))
        elif "real" in c:
            print(real_low_level({"script": c["real"], "timeout": c["timeout"]}))
    return 0
