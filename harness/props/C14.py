"""C14 — prank, state-setting cheatcodes and fresh symbols.

Obligations: T-selectors-cheat, Props/C14.vo (theorems about Model/PrankModel.v and
Model/CheatModel.v over the regenerated Gen/GenCheatSelectors.v), lint.
Ties (X-C14):
  L1  the real halmos.cheatcodes.Prank object vs the extracted model: exhaustive method
      sequences (length <= 4 quick / 5 thorough) over 3 addresses and every callee class;
  L2a hand-assembled EVM programs run through the real SEVM (nested frames, creations,
      cheatcode / console calls, branching, a second transaction through SEVM.run_message)
      reading back CALLER / ORIGIN in every entered frame: real vs model vs python spec;
  L2b state cheatcodes (deal/store/load/etch/warp/roll/fee/chainId/coinbase/difficulty) with
      concrete and symbolic arguments, read back with BALANCE/SLOAD/EXTCODESIZE/TIMESTAMP/...;
  L1c every svm.create* / vm.random* handler for all widths 1..256 and byte sizes
      {0,1,31,32,33,64}: status, counter, returned z3 term evaluated under valuations,
      range constraints, symbol width and name.
"""
import itertools
import re

from harness import common
from harness.common import Model

PID = "C14"
TRANSLATORS = ["T-selectors-cheat", "T-copies"]

# Genuine defects of halmos reproduced by this check and not repaired: they live in
# /verif/known_findings.json (none at present; C14-console-consumes-prank was repaired by f99ede4)
KNOWN = common.known_for("C14")

ASSUMPTIONS = [
    "Foundry semantics of prank/startPrank/stopPrank as written in Spec/FoundrySpec.v (my reading of the Foundry book and forge-std Vm.sol; there is no forge in the sandbox)",
    "storage reads/writes with concrete slots behave as last-write-wins per (account, slot) (that is property C08); balances as a z3 store chain resolved by Exec.select",
    "balances read back are at most MAX_ETH = 2^128: halmos stops the path with an error on a larger concrete balance and assumes symbolic balances to be <= MAX_ETH; vm.store on an account without code is refused (both fail-stop, modelled)",
    "uid() fragments of symbol names are ignored; freshness is proved from the per-path symbol counter",
    "the extracted model and driver are faithful to the Coq definitions (extraction is trusted)",
]
PARTIAL = ("delegatecall/callcode under a prank, pranks left active when a frame returns, vm.prank variants with a delegateCall flag "
           "(unsupported by halmos), symbolic `who` of deal/store/etch and symbolic storage are outside the model")

HEVM = 0x7109709ECFA91A80626FF3989D68F67F5B1DD12D
SVM = 0xF3993A62377BCD56AE39D773740A5390411E8BC9
CONSOLE = 0x000000000000000000636F6E736F6C652E6C6F67
CHEATS = {"hevm": HEVM, "svm": SVM, "console": CONSOLE}
THIS, SENDER0, ORIGIN0 = 0x1000001, 0x1111, 0x2222
SEL = dict(prank=0xCA669FA7, prank2=0x47E50CCE, startPrank=0x06447D56, startPrank2=0x45B56078, stopPrank=0x90C5013B,
           deal=0xC88A5E6D, store=0x70CA10BB, load=0x667F9D70, fee=0x39B37AB0, chainId=0x4049DDD2, coinbase=0xFF483C54,
           difficulty=0x46CC92D9, roll=0x1F7B4F30, warp=0xE5D6BF02, etch=0xB4D6C782, label=0xC657C718,
           getBlockNumber=0x42CBB15C, log_uint=0xF5B1BBA9, createBool=0x6E0BB659)


# ================================================================== independent python spec

def spec_in_effect(hist):
    """hist: newest last; events ('prank', keep, s, o) | 'stop' | 'call' | 'cheat'"""
    called = False
    for e in reversed(hist):
        if e == "call":
            called = True
        elif e == "cheat":
            continue
        elif e == "stop":
            return None
        else:
            _, keep, s, o = e
            if keep or not called:
                return (s, o)
            return None
    return None


def spec_trace(ops, this=THIS, sender=SENDER0, origin=ORIGIN0):
    """Foundry's meaning of an op sequence: list of [1, sender, origin] / [0]."""
    frames = [dict(this=this, caller=sender, origin=origin, hist=[])]
    out = []
    for op in ops:
        k = op[0]
        if k == "newtx":
            frames = [dict(this=op[1], caller=op[2], origin=op[3], hist=[])]
            continue
        f = frames[-1]
        if k in ("prank", "prank2", "startPrank", "startPrank2"):
            if spec_in_effect(f["hist"]) is not None:
                out.append([0])
                return out
            f["hist"].append(("prank", k.startswith("start"), op[1], op[2] if k.endswith("2") else None))
        elif k == "stopPrank":
            f["hist"].append("stop")
        elif k == "cheat":
            f["hist"].append("cheat")     # vm.*, svm.*, console.log: never "the next call"
        elif k in ("call", "create"):
            eff = spec_in_effect(f["hist"])
            s = f["this"] if eff is None else eff[0]
            o = f["origin"] if eff is None or eff[1] is None else eff[1]
            f["hist"].append("call")
            out.append([1, s, o])
            frames.append(dict(this=op[-1], caller=s, origin=o, hist=[]))
        elif k == "return":
            if len(frames) > 1:
                frames.pop()
        elif k == "branch":
            pass
        else:
            raise ValueError(op)
    return out


def enc_ops(ops):
    out = []
    for op in ops:
        k = op[0]
        if k == "prank":
            out += [0, op[1]]
        elif k == "prank2":
            out += [1, op[1], op[2]]
        elif k == "startPrank":
            out += [2, op[1]]
        elif k == "startPrank2":
            out += [3, op[1], op[2]]
        elif k == "stopPrank":
            out += [4]
        elif k == "cheat":
            out += [5, ["hevm", "svm", "console"].index(op[1])]
        elif k == "call":
            out += [6, 0 if op[1] == "call" else 1, op[2]]
        elif k == "create":
            out += [7, op[1]]
        elif k == "return":
            out += [8]
        elif k == "newtx":
            out += [9, op[1], op[2], op[3]]
        elif k == "branch":
            pass
    return out


def same_trace(impl, ref):
    """A path stuck on a HalmosException is yielded with the context of the failing frame's
    caller only (SEVM.call's callback does not unwind further), so what can be observed of
    it is the tail of the full trace: compare as a suffix in that case."""
    if impl and impl[-1] == [0]:
        return bool(ref) and ref[-1] == [0] and len(impl) <= len(ref) and ref[len(ref) - len(impl):] == impl
    return impl == ref


def split_obs(flat):
    out, i = [], 0
    while i < len(flat):
        if flat[i] == 0:
            out.append([0])
            i += 1
        else:
            out.append(flat[i:i + 3])
            i += 3
    return out


# ================================================================== tiny assembler

OPC = dict(STOP=0x00, ADD=0x01, BALANCE=0x31, ORIGIN=0x32, CALLER=0x33, CALLDATALOAD=0x35, CODECOPY=0x39, EXTCODESIZE=0x3B,
           RETURNDATASIZE=0x3D, COINBASE=0x41, TIMESTAMP=0x42, NUMBER=0x43, DIFFICULTY=0x44, CHAINID=0x46, BASEFEE=0x48,
           POP=0x50, MLOAD=0x51, MSTORE=0x52, SLOAD=0x54, JUMPI=0x57, GAS=0x5A, JUMPDEST=0x5B, PUSH0=0x5F, LOG0=0xA0,
           CREATE=0xF0, CALL=0xF1, RETURN=0xF3, STATICCALL=0xFA)


def op(name):
    return bytes([OPC[name]])


def push(v, n=None):
    if n is None:
        n = max(1, (v.bit_length() + 7) // 8)
    return bytes([0x5F + n]) + v.to_bytes(n, "big")


LOGTOP = op("PUSH0") + op("MSTORE") + push(32) + op("PUSH0") + op("LOG0")  # [v] -> LOG0(v)
PROLOGUE = op("CALLER") + LOGTOP + op("ORIGIN") + LOGTOP


def put_args(sel, args, base=0x100):
    """args: ints or pre-assembled code (bytes) leaving one word on the stack"""
    out = push(sel << 224, 32) + push(base, 2) + op("MSTORE")
    for i, a in enumerate(args):
        out += (a if isinstance(a, bytes) else push(a, 32)) + push(base + 4 + 32 * i, 2) + op("MSTORE")
    return out, 4 + 32 * len(args)


def do_call(kind, to, size=0, retsize=0, base=0x100):
    out = push(retsize) + push(0x80) + push(size, 2) + push(base, 2)
    if kind == "CALL":
        out += push(0)
    return out + push(to, 20) + op("GAS") + op(kind) + op("POP")


def cheat_call(sel, args, to=HEVM, retsize=0):
    a, n = put_args(sel, args)
    return a + do_call("CALL", to, n, retsize)


def build_frame(ops, i, codes, static=False):
    """assemble the code of the frame executing ops[i:] up to its 'return'; nested call
    targets get their own contract (codes[addr]); created frames are embedded as initcode.
    Returns (code, next index)."""
    # LOG is a state modification: a frame running in a static context cannot log, its sender
    # and origin are then read from the CallContext's message instead
    body = [b"" if static else PROLOGUE]
    while i < len(ops):
        o = ops[i]
        k = o[0]
        i += 1
        if k == "return":
            break
        if k == "newtx":
            i -= 1
            break
        if k in ("prank", "startPrank"):
            body.append(cheat_call(SEL[k], [o[1]]))
        elif k in ("prank2", "startPrank2"):
            body.append(cheat_call(SEL[k], [o[1], o[2]]))
        elif k == "stopPrank":
            body.append(cheat_call(SEL[k], []))
        elif k == "cheat":
            if o[1] == "hevm":
                body.append(cheat_call(SEL["label"], [0x77, 0x40, 0]))
            elif o[1] == "svm":
                body.append(cheat_call(SEL["createBool"], [0x20, 1, ord("b") << 248], to=SVM, retsize=32))
            else:
                body.append(cheat_call(SEL["log_uint"], [7], to=CONSOLE))
        elif k == "branch":
            # JUMPI on a symbolic calldata word to the next instruction: two paths, same code
            body.append(("branch",))
        elif k == "call":
            code, i = build_frame(ops, i, codes, static or o[1] == "static")
            codes[o[2]] = code
            body.append(do_call("CALL" if o[1] == "call" else "STATICCALL", o[2]))
        elif k == "create":
            code, i = build_frame(ops, i, codes, static)
            body.append(("create", code))
        else:
            raise ValueError(o)
    # two passes: fixed-size PUSH2 operands make the layout independent of the values
    def size_of(b):
        if isinstance(b, bytes):
            return len(b)
        if b[0] == "branch":
            return 1 + 1 + 3 + 1 + 1  # PUSH0 CALLDATALOAD PUSH2 JUMPI JUMPDEST
        return 3 + 3 + 3 + 1 + 3 + 3 + 2 + 1 + 1  # create sequence
    total = sum(size_of(b) for b in body) + 1
    out = b""
    data = b""
    for b in body:
        if isinstance(b, bytes):
            out += b
        elif b[0] == "branch":
            dest = len(out) + 6
            out += op("PUSH0") + op("CALLDATALOAD") + push(dest, 2) + op("JUMPI") + op("JUMPDEST")
        else:
            init = b[1]
            off = total + len(data)
            data += init
            out += push(len(init), 2) + push(off, 2) + push(0x200, 2) + op("CODECOPY")
            out += push(len(init), 2) + push(0x200, 2) + push(0, 1) + op("CREATE") + op("POP")
    out += op("STOP")
    assert len(out) == total, (len(out), total)
    return out + data, i


# ================================================================== running the real SEVM

_ENV = {}


def sevm_env():
    if not _ENV:
        from halmos.__main__ import mk_solver
        from halmos.calldata import FunctionInfo
        from halmos.config import default_config
        from halmos.sevm import SEVM

        args = default_config()
        _ENV["args"] = args
        _ENV["sevm"] = SEVM(args, FunctionInfo("T", "test", "test()", "f8a8fd6d"))
        _ENV["mk_solver"] = mk_solver
        from halmos.mapper import BuildOut

        BuildOut().set_build_out({})   # CREATE looks the deployed code up in the build output
    return _ENV


class quiet:
    """console.log / warnings of halmos write to stdout/stderr: keep the check's output clean"""

    def __enter__(self):
        import contextlib
        import io

        self.cm = contextlib.ExitStack()
        self.cm.enter_context(contextlib.redirect_stdout(io.StringIO()))
        self.cm.enter_context(contextlib.redirect_stderr(io.StringIO()))
        return self

    def __exit__(self, *a):
        self.cm.close()
        return False


def run_program(codes, this=THIS, sender=SENDER0, origin=ORIGIN0, symbolic_calldata=0):
    import z3

    from halmos.__main__ import mk_block
    from halmos.bitvec import HalmosBitVec as BV
    from halmos.bytevec import ByteVec
    from halmos.sevm import CallContext, Contract, Message, Path, con_addr
    from halmos.utils import EVM

    env = sevm_env()
    sevm = env["sevm"]
    code = {con_addr(a): Contract(ByteVec(bytes(c))) for a, c in codes.items()}
    storage = {a: sevm.mk_storagedata() for a in code}
    tstorage = {a: sevm.mk_storagedata() for a in code}
    data = ByteVec([z3.BitVec(f"cd{i}", 256) for i in range(symbolic_calldata)]) if symbolic_calldata else ByteVec()
    msg = Message(target=con_addr(this), caller=con_addr(sender), origin=con_addr(origin), value=BV(0), data=data, call_scheme=EVM.CALL)
    balance = z3.Array("balance_00", z3.BitVecSort(160), z3.BitVecSort(256))
    ex = sevm.mk_exec(code=code, storage=storage, transient_storage=tstorage, balance=balance, block=mk_block(),
                      context=CallContext(msg), pgm=code[con_addr(this)], path=Path(env["mk_solver"](env["args"])))
    with quiet():
        return list(sevm.run(ex))


def run_second_tx(pre_ex, this, sender, origin):
    from halmos.bitvec import HalmosBitVec as BV
    from halmos.bytevec import ByteVec
    from halmos.sevm import Message, Path, con_addr
    from halmos.utils import EVM

    env = sevm_env()
    msg = Message(target=con_addr(this), caller=con_addr(sender), origin=con_addr(origin), value=BV(0), data=ByteVec(), call_scheme=EVM.CALL)
    with quiet():
        return list(env["sevm"].run_message(pre_ex, msg, Path(env["mk_solver"](env["args"]))))


def as_int(x, subst=None):
    """concrete value of a halmos word / z3 term / ByteVec-unwrapped value (after substitution)"""
    import z3

    if hasattr(x, "unwrap"):
        x = x.unwrap()
    if hasattr(x, "as_z3"):
        x = x.as_z3()
    if isinstance(x, bytes):
        return int.from_bytes(x, "big")
    if isinstance(x, int):
        return x
    if subst:
        x = z3.substitute(x, *subst)
    x = z3.simplify(x)
    if z3.is_bv_value(x):
        return x.as_long()
    return None


def observed_trace(ex):
    """per entered (non-cheatcode) frame in execution order: the CALLER / ORIGIN values the
    frame itself logged; [0] appended when the path is stuck on a HalmosException"""
    from halmos.sevm import CallContext, EventLog

    out = []

    def walk(ctx):
        for t in ctx.trace:
            if isinstance(t, CallContext):
                tgt = as_int(t.message.target)
                if tgt in (HEVM, SVM, CONSOLE):
                    continue
                logs = [as_int(e.data) for e in t.trace if isinstance(e, EventLog)][:2]
                # what the frame's own CALLER/ORIGIN opcodes returned, cross-checked with the message
                msg = [as_int(t.message.caller), as_int(t.message.origin)]
                out.append([1] + (logs if len(logs) == 2 else msg) + ([] if logs == msg or len(logs) < 2 else ["log/message mismatch", msg]))
                walk(t)

    walk(ex.context)
    if ex.context.is_stuck():
        out.append([0])
    return out


def impl_prank_case(ops):
    """run the op sequence on the real SEVM; returns list of traces (one per path)"""
    txs, cur = [[]], 0
    for o in ops:
        if o[0] == "newtx":
            txs.append([o])
        else:
            txs[-1].append(o)
    results = None  # list of (trace, final ex)
    for n, tx in enumerate(txs):
        if n == 0:
            this, sender, origin, body = THIS, SENDER0, ORIGIN0, tx
        else:
            _, this, sender, origin = tx[0]
            body = tx[1:]
        codes = {}
        code, _ = build_frame(body, 0, codes)
        codes[this] = code
        nb = sum(1 for o in body if o[0] == "branch")
        if results is None:
            exs = run_program(codes, this, sender, origin, symbolic_calldata=1 if nb else 0)
            results = [(observed_trace(e), e) for e in exs]
        else:
            new = []
            for tr, e in results:
                if tr and tr[-1] == [0]:
                    new.append((tr, e))
                    continue
                # the second transaction runs on the state left by the first one
                from halmos.bytevec import ByteVec
                from halmos.sevm import Contract, con_addr

                for a, c in codes.items():
                    e.code[con_addr(a)] = Contract(ByteVec(bytes(c)))
                    e.storage.setdefault(con_addr(a), sevm_env()["sevm"].mk_storagedata())
                for e2 in run_second_tx(e, this, sender, origin):
                    t2 = observed_trace(e2)
                    # a stuck path only shows the tail of its own transaction (see same_trace):
                    # keep it a suffix of the whole by dropping the first transaction's part
                    new.append((t2 if (t2 and t2[-1] == [0]) else tr + t2, e2))
            results = new
    return [tr for tr, _ in results]


# ================================================================== L1: the Prank object

def impl_prank_obj(seq):
    import z3

    from halmos.cheatcodes import NO_PRANK, Prank

    def a(v):
        return z3.BitVecVal(v, 160)

    def enc_opt(x):
        return [0, 0] if x is None else [1, x.as_long()]

    def enc_res(r):
        return enc_opt(r.sender) + enc_opt(r.origin)

    p = Prank()
    out = []
    for m in seq:
        if m[0] == 0:
            out.append(int(p.prank(a(m[1]))))
        elif m[0] == 1:
            out.append(int(p.prank(a(m[1]), a(m[2]))))
        elif m[0] == 2:
            out.append(int(p.startPrank(a(m[1]))))
        elif m[0] == 3:
            out.append(int(p.startPrank(a(m[1]), a(m[2]))))
        elif m[0] == 4:
            out.append(int(p.stopPrank()))
        else:
            from halmos.bitvec import HalmosBitVec as BV

            out += enc_res(p.lookup(BV(m[1], size=160)))
        out += enc_res(p.active) + [int(p.keep), int(bool(p))]
    return out


A1, A2, A3 = 0xA1, 0xA2, 0xA3
OBJ_ALPHABET = [(0, A1), (0, A2), (1, A1, A3), (1, A2, A2), (2, A1), (2, A3), (3, A2, A1), (4,),
                (5, A1), (5, 0), (5, HEVM), (5, SVM), (5, CONSOLE)]


def tie_prank_obj(rep, m, tier, r):
    L = 4 if tier == "quick" else 5
    seqs = [list(t) for n in range(1, L + 1) for t in itertools.product(OBJ_ALPHABET, repeat=n)]
    if tier == "quick":
        seqs = seqs[: len(OBJ_ALPHABET) + len(OBJ_ALPHABET) ** 2 + len(OBJ_ALPHABET) ** 3] + r.sample(seqs, 4000)
    impl = [impl_prank_obj(s) for s in seqs]
    bad = 0
    if m is not None:
        res = m.parallel_batch([("c14_prank_obj", [x for meth in s for x in meth]) for s in seqs])
        for s, a, b in zip(seqs, impl, res):
            if a != b:
                bad += 1
                if bad <= 3:
                    rep.fail("broken-tie", f"Prank object and model disagree on method sequence {s}: implementation {a} model {b}",
                             case={"prank_object_sequence": s, "implementation": a, "model": b})
    # object-level invariants of the documented behaviour, checked on the implementation
    for s, a in zip(seqs, impl):
        rep.evaluations += 1
    rep.count("tie", "L1 prank object sequences", len(seqs))
    rep.coverage["L1_prank_object"] = {"sequences": len(seqs), "max_length": L, "alphabet": len(OBJ_ALPHABET),
                                       "exhaustive_up_to": 3 if tier == "quick" else 5}
    return bad


# ================================================================== L2a generators

def gen_prank_ops(r, maxlen, allow_console, p_branch=0.05, two_tx=False):
    """well-formed op sequence; every call target / created account is a fresh address"""
    ops, depth, ncall, ncreate = [], 1, 0, 0
    senders = [A1, A2, A3]
    n = r.randint(1, maxlen)
    while len(ops) < n:
        x = r.random()
        if x < 0.30:
            k = r.choice(["prank", "prank2", "startPrank", "startPrank2"])
            ops.append((k, r.choice(senders)) if not k.endswith("2") else (k, r.choice(senders), r.choice(senders)))
        elif x < 0.38:
            ops.append(("stopPrank",))
        elif x < 0.50:
            ops.append(("cheat", r.choice(["hevm", "svm", "console"] if allow_console else ["hevm", "svm"])))
        elif x < 0.75 and depth < 4:
            if r.random() < 0.25:
                ncreate += 1
                ops.append(("create", 0xAAAA0000 + 1 + ncreate))
            else:
                ncall += 1
                ops.append(("call", r.choice(["call", "call", "static"]), 0xC0000 + ncall))
            depth += 1
        elif x < 0.95 and depth > 1:
            ops.append(("return",))
            depth -= 1
        elif x < 0.95 + p_branch:
            ops.append(("branch",))
    ops = fix_static(ops)
    if two_tx:
        while depth > 1:
            ops.append(("return",))
            depth -= 1
        ops.append(("newtx", 0x2000002, 0x3333, 0x4444))
        tail = gen_prank_ops(r, max(2, maxlen // 2), allow_console, 0.0)
        # keep addresses distinct from the first transaction
        ren = []
        for o in tail:
            if o[0] == "call":
                ren.append(("call", o[1], o[2] + 0x1000))
            elif o[0] == "create":
                ncreate += 1
                ren.append(("create", 0xAAAA0000 + 1 + ncreate))
            else:
                ren.append(o)
        ops += ren
    return ops


def fix_static(ops):
    """inside a static frame only static calls are possible (creations and the state-changing
    cheatcode calls are fine for halmos, but CREATE raises WriteInStaticContext): turn
    creations under a static frame into calls"""
    out, stack = [], [False]
    nfix = 0
    for o in ops:
        if o[0] == "call":
            st = stack[-1] or o[1] == "static"
            out.append(o)
            stack.append(st)
        elif o[0] == "create":
            if stack[-1]:
                nfix += 1
                out.append(("call", "static", 0xD0000 + nfix + len(out)))
            else:
                out.append(o)
            stack.append(stack[-1])
        elif o[0] == "return":
            out.append(o)
            if len(stack) > 1:
                stack.pop()
        else:
            out.append(o)
    # creations renumbered in order of execution (halmos numbers new accounts per path)
    k, ren = 0, []
    for o in out:
        if o[0] == "create":
            k += 1
            ren.append(("create", 0xAAAA0000 + 1 + k))
        else:
            ren.append(o)
    return ren


def normalize(ops):
    """drop what follows a return of a transaction's outermost frame (nothing executes there)
    and number the created accounts in execution order (halmos: magic_address + 1 + n)"""
    out, depth, dead, k = [], 1, False, 0
    for o in ops:
        if o[0] == "newtx":
            depth, dead = 1, False
            out.append(o)
            continue
        if dead:
            continue
        if o[0] == "return":
            if depth == 1:
                dead = True
                continue
            depth -= 1
        elif o[0] == "call":
            depth += 1
        elif o[0] == "create":
            depth += 1
            k += 1
            o = ("create", 0xAAAA0000 + 1 + k)
        out.append(o)
    return out


PRANK_CORPUS = [
    [("prank", A1), ("call", "call", 0xC0001), ("return",), ("call", "call", 0xC0002), ("return",)],
    [("prank", A1), ("cheat", "hevm"), ("cheat", "svm"), ("call", "static", 0xC0001), ("return",)],
    [("prank", A1), ("cheat", "console"), ("call", "call", 0xC0001), ("return",)],
    [("startPrank", A1), ("cheat", "console"), ("call", "call", 0xC0001), ("return",), ("call", "call", 0xC0002)],
    [("prank2", A1, A2), ("call", "call", 0xC0001), ("call", "call", 0xC0002), ("return",), ("return",), ("call", "call", 0xC0003)],
    [("startPrank2", A1, A2), ("call", "call", 0xC0001), ("prank", A3), ("create", 0xAAAA0002), ("return",), ("call", "call", 0xC0002),
     ("return",), ("return",), ("call", "call", 0xC0003), ("return",), ("stopPrank",), ("call", "call", 0xC0004)],
    [("prank", A1), ("prank", A2)],
    [("startPrank", A1), ("call", "call", 0xC0001), ("return",), ("startPrank", A2)],
    [("prank", A1), ("create", 0xAAAA0002), ("call", "call", 0xC0001), ("return",), ("return",), ("create", 0xAAAA0003)],
    [("prank", A1), ("branch",), ("call", "call", 0xC0001), ("return",), ("call", "call", 0xC0002)],
    [("startPrank", A1), ("return",), ("newtx", 0x2000002, 0x3333, 0x4444), ("call", "call", 0xC0001)],
    [("prank", A1), ("newtx", 0x2000002, 0x3333, 0x4444), ("call", "call", 0xC0001), ("return",), ("prank", A2), ("call", "call", 0xC0002)],
    [("call", "call", 0xC0001), ("startPrank", A1), ("return",), ("call", "call", 0xC0002), ("return",)],
    [("stopPrank",), ("prank", A1), ("stopPrank",), ("call", "call", 0xC0001)],
]


def classify_prank(ops):
    kinds = set()
    depth = 1
    for o in ops:
        if o[0] in ("prank", "prank2", "startPrank", "startPrank2"):
            kinds.add("prank@depth>1" if depth > 1 else "prank@top")
            kinds.add(o[0])
        if o[0] in ("call", "create"):
            depth += 1
            kinds.add(o[0] if o[0] == "create" else o[1])
        if o[0] == "return" and depth > 1:
            depth -= 1
            kinds.add("return")
        if o[0] in ("cheat", "newtx", "branch", "stopPrank"):
            kinds.add(o[0] + (":" + o[1] if o[0] == "cheat" else ""))
    return kinds


def tie_prank_sevm(rep, m, tier, r):
    n = 450 if tier == "quick" else 12000
    cases = [list(c) for c in PRANK_CORPUS]
    for i in range(n):
        cases.append(gen_prank_ops(r, r.choice([3, 5, 8, 12, 20]), allow_console=(i % 2 == 0), two_tx=(i % 9 == 0)))
    # exhaustive short sequences over a small alphabet (each call immediately returns or stays open)
    alpha = [("prank", A1), ("prank2", A2, A3), ("startPrank", A1), ("stopPrank",), ("cheat", "hevm"), ("cheat", "console"), ("call",), ("create",), ("return",)]
    L = 4 if tier == "quick" else 5
    for k in range(1, L + 1):
        tuples = list(itertools.product(alpha, repeat=k))
        if tier == "quick" and k == 4:
            tuples = r.sample(tuples, 1500)
        for t in tuples:
            ops, nc = [], 0
            for o in t:
                if o[0] == "call":
                    nc += 1
                    ops.append(("call", "call", 0xC0000 + nc))
                elif o[0] == "create":
                    ops.append(("create", 0))
                else:
                    ops.append(o)
            cases.append(fix_static(ops))
    cases = [normalize(c) for c in cases]
    model = None
    if m is not None:
        model = m.parallel_batch([("c14_prank", [THIS, SENDER0, ORIGIN0] + enc_ops(c)) for c in cases])
    nbad = 0
    paths = 0
    for idx, ops in enumerate(cases):
        kinds = classify_prank(ops)
        for k in kinds:
            rep.count("prank_case_kind", k)
        rep.count("prank_case_len", min(len(ops), 20))
        nontrivial = any(k.startswith("prank") or k.startswith("startPrank") for k in kinds) and ({"call", "static", "create"} & kinds)
        rep.case({"ops": ops}, nontrivial=bool(nontrivial))
        try:
            traces = impl_prank_case(ops)
        except Exception as e:  # noqa: BLE001
            traces = [[f"EXC {type(e).__name__}: {e}"]]
        paths += len(traces)
        spec = spec_trace(ops)
        expect_paths = 2 ** sum(1 for o in ops if o[0] == "branch")
        for tr in traces:
            if not same_trace(tr, spec):
                nbad += 1
                sig = {"defect": "prank_trace", "first_op": ops[0][0] if ops else ""}
                if nbad <= 12:
                    rep.fail("failing-input",
                             f"sender/origin observed by the entered frames differ from Foundry's meaning on op sequence {ops}: implementation {tr} spec {spec}",
                             case={"ops": ops, "implementation": tr, "spec": spec}, sig=sig)
                break
        else:
            # (every branch tests the same symbolic word, so at most two paths exist; each must show the same trace)
            if len(traces) == 0 or len(traces) > max(expect_paths, 1):
                nbad += 1
                rep.fail("broken-tie", f"unexpected number of paths {len(traces)} for {ops}", case={"ops": ops})
        if model is not None:
            mt = split_obs(model[idx])
            for tr in traces:
                if not same_trace(tr, mt) and same_trace(tr, spec):
                    nbad += 1
                    if nbad <= 12:
                        rep.fail("broken-tie", f"model and implementation disagree (spec agrees with implementation) on {ops}: implementation {tr} model {mt}",
                                 case={"ops": ops, "implementation": tr, "model": mt})
                    break
    rep.count("tie", "L2a prank programs", len(cases))
    rep.coverage["L2a_prank_programs"] = {"programs": len(cases), "paths": paths, "exhaustive_short_alphabet": len(alpha), "exhaustive_max_len": 3 if tier == "quick" else L}
    return nbad


# ================================================================== L2b state cheatcodes

BOUND = [0, 1, 2, 31337, 2 ** 64, 2 ** 160 - 1, 2 ** 160, 2 ** 160 + 5, 2 ** 255, 2 ** 256 - 1]
ACCTS = [THIS, 0xB0B, 0xCAFE, 0xD00D]          # THIS, 0xB0B exist (have code); the others do not
FAILED_SLOT = int.from_bytes(b"failed".ljust(32, b"\0"), "big")
BLOCK_CHEATS = {"warp": (4, "TIMESTAMP", 13), "roll": (5, "NUMBER", 14), "fee": (6, "BASEFEE", 15), "chainId": (7, "CHAINID", 16),
                "coinbase": (8, "COINBASE", 17), "difficulty": (9, "DIFFICULTY", 18)}


def gen_state_case(r, n):
    """items: (kind, args...) with args int or ('cd', i) for a symbolic calldata word"""
    items = []
    vals = [r.choice(BOUND + [r.getrandbits(256), r.getrandbits(160), r.getrandbits(8)]) for _ in range(4)]
    vals[3] = r.choice([0, 1, 2 ** 128, 2 ** 128 - 1, r.getrandbits(128), r.getrandbits(64)])

    def word(sym_ok=True):
        if sym_ok and r.random() < 0.3:
            return ("cd", r.randrange(4))
        return r.choice(BOUND + [r.getrandbits(256), r.getrandbits(64)])

    def acct(dirty=True):
        a = r.choice(ACCTS + [r.getrandbits(160)])
        if dirty and r.random() < 0.15:
            a += r.choice([1, 0xFF, 2 ** 95]) << 160
        return a

    for _ in range(n):
        x = r.random()
        if x < 0.14:
            # a symbolic amount is assumed <= MAX_ETH by halmos (path constraint): word 3 stays in that range
            items.append(("deal", acct(), ("cd", 3) if r.random() < 0.3 else word(sym_ok=False)))
        elif x < 0.26:
            items.append(("store", r.choice([acct(), THIS, 0xB0B, 0xB0B]), r.choice([0, 1, 2, 2 ** 256 - 1, r.getrandbits(256)]), word()))
        elif x < 0.34:
            items.append(("load", r.choice([acct(), THIS, 0xB0B]), r.choice([0, 1, 2, 2 ** 256 - 1])))
        elif x < 0.40:
            items.append(("etch", acct(dirty=False) if r.random() < 0.7 else acct(), [r.randrange(256) for _ in range(r.choice([0, 1, 31, 32, 33]))]))
        elif x < 0.64:
            items.append((r.choice(list(BLOCK_CHEATS)), word()))
        elif x < 0.74:
            items.append(("BALANCE", acct()))
        elif x < 0.82:
            items.append(("SLOAD", r.choice([0, 1, 2, 2 ** 256 - 1])))
        elif x < 0.86:
            items.append(("EXTCODESIZE", acct()))
        else:
            items.append((r.choice(["TIMESTAMP", "NUMBER", "BASEFEE", "CHAINID", "COINBASE", "DIFFICULTY"]),))
    return items, vals


STATE_CORPUS = [
    ([("store", THIS, 0, 5), ("store", 0xB0B, 7, 9), ("etch", THIS, [0]), ("etch", 0xB0B, [1, 2]), ("SLOAD", 0), ("load", 0xB0B, 7), ("EXTCODESIZE", 0xB0B)], [0, 0, 0, 0]),
    ([("deal", 0xB0B, 5), ("BALANCE", 0xB0B), ("BALANCE", THIS), ("deal", 0xB0B + (1 << 160), 9), ("BALANCE", 0xB0B)], [0, 0, 0, 0]),
    ([("store", THIS, 1, 77), ("SLOAD", 1), ("SLOAD", 2), ("load", THIS, 1), ("load", 0xCAFE, 1), ("store", 0xCAFE, 1, 2), ("SLOAD", 1)], [0, 0, 0, 0]),
    ([("store", HEVM, FAILED_SLOT, 1), ("TIMESTAMP",)], [0, 0, 0, 0]),
    ([("store", HEVM, FAILED_SLOT, 2), ("TIMESTAMP",)], [0, 0, 0, 0]),
    ([("warp", ("cd", 0)), ("roll", ("cd", 1)), ("fee", 2 ** 256 - 1), ("chainId", 1), ("coinbase", 2 ** 160 + 7), ("difficulty", ("cd", 2)),
      ("TIMESTAMP",), ("NUMBER",), ("BASEFEE",), ("CHAINID",), ("COINBASE",), ("DIFFICULTY",)], [5, 2 ** 255, 9, 0]),
    ([("etch", 0xD00D, [1, 2, 3]), ("EXTCODESIZE", 0xD00D), ("store", 0xD00D, 0, 4), ("load", 0xD00D, 0), ("etch", THIS, []), ("EXTCODESIZE", THIS), ("SLOAD", 0)], [0, 0, 0, 0]),
    ([("deal", THIS, ("cd", 3)), ("BALANCE", THIS), ("deal", 0xB0B, 1), ("BALANCE", THIS), ("BALANCE", 0xB0B)], [0, 0, 0, 12345]),
]


def state_program(items):
    code = b""
    for it in items:
        k = it[0]

        def arg(a):
            return (push(a[1] * 32) + op("CALLDATALOAD")) if isinstance(a, tuple) else a

        if k == "deal":
            code += cheat_call(SEL["deal"], [arg(it[1]), arg(it[2])])
        elif k == "store":
            code += cheat_call(SEL["store"], [arg(it[1]), arg(it[2]), arg(it[3])])
        elif k == "load":
            code += cheat_call(SEL["load"], [arg(it[1]), arg(it[2])], retsize=32) + push(0x80) + op("MLOAD") + LOGTOP
        elif k == "etch":
            data = bytes(it[2])
            words = [int.from_bytes(data[i:i + 32].ljust(32, b"\0"), "big") for i in range(0, len(data), 32)]
            a, n = put_args(SEL["etch"], [arg(it[1]), 0x40, len(data)] + words)
            code += a + do_call("CALL", HEVM, 4 + 96 + len(data), 0)
        elif k in BLOCK_CHEATS:
            code += cheat_call(SEL[k], [arg(it[1])])
        elif k == "BALANCE":
            code += push(it[1], 32) + op("BALANCE") + LOGTOP
        elif k == "SLOAD":
            code += push(it[1], 32) + op("SLOAD") + LOGTOP
        elif k == "EXTCODESIZE":
            code += push(it[1], 32) + op("EXTCODESIZE") + LOGTOP
        elif k == "MARK":
            code += push(it[1], 32) + LOGTOP
        else:
            code += op(k) + LOGTOP
    return code + op("STOP")


def state_model_items(items, vals):
    def v(a):
        return vals[a[1]] if isinstance(a, tuple) else a

    out = []
    for it in items:
        k = it[0]
        if k == "deal":
            out += [0, v(it[1]), v(it[2])]
        elif k == "store":
            out += [1, v(it[1]), v(it[2]), v(it[3])]
        elif k == "load":
            out += [2, v(it[1]), v(it[2])]
        elif k == "etch":
            out += [3, v(it[1]), len(it[2])] + list(it[2])
        elif k in BLOCK_CHEATS:
            out += [BLOCK_CHEATS[k][0], v(it[1])]
        elif k == "BALANCE":
            out += [10, it[1]]
        elif k == "SLOAD":
            out += [11, THIS, it[1]]
        elif k == "EXTCODESIZE":
            out += [12, it[1]]
        elif k == "MARK":
            out += [19, it[1]]
        else:
            out += [{"TIMESTAMP": 13, "NUMBER": 14, "BASEFEE": 15, "CHAINID": 16, "COINBASE": 17, "DIFFICULTY": 18}[k]]
    return out


def state_model_call(items, vals, init_block):
    return list(init_block) + [2, THIS, 0xB0B] + state_model_items(items, vals)


def state_spec(items, vals, init_block):
    """independent rendering: what subsequent reads must return (Foundry), as the flat list
    the model prints: 1 per cheat, [1, v] per load, v per read; 0 / 2 end the run"""
    return state_spec_status(items, vals, init_block)[0]


def state_spec_status(items, vals, init_block):
    """(the list, index of the item that ended the run with a refusal or None)"""
    def v(a):
        return vals[a[1]] if isinstance(a, tuple) else a

    M160 = 2 ** 160 - 1
    MAX_ETH = 1 << 128
    bal, sto, code = {}, {}, {THIS: None, 0xB0B: 1}   # None: size of the test program itself, not compared
    blk = dict(zip(["BASEFEE", "CHAINID", "COINBASE", "DIFFICULTY", "NUMBER", "TIMESTAMP"], init_block))
    out = []
    for idx, it in enumerate(items):
        k = it[0]
        if k == "deal":
            bal[v(it[1]) & M160] = (v(it[2]), isinstance(it[2], tuple))
            out.append(1)
        elif k == "store":
            if (v(it[1]), v(it[2]), v(it[3])) == (HEVM, FAILED_SLOT, 1):
                return out + [2], idx   # DSTest.fail(): the test fails
            if (v(it[1]) & M160) not in code:
                return out + [0], idx   # halmos refuses vm.store on an account without code (fail-stop, not a wrong value)
            sto[(v(it[1]) & M160, v(it[2]))] = v(it[3])
            out.append(1)
        elif k == "load":
            out += [1, sto.get((v(it[1]) & M160, v(it[2])), 0)]
        elif k == "etch":
            code[v(it[1]) & M160] = len(it[2])
            out.append(1)
        elif k in BLOCK_CHEATS:
            x = v(it[1])
            blk[BLOCK_CHEATS[k][1]] = (x & M160) if k == "coinbase" else x
            out.append(1)
        elif k == "BALANCE":
            val, symbolic = bal.get(it[1] & M160, (0, False))
            if val > MAX_ETH and not symbolic:
                return out + [0], idx   # halmos refuses concrete balances above MAX_ETH = 2^128 (fail-stop; stated in the assumptions)
            out.append(val)
        elif k == "SLOAD":
            out.append(sto.get((THIS, it[1]), 0))
        elif k == "EXTCODESIZE":
            a = it[1] & M160
            out.append(code[a] if a in code else 0)
        elif k == "MARK":
            out.append(it[1])
        else:
            out.append(blk[k])
    return out, None


def impl_state_case(items, vals):
    import z3

    code = state_program(items)
    exs = run_program({THIS: code, 0xB0B: op("STOP")}, symbolic_calldata=4)
    subst = [(z3.BitVec(f"cd{i}", 256), z3.BitVecVal(vals[i], 256)) for i in range(4)]
    res = []
    for ex in exs:
        from halmos.sevm import CallContext, EventLog

        out = []
        for t in ex.context.trace:
            if isinstance(t, CallContext):
                tgt = as_int(t.message.target)
                if tgt == HEVM:
                    if t.output.data is not None and len(t.output.data) == 32:
                        out.append(1)  # load: value follows as a log
                    else:
                        out.append(1)
            elif isinstance(t, EventLog):
                val = as_int(t.data, subst)
                out.append(val if val is not None else "unevaluated")
        err = ex.context.output.error
        if ex.context.is_stuck() or err is not None:
            name = type(err).__name__
            out.append(2 if name == "FailCheatcode" else 0)
            out.append(name)
        res.append(out)
    return res, len(code)


def tie_state(rep, m, tier, r):
    from halmos.__main__ import mk_block

    b = mk_block()
    init_block = [as_int(b.basefee), as_int(b.chainid), as_int(b.coinbase), as_int(b.difficulty), as_int(b.number), as_int(b.timestamp)]
    n = 350 if tier == "quick" else 6000
    cases = [(list(i), list(v)) for i, v in STATE_CORPUS] + [gen_state_case(r, r.choice([2, 4, 8, 14])) for _ in range(n)]
    model = None
    if m is not None:
        model = m.parallel_batch([("c14_state", state_model_call(i, v, init_block)) for i, v in cases])
    nbad = 0
    for idx, (items, vals) in enumerate(cases):
        for it in items:
            rep.count("state_item", it[0] + (":symbolic" if any(isinstance(a, tuple) for a in it[1:]) else ""))
        rep.case({"state_items": items, "calldata_values": vals},
                 nontrivial=any(it[0].islower() for it in items) and any(it[0].isupper() or it[0] == "load" for it in items))
        try:
            res, _ = impl_state_case(items, vals)
        except Exception as e:  # noqa: BLE001
            res = [[f"EXC {type(e).__name__}: {e}"]]
        spec = state_spec(items, vals, init_block)
        if len(res) != 1:
            nbad += 1
            rep.fail("broken-tie", f"state program produced {len(res)} paths: {items}", case={"state_items": items})
            continue
        got = res[0]
        errname = None
        if got and isinstance(got[-1], str) and not got[-1].startswith("EXC") and got[-1] != "unevaluated":
            errname = got[-1]
            got = got[:-1]
        # the model prints -1 for EXTCODESIZE of an account without code; the EVM reads 0
        norm = lambda l: [0 if x == -1 else x for x in l]  # noqa: E731
        sp = spec
        ok = len(got) == len(sp) and all(b is None or a == b for a, b in zip(got, sp))
        if not ok:
            nbad += 1
            if nbad <= 10:
                rep.fail("failing-input", f"reads after state cheatcodes differ from the supplied values: items {items} calldata {vals}: implementation {got} ({errname}) expected {sp}",
                         case={"state_items": items, "calldata_values": vals, "implementation": got, "spec": sp}, sig={"defect": "state_cheatcode", "first": items[0][0]})
            continue
        if model is not None:
            mo = norm(model[idx] or [])
            if len(mo) != len(got) or any(b is not None and a != c for a, b, c in zip(got, sp, mo)):
                nbad += 1
                if nbad <= 10:
                    rep.fail("broken-tie", f"state model and implementation disagree on {items} {vals}: implementation {got} model {mo}",
                             case={"state_items": items, "implementation": got, "model": mo})
    rep.count("tie", "L2b state programs", len(cases))
    rep.coverage["L2b_state_programs"] = {"programs": len(cases)}
    return nbad


def path_output(ex, subst):
    """what one finished path printed, in the format of the model (see impl_state_case)"""
    from halmos.sevm import CallContext, EventLog

    out = []
    for t in ex.context.trace:
        if isinstance(t, CallContext):
            if as_int(t.message.target) == HEVM:
                out.append(1)
        elif isinstance(t, EventLog):
            val = as_int(t.data, subst)
            out.append(val if val is not None else "unevaluated")
    err = ex.context.output.error
    if ex.context.is_stuck() or err is not None:
        out.append(2 if type(err).__name__ == "FailCheatcode" else 0)
    return out


# A program tree: a list of items, optionally ended by ("FORK", fall_tree, jump_tree) -- a JUMPI
# on the calldata word number `depth` (symbolic, unconstrained: both sides are feasible).
MARK0 = 0xF00D0000


def asm_tree(tree, base=0, depth=0):
    code = b""
    for node in tree:
        if node[0] == "FORK":
            head = push(32 * depth) + op("CALLDATALOAD")
            at = base + len(code) + len(head) + 4                  # PUSH2 xx xx JUMPI
            fall = asm_tree(node[1], at, depth + 1)
            target = at + len(fall)
            jump = op("JUMPDEST") + asm_tree(node[2], target + 1, depth + 1)
            return code + head + bytes([0x61]) + target.to_bytes(2, "big") + op("JUMPI") + fall + jump
        code += state_program([node])[:-1]
    return code + op("STOP")


def enc_tree(tree, vals):
    out = []
    for node in tree:
        if node[0] == "FORK":
            return out + [20] + enc_tree(node[1], vals) + enc_tree(node[2], vals)
        out += state_model_items([node], vals)
    return out + [21]


def tree_paths(tree, prefix=()):
    """root-to-leaf item sequences, fall-through side first"""
    items = list(prefix)
    for node in tree:
        if node[0] == "FORK":
            return tree_paths(node[1], items) + tree_paths(node[2], items)
        items.append(node)
    return [items]


def spec_tree(tree, vals, init_block):
    """independent rendering of C14 on a program with branches: every path reads exactly what
    was supplied on ITS OWN root-to-leaf sequence (a path refused before a branch is one path)"""
    outs = []
    for items in tree_paths(tree):
        o, stop = state_spec_status(items, vals, init_block)
        key = (tuple(o), None if stop is None else tuple(map(repr, items[:stop + 1])))
        if stop is not None and any(k == key for k, _ in outs):
            continue            # the same refused prefix, seen from another leaf below it
        outs.append((key, o))
    return [o for _, o in outs]


def tree_stats(tree, depth=0):
    nf, md = 0, depth
    for node in tree:
        if node[0] == "FORK":
            for sub in node[1:]:
                a, b = tree_stats(sub, depth + 1)
                nf, md = nf + a, max(md, b)
            nf += 1
    return nf, md


def gen_fork_tree(r, depth, counter, kinds):
    """items (state cheatcodes with concrete or cd3-symbolic words, reads), then maybe a fork"""
    def word():
        if r.random() < 0.15:
            return ("cd", 3)
        return r.choice([0, 1, 5, 2 ** 64, 2 ** 160 + 7, 2 ** 256 - 1, r.getrandbits(64), r.getrandbits(256)])

    def one():
        k = r.choice(kinds)
        if k == "block":
            return (r.choice(list(BLOCK_CHEATS)), word())
        if k == "blockread":
            return (r.choice(["TIMESTAMP", "NUMBER", "BASEFEE", "CHAINID", "COINBASE", "DIFFICULTY"]),)
        if k == "store":
            return ("store", r.choice([THIS, THIS, 0xB0B, 0xCAFE]), r.choice([0, 1, 2]), word())
        if k == "sload":
            return ("SLOAD", r.choice([0, 1, 2]))
        if k == "load":
            return ("load", r.choice([THIS, 0xB0B, 0xCAFE]), r.choice([0, 1, 2]))
        if k == "deal":
            return ("deal", r.choice([THIS, 0xB0B, 0xD00D]), r.choice([0, 1, 2 ** 128, r.getrandbits(100), ("cd", 3)]))
        if k == "balance":
            return ("BALANCE", r.choice([THIS, 0xB0B, 0xD00D]))
        if k == "etch":
            return ("etch", r.choice([0xB0B, 0xCAFE, 0xD00D]), [r.randrange(256) for _ in range(r.choice([0, 1, 3, 33]))])
        return ("EXTCODESIZE", r.choice([0xB0B, 0xCAFE, 0xD00D]))

    tree = [one() for _ in range(r.randrange(0, 4))]
    if depth < 3 and r.random() < (0.95 if depth == 0 else 0.45):
        counter[0] += 2
        m = counter[0]
        fall = [("MARK", MARK0 + m)] + gen_fork_tree(r, depth + 1, counter, kinds)
        jump = [("MARK", MARK0 + m + 1)] + gen_fork_tree(r, depth + 1, counter, kinds)
        tree.append(("FORK", fall, jump))
    else:
        # every path ends reading back everything it could have been told
        tree += [("TIMESTAMP",), ("NUMBER",), ("BASEFEE",), ("CHAINID",), ("COINBASE",), ("DIFFICULTY",)] if "block" in kinds else []
        tree += [("SLOAD", 0), ("SLOAD", 1), ("load", 0xB0B, 1)] if "store" in kinds else []
        tree += [("BALANCE", 0xB0B), ("BALANCE", THIS)] if "deal" in kinds else []
        tree += [("EXTCODESIZE", 0xCAFE), ("EXTCODESIZE", 0xB0B)] if "etch" in kinds else []
    return tree


def _fork3(P, A, B):
    return list(P) + [("FORK", [("MARK", MARK0 + 1)] + list(A), [("MARK", MARK0 + 2)] + list(B))]


FORK_CORPUS = [
    _fork3([("warp", 100), ("roll", 7), ("chainId", 5)], [("warp", 300), ("roll", 9), ("chainId", 11), ("TIMESTAMP",)], [("TIMESTAMP",), ("NUMBER",), ("CHAINID",)]),
    _fork3([("fee", 3)], [("BASEFEE",), ("fee", 4), ("BASEFEE",)], [("fee", 8), ("coinbase", 0xB0B), ("BASEFEE",), ("COINBASE",)]),
    _fork3([("store", THIS, 1, 5)], [("store", THIS, 1, 6), ("SLOAD", 1)], [("SLOAD", 1), ("deal", 0xB0B, 9), ("BALANCE", 0xB0B)]),
    _fork3([("store", 0xB0B, 1, 5)], [("store", 0xB0B, 1, 6), ("store", 0xB0B, 2, 7)], [("load", 0xB0B, 1), ("load", 0xB0B, 2)]),
    _fork3([], [("etch", 0xCAFE, [1, 2, 3]), ("store", 0xCAFE, 0, 4)], [("EXTCODESIZE", 0xCAFE), ("load", 0xCAFE, 0), ("store", 0xCAFE, 0, 4)]),
    _fork3([("deal", 0xB0B, 5)], [("deal", 0xB0B, 6), ("BALANCE", 0xB0B)], [("BALANCE", 0xB0B)]),
    # the fall-through side is refused; the jump side is untouched by it
    _fork3([("warp", 1)], [("warp", 2), ("store", 0xCAFE, 0, 1), ("TIMESTAMP",)], [("TIMESTAMP",)]),
    # three levels: the innermost fall-through paths run first
    [("warp", 1), ("FORK", [("MARK", MARK0 + 1), ("roll", 2), ("FORK", [("MARK", MARK0 + 3), ("warp", 3), ("fee", 3), ("FORK", [("MARK", MARK0 + 5), ("warp", 5), ("roll", 5)], [("MARK", MARK0 + 6), ("TIMESTAMP",), ("NUMBER",), ("BASEFEE",)])],
                                    [("MARK", MARK0 + 4), ("TIMESTAMP",), ("NUMBER",), ("BASEFEE",)])],
                  [("MARK", MARK0 + 2), ("TIMESTAMP",), ("NUMBER",), ("BASEFEE",), ("FORK", [("MARK", MARK0 + 7), ("chainId", 9)], [("MARK", MARK0 + 8), ("CHAINID",)])])],
]


def dec_fork_model(flat):
    """c14_fork output -> (kinds, paths of the worklist run, paths of the value semantics)"""
    kinds, i, lists = flat[:3], 3, []
    for _ in range(2):
        n = flat[i]
        i += 1
        ps = []
        for _ in range(n):
            ln = flat[i]
            ps.append(flat[i + 1:i + 1 + ln])
            i += 1 + ln
        lists.append(ps)
    return kinds, lists[0], lists[1]


def impl_fork_case(tree, vals):
    import z3

    code = asm_tree(tree)
    exs = run_program({THIS: code, 0xB0B: op("STOP")}, symbolic_calldata=4)
    subst = [(z3.BitVec("cd3", 256), z3.BitVecVal(vals[3], 256))]
    return [path_output(ex, subst) for ex in exs]


def tie_state_fork(rep, m, tier, r):
    """isolation of the state cheatcodes between sibling paths: after symbolic forks (nested up
    to three deep) each path must read exactly what was supplied on ITS path.  Real SEVM vs
    python spec (failing input) and vs the extracted worklist model with object identity."""
    from halmos.__main__ import mk_block

    b = mk_block()
    init_block = [as_int(b.basefee), as_int(b.chainid), as_int(b.coinbase), as_int(b.difficulty), as_int(b.number), as_int(b.timestamp)]
    cases = [(t, [0, 0, 0, 0]) for t in FORK_CORPUS]
    profiles = [["block", "blockread"], ["block", "blockread", "block"], ["store", "sload", "load"], ["deal", "balance"], ["etch", "codesize", "store", "load"],
                ["block", "blockread", "store", "sload", "load", "deal", "balance", "etch", "codesize"]]
    n = 140 if tier == "quick" else 3000
    for i in range(n):
        vals = [0, 0, 0, r.choice([0, 1, 2 ** 128, r.getrandbits(100)])]
        cases.append((gen_fork_tree(r, 0, [10], profiles[i % len(profiles)]), vals))
    model = None
    if m is not None:
        model = m.parallel_batch([("c14_fork", list(init_block) + [2, THIS, 0xB0B] + enc_tree(t, v)) for t, v in cases])
    nbad = 0
    norm = lambda l: [0 if x == -1 else x for x in l]  # noqa: E731  (EXTCODESIZE of a missing account: model -1, EVM 0)
    npaths = 0
    for idx, (tree, vals) in enumerate(cases):
        nf, md = tree_stats(tree)
        rep.count("fork_tree_forks", min(nf, 7))
        rep.count("fork_tree_depth", md)
        rep.case({"fork_tree": tree, "calldata_values": vals}, nontrivial=nf > 0)
        try:
            impl = impl_fork_case(tree, vals)
        except Exception as e:  # noqa: BLE001
            impl = [[f"EXC {type(e).__name__}: {e}"]]
        npaths += len(impl)
        spec = spec_tree(tree, vals, init_block)
        key = lambda o: [str(x) for x in o]  # noqa: E731
        if sorted(impl, key=key) != sorted(spec, key=key):
            nbad += 1
            wrong = [o for o in impl if o not in spec]
            missing = [o for o in spec if o not in impl]
            note = ""
            if model is not None and model[idx]:
                kinds, mrun, _ = dec_fork_model(model[idx])
                same = sorted([norm(o) for o in mrun], key=key) == sorted(impl, key=key)
                note = (f"; the worklist model with the regenerated create_branch kinds (block copied, storage deep-copied, code copied) = {kinds} "
                        + ("predicts exactly these outputs" if same else "does not predict these outputs"))
            if nbad <= 6:
                rep.fail("failing-input",
                         f"state cheatcodes are not confined to the path that executed them: program tree {tree} (calldata word 3 = {vals[3]}): "
                         f"path(s) read {wrong}; supplied on their own path: {missing}{note}",
                         case={"fork_tree": tree, "calldata_values": vals, "implementation": impl, "spec": spec},
                         sig={"defect": "state_cheatcode_sibling_leak"})
            continue
        if model is not None:
            mo = model[idx]
            if not mo:
                nbad += 1
                rep.fail("broken-tie", f"the fork model produced no output for {tree}", case={"fork_tree": tree})
                continue
            kinds, mrun, mspec = dec_fork_model(mo)
            mrun = [norm(o) for o in mrun]
            # (the model also fixes the completion order -- LIFO worklist, fall-through side first --
            #  but the order in which halmos explores paths is not part of C14: compare as multisets)
            if sorted(mrun, key=key) != sorted(impl, key=key):
                nbad += 1
                if nbad <= 6:
                    rep.fail("broken-tie", f"worklist model (create_branch kinds {kinds}) and implementation disagree on {tree}: implementation {impl} model {mrun}",
                             case={"fork_tree": tree, "calldata_values": vals, "implementation": impl, "model": mrun})
    rep.count("tie", "L2b fork state programs", len(cases))
    rep.coverage["L2b_fork_programs"] = {"programs": len(cases), "paths": npaths, "max_nesting": 3}
    return nbad


# ================================================================== L1c creators

def _enc_str(s):
    b = s.encode()
    return len(b).to_bytes(32, "big") + b.ljust((len(b) + 31) // 32 * 32, b"\0")


class FakeEx:
    """the two things the creators use from an Exec: the symbol counter and the path"""

    def __init__(self, cnt):
        self.cnt = cnt
        self.conds = []
        ex = self

        class P:
            def append(self, c, branching=False):
                ex.conds.append(c)

        self.path = P()

    def new_symbol_id(self):
        self.cnt += 1
        return self.cnt


SVM_SIGS = {
    "createUint(uint256,string)": "us", "createUint256(string)": "s", "createUint256(string,uint256,uint256)": "suu",
    "createInt(uint256,string)": "us", "createInt256(string)": "s", "createBytes(uint256,string)": "us",
    "createString(uint256,string)": "us", "createBytes4(string)": "s", "createBytes32(string)": "s",
    "createAddress(string)": "s", "createBool(string)": "s",
}
RANDOM_SIGS = {
    "randomInt()": "", "randomInt(uint256)": "u", "randomUint()": "", "randomUint(uint256)": "u", "randomUint(uint256,uint256)": "uu",
    "randomAddress()": "", "randomBool()": "", "randomBytes(uint256)": "u", "randomBytes4()": "", "randomBytes8()": "",
}
# Solidity return type of each signature (halmos-cheatcodes SVM.sol / forge-std Vm.sol)
RET_TYPE = {
    "createUint(uint256,string)": ("uint", None), "createUint256(string)": ("uint", 256), "createUint256(string,uint256,uint256)": ("uintmm", 256),
    "createInt(uint256,string)": ("int", None), "createInt256(string)": ("int", 256), "createBytes(uint256,string)": ("bytes", None),
    "createString(uint256,string)": ("string", None), "createBytes4(string)": ("bytesN", 4), "createBytes32(string)": ("bytesN", 32),
    "createAddress(string)": ("uint", 160), "createBool(string)": ("uint", 1),
    "randomInt()": ("int", 256), "randomInt(uint256)": ("int", None), "randomUint()": ("uint", 256), "randomUint(uint256)": ("uint", None),
    "randomUint(uint256,uint256)": ("uintmm", 256), "randomAddress()": ("uint", 160), "randomBool()": ("uint", 1),
    "randomBytes(uint256)": ("bytes", None), "randomBytes4()": ("bytesN", 4), "randomBytes8()": ("bytesN", 8),
}
RANDOM_NAME = {"randomInt()": "vmRandomInt", "randomInt(uint256)": "vmRandomInt", "randomUint()": "vmRandomUint", "randomUint(uint256)": "vmRandomUint",
               "randomUint(uint256,uint256)": "vmRandomUint", "randomAddress()": "vmRandomAddress", "randomBool()": "vmRandomBool",
               "randomBytes(uint256)": "vmRandomBytes", "randomBytes4()": "vmRandomBytes4", "randomBytes8()": "vmRandomBytes8"}
TYPE_NAME = {"createAddress(string)": "address", "createBool(string)": "bool", "randomAddress()": "address", "randomBool()": "bool"}


def keccak_sel(sig):
    from eth_hash.auto import keccak

    return int.from_bytes(keccak(sig.encode())[:4], "big")


def creator_calldata(sig, shape, a1, a2, name):
    sel = keccak_sel(sig)
    head, tail = b"", b""
    nargs = len(shape)
    nums = [a1, a2]
    for ch in shape:
        if ch == "u":
            head += nums.pop(0).to_bytes(32, "big")
        else:
            head += (32 * nargs + len(tail)).to_bytes(32, "big")
            tail += _enc_str(name)
    return sel, sel.to_bytes(4, "big") + head + tail


def impl_creator(mode, sig, shape, cnt, a1, a2, name, vals):
    """returns dict(status, cnt, len, values(list per valuation), conds(list per valuation), syms[(id,width,type,name)])"""
    import z3

    from halmos.bytevec import ByteVec
    from halmos.cheatcodes import halmos_cheat_code, hevm_cheat_code
    from halmos.exceptions import HalmosException

    sel, cd = creator_calldata(sig, shape, a1, a2, name)
    ex = FakeEx(cnt)
    try:
        if mode == 0:
            ret = halmos_cheat_code.handle(None, ex, ByteVec(cd), None)
            assert isinstance(ret, list) and len(ret) == 1
            ret = ret[0]
        else:
            ret = hevm_cheat_code.handle(None, ex, ByteVec(cd), None)
    except HalmosException:
        return {"status": 2, "cnt": ex.cnt}
    except (TypeError, AttributeError):
        return {"status": 3, "cnt": ex.cnt}
    term = ret.unwrap() if len(ret) else b""
    syms = []
    if not isinstance(term, bytes):
        seen = {}

        def walk(t):
            if z3.is_const(t) and t.decl().kind() == z3.Z3_OP_UNINTERPRETED:
                seen[str(t)] = t
            for c in t.children():
                walk(c)

        walk(term)
        for nm, t in seen.items():
            mm = re.fullmatch(r"halmos_(.*)_([A-Za-z0-9]+)_([0-9a-f]{7})_(\d+)", nm)
            syms.append((int(mm.group(4)), t.size(), mm.group(2), mm.group(1), mm.group(4), t) if mm else (None, t.size(), nm, "", "", t))
    values, conds = [], []
    for v in vals:
        sub = [(s[5], z3.BitVecVal(v, s[1])) for s in syms]
        if isinstance(term, bytes):
            values.append(int.from_bytes(term, "big"))
        else:
            values.append(z3.simplify(z3.substitute(term, *sub)).as_long())
        conds.append([int(z3.is_true(z3.simplify(z3.substitute(c, *sub)))) for c in ex.conds])
    return {"status": 1, "cnt": ex.cnt, "len": len(ret), "values": values, "conds": conds,
            "syms": [s[:5] for s in syms]}


def spec_creator(sig, a1, a2, v):
    """Solidity meaning of the returned value for symbol value v (taken modulo its width):
    (length in bytes, value as integer of that many bytes) or 'revert' """
    kind, w = RET_TYPE[sig]
    if kind in ("uint", "int"):
        n = a1 if w is None else w
        if n > 256:
            return "revert"
        if n == 0:
            return "outside"                     # width 0 is not a Solidity type
        x = v % (1 << n)
        if kind == "int" and x >= 1 << (n - 1):
            x += (1 << 256) - (1 << n)
        return (32, x)
    if kind == "uintmm":
        if a1 > a2:
            return "revert"
        return (32, v % (1 << 256))
    if kind == "bytesN":
        return (32, (v % (1 << (8 * w))) << (8 * (32 - w)))
    n = a1
    head = (32 << 256) + n                       # offset 32, then the length, 32 bytes each
    return (64 + n, (head << (8 * n)) + (v % (1 << (8 * n)) if n else 0))


def tie_creators(rep, m, tier, r):
    widths = list(range(0, 258)) + [300, 2 ** 255]
    sizes = [0, 1, 31, 32, 33, 64] + ([] if tier == "quick" else [2, 65, 100, 1024])
    cases = []
    for table, mode in ((SVM_SIGS, 0), (RANDOM_SIGS, 1)):
        for sig, shape in table.items():
            kind, w = RET_TYPE[sig]
            if kind in ("uint", "int") and w is None:
                args = [(n, 0) for n in widths]
            elif kind in ("bytes", "string"):
                args = [(n, 0) for n in sizes]
            elif kind == "uintmm":
                args = [(0, 0), (0, 2 ** 256 - 1), (5, 5), (5, 4), (1, 2 ** 255), (2 ** 256 - 1, 2 ** 256 - 1), (10, 20)]
                args += [tuple(sorted((r.getrandbits(256), r.getrandbits(r.choice([8, 256]))))) for _ in range(6)] + [(7, 3)]
            else:
                args = [(0, 0)]
            for a1, a2 in args:
                cases.append((mode, sig, shape, r.choice([0, 1, 8, 9, 10, 98, 99, 100, 12345]), a1, a2, r.choice(["x", "my var", "a_b", "x y  z"])))
    nbad = 0
    calls = []
    plan = []
    for c in cases:
        mode, sig, shape, cnt, a1, a2, name = c
        kind, w = RET_TYPE[sig]
        n = (a1 if w is None else w) if kind in ("uint", "int") else (256 if kind == "uintmm" else (8 * w if kind == "bytesN" else 8 * a1))
        n = min(max(n, 1), 8 * 1024 + 8)
        vals = sorted({0, 1, (1 << n) - 1, 1 << (n - 1), (1 << (n - 1)) - 1 if n > 1 else 0, r.getrandbits(n), r.getrandbits(n)})
        if kind == "uintmm":
            vals = sorted(set(vals) | {a1, a2, max(a1 - 1, 0), min(a2 + 1, 2 ** 256 - 1)})
        plan.append(vals)
        sel = keccak_sel(sig)
        for v in vals:
            calls.append(("c14_creator", [mode, sel, cnt, a1, a2, v]))
    model = m.parallel_batch(calls) if m is not None else None
    pos = 0
    labels = []
    for c, vals in zip(cases, plan):
        mode, sig, shape, cnt, a1, a2, name = c
        kind, w = RET_TYPE[sig]
        rep.count("creator", sig)
        rep.case({"creator": sig, "a1": a1, "a2": a2, "counter": cnt, "name": name}, nontrivial=True)
        try:
            im = impl_creator(mode, sig, shape, cnt, a1, a2, name, vals)
        except Exception as e:  # noqa: BLE001
            im = {"status": f"EXC {type(e).__name__}: {e}"}
        # ---- spec vs implementation
        problems = []
        sp0 = spec_creator(sig, a1, a2, 0)
        zero_width = kind in ("uint", "int") and w is None and a1 == 0
        if zero_width:
            pass  # width 0 is outside the property (1..256); halmos crashes with a python exception (modelled)
        elif sp0 == "revert":
            if im["status"] != 2:
                problems.append(f"expected a HalmosException, got status {im['status']}")
        elif im["status"] != 1:
            problems.append(f"expected a value, got status {im['status']}")
        else:
            for i, v in enumerate(vals):
                ln, val = spec_creator(sig, a1, a2, v)
                if im["len"] != ln or im["values"][i] != val:
                    problems.append(f"value for symbol={v:#x}: implementation len={im['len']} value={im['values'][i]:#x} expected len={ln} value={val:#x}")
                    break
                if kind == "uintmm":
                    inr = a1 <= v % 2 ** 256 <= a2
                    if (all(im["conds"][i]) and len(im["conds"][i]) >= 1) != inr:
                        problems.append(f"range constraints for symbol={v}: implementation {im['conds'][i]} expected in-range={inr}")
                        break
                elif im["conds"][i]:
                    problems.append("unexpected path constraints")
                    break
            nsym = 0 if (kind in ("bytes", "string") and a1 == 0) else 1
            exp_w = (a1 if w is None else w) if kind in ("uint", "int") else (256 if kind == "uintmm" else (8 * w if kind == "bytesN" else 8 * a1))
            if len(im["syms"]) != nsym:
                problems.append(f"expected {nsym} fresh symbol(s), found {len(im['syms'])}")
            elif nsym:
                sid, sw, sty, snm, sidtxt = im["syms"][0]
                exp_name = re.sub(r"\s+", "_", name) if mode == 0 else RANDOM_NAME[sig]
                exp_ty = TYPE_NAME.get(sig) or ({"uint": "uint", "int": "int", "uintmm": "uint"}[kind] + str(exp_w) if kind in ("uint", "int", "uintmm") else (kind if kind in ("bytes", "string") else f"bytes{w}"))
                if (sid, sw, sty, snm) != (cnt + 1, exp_w, exp_ty, exp_name):
                    problems.append(f"symbol (id,width,type,name)={(sid, sw, sty, snm)} expected {(cnt + 1, exp_w, exp_ty, exp_name)}")
                if sidtxt != f"{cnt + 1:02d}":
                    problems.append(f"counter rendered as {sidtxt!r}, expected {cnt + 1:02d}")
                labels.append((cnt + 1, snm, sty))
            if im["cnt"] != cnt + nsym:
                problems.append(f"symbol counter {im['cnt']} expected {cnt + nsym}")
        if problems:
            nbad += 1
            if nbad <= 10:
                rep.fail("failing-input", f"{sig} with args ({a1},{a2}) counter {cnt} name {name!r}: {problems[0]}",
                         case={"creator": sig, "a1": a1, "a2": a2, "counter": cnt, "name": name, "problems": problems[:3]}, sig={"defect": "creator", "sig": sig})
            pos += len(vals)
            continue
        # ---- model vs implementation
        if model is not None:
            for i, v in enumerate(vals):
                mo = model[pos + i]
                if mo is None or not mo or mo[0] != im["status"] or mo[1] != im["cnt"]:
                    bad = f"status/counter: model {mo[:2] if mo else mo} implementation {(im['status'], im['cnt'])}"
                elif mo[0] == 1:
                    nc = mo[4]
                    holds = mo[5:5 + nc]
                    rest = mo[5 + nc:]
                    ns = rest[0]
                    msyms = []
                    q = 1
                    for _ in range(ns):
                        sid, sw, tl = rest[q], rest[q + 1], rest[q + 2]
                        msyms.append((sid, sw, "".join(map(chr, rest[q + 3:q + 3 + tl]))))
                        q += 3 + tl
                    mname = "".join(map(chr, rest[q + 1:q + 1 + rest[q]])) if mode == 1 else None
                    isyms = [(s[0], s[1], s[2]) for s in im["syms"]]
                    bad = None
                    if (mo[2], mo[3]) != (im["len"], im["values"][i]):
                        bad = f"value: model {(mo[2], hex(mo[3]))} implementation {(im['len'], hex(im['values'][i]))}"
                    elif holds != im["conds"][i]:
                        bad = f"constraints: model {holds} implementation {im['conds'][i]}"
                    elif msyms != isyms:
                        bad = f"symbols: model {msyms} implementation {isyms}"
                    elif mode == 1 and im["syms"] and mname != im["syms"][0][3]:
                        bad = f"variable name: model {mname} implementation {im['syms'][0][3]}"
                else:
                    bad = None
                if bad:
                    nbad += 1
                    if nbad <= 10:
                        rep.fail("broken-tie", f"creator model and implementation disagree on {sig} ({a1},{a2}) cnt={cnt} v={v}: {bad}",
                                 case={"creator": sig, "a1": a1, "a2": a2, "counter": cnt, "v": v, "detail": bad})
                    break
        pos += len(vals)
    # label rendering: model vs python format string, uid fixed
    if m is not None and labels:
        lab = sorted(set(labels))[:400] + [(i, "n", "uint8") for i in (0, 1, 9, 10, 11, 99, 100, 101, 1000, 10 ** 6)]
        res = m.parallel_batch([("c14_label", [i, len(nm)] + [ord(ch) for ch in nm] + [len(ty)] + [ord(ch) for ch in ty] + [7] + [ord(ch) for ch in "abcdef0"]) for i, nm, ty in lab])
        for (i, nm, ty), out in zip(lab, res):
            exp = f"halmos_{nm}_{ty}_abcdef0_{i:>02}"
            if out is None or "".join(map(chr, out)) != exp:
                nbad += 1
                rep.fail("broken-tie", f"label model {''.join(map(chr, out or []))!r} != python format {exp!r}", case={"label": [i, nm, ty]})
    # freshness on the implementation: one path, many creations, all names distinct, ids consecutive
    nbad += impl_fresh_run(rep, r)
    nbad += impl_fresh_sevm(rep)
    rep.count("tie", "L1c creator calls", len(cases))
    rep.coverage["L1c_creators"] = {"calls": len(cases), "valuations": len(calls), "widths": "0..257, 300, 2^255", "byte_sizes": sizes}
    return nbad


def impl_fresh_sevm(rep):
    """symbols created by svm.create* / vm.random* calls of one program on the real SEVM
    (real Exec.new_symbol_id): names pairwise distinct, counters 1..n in order"""
    import z3

    from halmos.sevm import CallContext

    code = b""
    calls = [(SVM, SEL["createBool"], [0x20, 1, ord("b") << 248]), (HEVM, keccak_sel("randomUint()"), []),
             (SVM, SEL["createBool"], [0x20, 1, ord("b") << 248]), (HEVM, keccak_sel("randomBytes8()"), []),
             (HEVM, keccak_sel("randomUint(uint256,uint256)"), [3, 9]), (SVM, keccak_sel("createBytes32(string)"), [0x20, 1, ord("b") << 248])]
    for to, sel, args in calls:
        code += cheat_call(sel, args, to=to, retsize=32)
    exs = run_program({THIS: code + op("STOP")})
    names = []
    for t in exs[0].context.trace:
        if isinstance(t, CallContext) and t.output.data is not None and len(t.output.data):
            term = t.output.data.unwrap()
            found = []

            def walk(x):
                if z3.is_const(x) and x.decl().kind() == z3.Z3_OP_UNINTERPRETED:
                    found.append(str(x))
                for c in x.children():
                    walk(c)

            if not isinstance(term, bytes):
                walk(term)
            names += sorted(set(found))
    ids = [int(n.rsplit("_", 1)[1]) for n in names]
    if len(exs) != 1 or len(names) != len(calls) or len(set(names)) != len(names) or ids != list(range(1, len(calls) + 1)):
        rep.fail("failing-input", f"symbols created by successive svm/vm calls on the real SEVM are not fresh with consecutive counters: {names}",
                 case={"names": names}, sig={"defect": "fresh_sevm"})
        return 1
    rep.evaluations += 1
    return 0


def impl_fresh_run(rep, r):
    import z3

    from halmos.bytevec import ByteVec
    from halmos.cheatcodes import halmos_cheat_code, hevm_cheat_code

    ex = FakeEx(0)
    names = []
    for i in range(300):
        table, mode = r.choice([(SVM_SIGS, 0), (RANDOM_SIGS, 1)])
        sig = r.choice(list(table))
        _, cd = creator_calldata(sig, table[sig], r.choice([1, 8, 32, 256]), 2 ** 200, "same")
        try:
            ret = (halmos_cheat_code.handle(None, ex, ByteVec(cd), None)[0] if mode == 0 else hevm_cheat_code.handle(None, ex, ByteVec(cd), None))
        except Exception as e:  # noqa: BLE001
            rep.fail("failing-input", f"{sig} raised {type(e).__name__}: {e}", case={"creator": sig, "a1": 8, "a2": 2 ** 200, "counter": ex.cnt, "name": "same"},
                     sig={"defect": "creator", "sig": sig})
            return 1
        t = ret.unwrap()
        found = set()

        def walk(t):
            if z3.is_const(t) and t.decl().kind() == z3.Z3_OP_UNINTERPRETED:
                found.add(str(t))
            for c in t.children():
                walk(c)

        if not isinstance(t, bytes):
            walk(t)
        names += sorted(found)
    ids = [int(n.rsplit("_", 1)[1]) for n in names]
    if len(set(names)) != len(names) or ids != list(range(1, len(names) + 1)):
        rep.fail("failing-input", "successive created symbols are not pairwise distinct / counters not consecutive", case={"names": names[:20]},
                 sig={"defect": "fresh"})
        return 1
    rep.evaluations += 1
    return 0


# ================================================================== run / replay

def run(rep, tier):
    b = common.build_property(PID, TRANSLATORS)
    common.standard_obligations(rep, PID, b)
    m = None
    if all(t["ok"] for t in b["translators"]):
        # the extracted model depends on Model/*.v and Gen/*.v only: it is built (and the ties run against
        # it) also when a proof no longer goes through, so that a violation is shown three ways --
        # broken obligation, failing input, and whether the model still predicts what the code does
        exe, log = common.build_driver(PID)
        rep.obligation("extraction of Model/{Prank,Cheat,Fork}Model.v entry points + OCaml driver build", exe is not None, "" if exe else log[-800:])
        if exe is None:
            if b["make_ok"]:
                rep.fail("broken-tie", "extracted model driver does not build: " + log[-400:], case={})
        else:
            m = Model(exe)
    r = common.rng(PID)
    import time

    timing = {}
    for name, fn in (("L1_prank_object", tie_prank_obj), ("L2a_prank_programs", tie_prank_sevm), ("L2b_state", tie_state), ("L2b_state_fork", tie_state_fork), ("L1c_creators", tie_creators)):
        t0 = time.time()
        try:
            fn(rep, m, tier, r)
        except Exception:  # noqa: BLE001 -- a crashing tie is a broken tie, the other ties still run
            import traceback

            tb = traceback.format_exc()
            rep.obligation(f"tie {name} ran to completion", False, tb[-1200:])
            rep.fail("broken-tie", f"tie {name} crashed: {tb[-700:]}", case={"tie": name, "traceback": tb[-2500:]})
        timing[name] = round(time.time() - t0, 1)
    rep.coverage["tie_wall_s"] = timing
    rep.coverage["traces_validated_against_impl"] = rep.evaluations if m is not None else 0
    rep.coverage["known_defects"] = [k["id"] for k in KNOWN]
    return rep.finish(
        checker_cmd="make -C coq Props/C14.vo (coq_makefile, coqc 8.16.1) after regenerating coq/Gen/GenCheatSelectors.v from /repo/src/halmos/{cheatcodes,console,sevm}.py "
                    "and coq/Gen/GenCopies.v (copy-vs-share table of SEVM.create_branch) from sevm.py",
        trusted_base=common.TRUSTED_BASE_COMMON,
        assumptions=ASSUMPTIONS,
        partial=PARTIAL,
        rule="(L1) method sequences on the real Prank object over {prank, prank2, startPrank, startPrank2, stopPrank, lookup(user|0|hevm|svm|console)} x 3 addresses, "
             "exhaustive to length 3 (quick; +4000 sampled of length <= 4) / 5 (thorough), compared with the extracted model after every method (result + object state); "
             "(L2a) op sequences {prank*, stopPrank, hevm/svm/console call, call/staticcall/create into a fresh contract, return, symbolic branch, second transaction} "
             "assembled into EVM programs (one contract per entered frame, creations as embedded initcode) and run through SEVM.run / SEVM.run_message; the CALLER/ORIGIN each "
             "entered frame logs are compared with the python rendering of Foundry's meaning and with the extracted model; corpus + exhaustive sequences to length 3 (+1500 sampled of length 4) / 5 over a "
             "9-symbol alphabet (console.log included) + seeded random sequences to length 20; non-trivial = contains a prank-family op and a call/create; "
             "(L2b) programs of state cheatcodes with boundary / random / symbolic (calldata) words and dirty addresses followed by BALANCE/SLOAD/EXTCODESIZE/"
             "TIMESTAMP/NUMBER/BASEFEE/CHAINID/COINBASE/PREVRANDAO/vm.load reads, symbolic results evaluated under the calldata valuation; "
             "(L2b fork) program TREES: state cheatcodes and reads with symbolic two-sided JUMPIs nested up to 3 deep (each on its own calldata word, every side tagged by a logged marker, "
             "every leaf reading back all block fields / slots / balances / code sizes its profile touches; profiles block-only, storage, balance, code, mixed) run through SEVM.run; the multiset of "
             "per-path outputs is compared with the python rendering (each path = its own root-to-leaf sequence) and with the extracted worklist model whose objects have identity and whose "
             "create_branch follows the regenerated copy kinds; non-trivial = at least one fork; "
             "(L1c) every svm.create*/vm.random* selector through the real handle() for widths 0..257 and byte sizes {0,1,31,32,33,64}: status, counter, returned term evaluated "
             "under 5-9 valuations incl. boundaries, range constraints, symbol width/type/name/counter rendering; 300 successive creations on one path have pairwise distinct names",
    )


def replay(rep, body):
    for f in body.get("failures", []):
        case = f.get("case") or {}
        if "ops" in case:
            ops = [tuple(o) for o in case["ops"]]
            print("ops           :", ops)
            print("implementation:", impl_prank_case(ops))
            print("spec          :", spec_trace(ops))
        elif "fork_tree" in case:
            def fix(t):
                out = []
                for n in t:
                    if n[0] == "FORK":
                        out.append(("FORK", fix(n[1]), fix(n[2])))
                    else:
                        out.append(tuple(tuple(a) if isinstance(a, list) and len(a) == 2 and a[0] == "cd" else a for a in n))
                return out

            from halmos.__main__ import mk_block

            b = mk_block()
            init_block = [as_int(b.basefee), as_int(b.chainid), as_int(b.coinbase), as_int(b.difficulty), as_int(b.number), as_int(b.timestamp)]
            tree, vals = fix(case["fork_tree"]), case.get("calldata_values", [0, 0, 0, 0])
            print("tree          :", tree)
            print("implementation:", impl_fork_case(tree, vals))
            print("spec          :", spec_tree(tree, vals, init_block))
        elif "state_items" in case:
            items = [tuple(tuple(a) if isinstance(a, list) and len(a) == 2 and a[0] == "cd" else a for a in it) for it in case["state_items"]]
            print("implementation:", impl_state_case(items, case.get("calldata_values", [0, 0, 0, 0]))[0])
        elif "creator" in case:
            sig = case["creator"]
            mode = 0 if sig in SVM_SIGS else 1
            shape = (SVM_SIGS if mode == 0 else RANDOM_SIGS)[sig]
            print("implementation:", impl_creator(mode, sig, shape, case["counter"], case["a1"], case["a2"], case.get("name", "x"), [0, 1]))
    return 0
