"""Shared runner of the L2 ties (C01, C02, ...): scenarios -> worker pool -> summaries."""
import random
import time

from harness import common, l2tie, pool, scenarios


MODEL_PROFILES = {'straight', 'branch', 'memory', 'storage', 'hash', 'log', 'loop', 'call', 'create', 'opgrid', 'callfail', 'valuecall', 'symtarget', 'corr', 'symloop', 'stackops', 'hashcond'}


def _worker(task):
    seed, desc, n_random, patch_unknown, with_model = task
    scn = scenarios.from_description(desc)
    rng = random.Random(seed)
    if patch_unknown:
        _patch_unknown(patch_unknown, seed)
    t = time.time()
    res = l2tie.check_scenario(scn, rng, n_random=n_random, with_model=with_model)
    res["seconds"] = round(time.time() - t, 2)
    return res


def _patch_unknown(p, seed):
    """Legal oracle behaviour: turn a fraction p of the solver's definite answers into
    `unknown` (as a timeout would).  Applied inside the worker process only."""
    import z3

    from halmos.sevm import Path

    r = random.Random(seed * 7919 + 1)
    orig = Path.check

    def check(self, cond):
        res = orig(self, cond)
        if res != z3.unknown and r.random() < p:
            return z3.unknown
        return res

    Path.check = check


def run_corpus(descs, seed0, n_random=3, patch_unknown=0.0, timeout=90, total_timeout=None, with_model=False):
    """descs: list of scenario descriptions -> list of (desc, status, result)"""
    from harness import refevm

    refevm.driver()  # build the reference driver once, before forking
    if with_model:
        l2tie.sym_driver()
    tasks = [(seed0 + i, d, n_random, patch_unknown, with_model and not d.get('symbolic_storage') and (d.get('profile') in MODEL_PROFILES or str(d.get('profile')).startswith('corpus:'))) for i, d in enumerate(descs)]
    out = pool.run_tasks(_worker, tasks, timeout=timeout, total_timeout=total_timeout)
    return [(d, st, val) for d, (st, val) in zip(descs, out)]


def gen_descs(rng, plan, options_list=({},)):
    """plan: list of (profile, count)"""
    descs = []
    for profile, count in plan:
        for i in range(count):
            opts = options_list[i % len(options_list)]
            scn = scenarios.make(rng, profile, options=opts)
            d = scenarios.describe(scn)
            d["nargs"] = 2
            descs.append(d)
    return descs
