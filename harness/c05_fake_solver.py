"""Scripted stand-in for an SMT solver (C05 tie).  argv: script.json calls.log query.smt2

script.json: {"<dir>/<basename>" | "<basename of query file>": {"reply": KIND, "delay": seconds}, "default": {...}}
KIND: see REPLY_KINDS.  Every call is logged (dir/basename, kind, start/end, time) so the
harness can check what was asked and in which order the answers were produced.
"""
import json
import os
import re
import sys
import time

REPLY_KINDS = ["sat", "rc1_sat", "sat_nomodel", "sat_invalid", "sat_badmodel", "unsat", "unsat_rc1", "unsat_cr",
               "unsat_core0", "unsat_core1", "unsat_core2", "unsat_nocore",
               "unknown", "hang", "garbage", "empty", "crash"]

# `unsat` replies differ in the core list printed for (get-unsat-core) when the query asks for cores:
#   unsat / unsat_rc1 / unsat_cr : every named assertion      unsat_core0 : the empty list `()`
#   unsat_core1 / unsat_core2    : the first 1 / 2 names      unsat_nocore : no list at all
UNSAT_KINDS = ("unsat", "unsat_rc1", "unsat_cr", "unsat_core0", "unsat_core1", "unsat_core2", "unsat_nocore")


def core_names(kind, names):
    """names printed as the unsat core for a query whose named assertions are `names` (None: no list)."""
    if kind == "unsat_core0":
        return []
    if kind == "unsat_core1":
        return names[:1]
    if kind == "unsat_core2":
        return names[:2]
    if kind == "unsat_nocore":
        return None
    return list(names)


def reply_text(kind, text=""):
    """(stdout, stderr, returncode) of the fake solver for a query with the given text."""
    out, err, rc = "", "", 0
    var = re.search(r"\(declare-fun (halmos_[A-Za-z0-9_]+) \(\) \(_ BitVec (\d+)\)\)", text)
    if var:
        model = f"(\n  (define-fun {var.group(1)} () (_ BitVec {var.group(2)})\n    #x{'2a'.rjust(int(var.group(2)) // 4, '0')})\n)\n"
    else:
        model = "(\n)\n"
    if kind == "sat":
        out = "sat\n" + model
    elif kind == "rc1_sat":
        out, rc, err = "sat\n" + model, 1, "(error \"something\")\n"
    elif kind == "sat_nomodel":
        out = "sat\n"
    elif kind == "sat_invalid":
        out = "sat\n(\n  (define-fun f_evm_bvmul_256 ((x!0 (_ BitVec 256)) (x!1 (_ BitVec 256))) (_ BitVec 256)\n    #x" + "0" * 64 + ")\n)\n"
    elif kind == "sat_badmodel":
        # a halmos_* name without the expected name_type_uid parts: the model parser raises
        out = "sat\n(\n  (define-fun halmos_x () (_ BitVec 256)\n    #x00)\n)\n"
    elif kind in UNSAT_KINDS:
        core = ""
        if "produce-unsat-cores" in text:
            names = core_names(kind, re.findall(r":named (<[0-9]+>)", text))
            core = "" if names is None else "(" + " ".join(names) + ")\n"
        nl = "\r\n" if kind == "unsat_cr" else "\n"
        out = "unsat" + nl + '(error "line 1 column 1: model is not available")\n' + core
        if kind == "unsat_rc1":
            rc = 1
    elif kind in ("unknown", "hang"):
        out = "unknown\n(error \"model is not available\")\n"
    elif kind == "garbage":
        out = "Sat\nfoo bar\n"
    elif kind == "empty":
        out = ""
    elif kind == "crash":
        err, rc = "Segmentation fault (core dumped)\n", 139
    else:
        out, rc = f"bad script kind {kind}\n", 2
    return out, err, rc


def main():
    t0 = time.time()
    script = json.load(open(sys.argv[1]))
    log = sys.argv[2]
    query = sys.argv[3]
    base = os.path.basename(query)
    key = os.path.basename(os.path.dirname(query)) + "/" + base
    ent = script.get(key) or script.get(base) or script.get("default") or {"reply": "unsat"}
    kind = ent.get("reply", "unsat")
    delay = float(ent.get("delay", 0))
    text = open(query).read()
    with open(log, "a") as f:
        f.write(f"{key} {kind} start {t0:.4f}\n")
    if kind == "hang":
        time.sleep(60)
    if delay:
        time.sleep(delay)
    out, err, rc = reply_text(kind, text)
    with open(log, "a") as f:
        f.write(f"{key} {kind} end {time.time():.4f}\n")
    sys.stdout.write(out)
    sys.stderr.write(err)
    sys.stdout.flush()
    sys.exit(rc)


if __name__ == "__main__":
    main()
