"""Two-pass EVM assembler used to fabricate test programs (no solc/forge in the sandbox).

Program = list of items:
  'ADD' | 'PUSH0' ...            plain mnemonic
  ('push', value)                shortest PUSHn (PUSH1..PUSH32) for value >= 0
  ('pushn', n, value)            PUSHn with exactly n immediate bytes
  ('label', name)                JUMPDEST at this position
  ('ref', name)                  PUSH2 <address of label>
  ('raw', bytes)                 literal bytes
"""

OPS = {
    "STOP": 0x00, "ADD": 0x01, "MUL": 0x02, "SUB": 0x03, "DIV": 0x04, "SDIV": 0x05, "MOD": 0x06,
    "SMOD": 0x07, "ADDMOD": 0x08, "MULMOD": 0x09, "EXP": 0x0A, "SIGNEXTEND": 0x0B,
    "LT": 0x10, "GT": 0x11, "SLT": 0x12, "SGT": 0x13, "EQ": 0x14, "ISZERO": 0x15, "AND": 0x16,
    "OR": 0x17, "XOR": 0x18, "NOT": 0x19, "BYTE": 0x1A, "SHL": 0x1B, "SHR": 0x1C, "SAR": 0x1D,
    "SHA3": 0x20,
    "ADDRESS": 0x30, "BALANCE": 0x31, "ORIGIN": 0x32, "CALLER": 0x33, "CALLVALUE": 0x34,
    "CALLDATALOAD": 0x35, "CALLDATASIZE": 0x36, "CALLDATACOPY": 0x37, "CODESIZE": 0x38,
    "CODECOPY": 0x39, "GASPRICE": 0x3A, "EXTCODESIZE": 0x3B, "EXTCODECOPY": 0x3C,
    "RETURNDATASIZE": 0x3D, "RETURNDATACOPY": 0x3E, "EXTCODEHASH": 0x3F, "BLOCKHASH": 0x40,
    "COINBASE": 0x41, "TIMESTAMP": 0x42, "NUMBER": 0x43, "DIFFICULTY": 0x44, "GASLIMIT": 0x45,
    "CHAINID": 0x46, "SELFBALANCE": 0x47, "BASEFEE": 0x48,
    "POP": 0x50, "MLOAD": 0x51, "MSTORE": 0x52, "MSTORE8": 0x53, "SLOAD": 0x54, "SSTORE": 0x55,
    "JUMP": 0x56, "JUMPI": 0x57, "PC": 0x58, "MSIZE": 0x59, "GAS": 0x5A, "JUMPDEST": 0x5B,
    "TLOAD": 0x5C, "TSTORE": 0x5D, "MCOPY": 0x5E, "PUSH0": 0x5F,
    "CREATE": 0xF0, "CALL": 0xF1, "CALLCODE": 0xF2, "RETURN": 0xF3, "DELEGATECALL": 0xF4,
    "CREATE2": 0xF5, "STATICCALL": 0xFA, "REVERT": 0xFD, "INVALID": 0xFE, "SELFDESTRUCT": 0xFF,
}
for _i in range(1, 17):
    OPS[f"DUP{_i}"] = 0x7F + _i
    OPS[f"SWAP{_i}"] = 0x8F + _i
for _i in range(0, 5):
    OPS[f"LOG{_i}"] = 0xA0 + _i
MNEMONIC = {v: k for k, v in OPS.items()}


def _push_bytes(value):
    if value == 0:
        return bytes([0x5F])
    n = (value.bit_length() + 7) // 8
    assert 1 <= n <= 32, value
    return bytes([0x5F + n]) + value.to_bytes(n, "big")


def _size(it):
    if isinstance(it, str):
        return 1
    k = it[0]
    if k == "label":
        return 1
    if k == "ref":
        return 3
    if k == "push":
        return len(_push_bytes(it[1]))
    if k == "pushn":
        return 1 + it[1]
    if k == "raw":
        return len(it[1])
    raise ValueError(it)


def assemble(items, with_labels=False):
    pos, labels = 0, {}
    for it in items:
        if isinstance(it, tuple) and it[0] == "label":
            labels[it[1]] = pos
        pos += _size(it)
    out = bytearray()
    for it in items:
        if isinstance(it, str):
            out.append(OPS[it])
        elif it[0] == "label":
            out.append(0x5B)
        elif it[0] == "ref":
            out += bytes([0x61]) + labels[it[1]].to_bytes(2, "big")
        elif it[0] == "push":
            out += _push_bytes(it[1])
        elif it[0] == "pushn":
            out += bytes([0x5F + it[1]]) + (it[2] % (1 << (8 * it[1]))).to_bytes(it[1], "big")
        elif it[0] == "raw":
            out += bytes(it[1])
    return (bytes(out), labels) if with_labels else bytes(out)


def creation_code(runtime: bytes) -> bytes:
    """init code that returns `runtime`"""
    n = len(runtime)
    head = assemble([("pushn", 2, n), ("pushn", 2, 13), "PUSH0", "CODECOPY", ("pushn", 2, n), "PUSH0", "RETURN"])
    assert len(head) == 13
    return head + runtime


def disasm(code: bytes):
    out, pc = [], 0
    while pc < len(code):
        op = code[pc]
        if 0x60 <= op <= 0x7F:
            n = op - 0x5F
            out.append(f"{pc:04x} PUSH{n} 0x{code[pc + 1:pc + 1 + n].hex()}")
            pc += 1 + n
        else:
            out.append(f"{pc:04x} {MNEMONIC.get(op, hex(op))}")
            pc += 1
    return out
