"""bin/check <Cxx> quick|thorough [--replay FILE]"""
import importlib
import json
import os
import sys
import traceback
from pathlib import Path

sys.path.insert(0, str(Path(__file__).resolve().parent.parent))
os.environ.setdefault("PYTHONHASHSEED", "0")

from harness import common  # noqa: E402
import harness.registry  # noqa: E402,F401


def main(argv):
    if len(argv) < 2:
        print("usage: bin/check <property> quick|thorough [--replay FILE]")
        return 2
    pid = argv[1]
    tier = os.environ.get("VERIF_TIER") or "quick"
    replay = None
    rest = argv[2:]
    while rest:
        a = rest.pop(0)
        if a in ("quick", "thorough"):
            tier = a
        elif a == "--replay":
            replay = rest.pop(0)
    if tier not in ("quick", "thorough"):
        tier = "quick"
    os.environ[common.GUARD] = "1"
    mod = importlib.import_module(f"harness.props.{pid}")
    rep = common.Report(pid, tier)
    if replay:
        body = json.loads(Path(replay).read_text())
        return mod.replay(rep, body)
    try:
        return mod.run(rep, tier)
    except Exception:
        # the check itself crashed: never a silent pass
        tb = traceback.format_exc()
        rep.obligation("check harness ran to completion", False, tb[-1500:])
        rep.fail("broken-tie", f"check harness crashed: {tb[-800:]}", case={"traceback": tb[-3000:]})
        return rep.finish(checker_cmd="(crashed)", trusted_base=common.TRUSTED_BASE_COMMON)


if __name__ == "__main__":
    sys.exit(main(sys.argv))
