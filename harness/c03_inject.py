"""Runs the real `halmos` command line with a branching solver that gives up more often than usual.

    python c03_inject.py <mode> <seed> <halmos arguments...>

Legal oracle behaviour only: an answer of Path.check (the feasibility check behind Exec.check: JUMPI, Exec.select's
alias tests, address aliases, insufficient funds, vm.assert*, symbolic jumps) is turned into `unknown`, exactly what
the 1 ms budget of --solver-timeout-branching does on a loaded machine.  Nothing else is touched (the assertion solver,
which decides the verdict, is the real one).
    mode "nonunsat": every answer other than unsat becomes unknown (the solver proves what it can, never finds a model)
    mode "all":      every answer becomes unknown
    mode "half":     each definite answer becomes unknown with probability 1/2 (PRNG seeded by <seed>)
A sound executor may explore more paths under these answers; it must never report a clean PASS for a test that fails.
"""
import random
import sys


def main():
    here = sys.path[0]
    sys.path[:] = [p for p in sys.path if p != here]   # nothing of the harness directory is importable by halmos
    mode, seed = sys.argv[1], int(sys.argv[2])
    sys.argv = ["halmos"] + sys.argv[3:]
    import z3

    import halmos.sevm as sevm

    rng = random.Random(seed)
    orig = sevm.Path.check

    def check(self, cond):
        res = orig(self, cond)
        if mode == "all":
            return z3.unknown
        if mode == "nonunsat":
            return res if res == z3.unsat else z3.unknown
        if mode == "half" and res != z3.unknown and rng.random() < 0.5:
            return z3.unknown
        return res

    if mode not in ("nonunsat", "all", "half"):
        raise SystemExit(f"c03_inject: unknown mode {mode!r}")
    sevm.Path.check = check
    from halmos.__main__ import main as halmos_main

    return halmos_main()


if __name__ == "__main__":
    sys.exit(main())
