"""C10, L1 tie of the invariant-frontier filters: the REAL `_compute_frontier` (halmos.__main__) is run on
fabricated result states of a target transaction and what it does with each of them is recorded.

    python -m harness.c10_frontier  < jobs.json  > results.json

job  = {"codes": [panic codes], "states": [state...]}
state = {"tree": [err, [subtree...]], "data": hex | null, "probe_reported": bool, "visited": bool}
        err: 0 no error, 1 Revert, 2 another EVM exception (InvalidOpcode), 3 FailCheatcode, 4 HalmosException
        (NotConcreteError); the output data of a sub-call is None iff its error is 4, else empty
result = {"raised": index | -1, "raised_type": str, "errors": [indices], "probes": [indices], "next": [indices],
          "marks": [indices], "warns": [indices], "frontier_cache": [indices], "messages": [[index, text]]}

The call contexts are REAL halmos objects (CallContext / CallOutput / Message with the real exception classes), so
`is_stuck()`, `is_panic_of()`, `is_global_fail_set()` and `get_stuck_reason()` are the real ones.  Replaced by
recording stand-ins (monkeypatching only, nothing in the source tree is edited): where the states come from
(resolve_target_contracts, run_target_contract), the state id (get_state_id -> the fabricated id), the probe
handler (FunctionContext / CounterexampleHandler), the loggers (error / warn / warn_code) and the status line.
The Exec is a stand-in that delegates is_panic_of to the real CallOutput.
"""
import json
import sys
from types import SimpleNamespace


def _mk_ctx(tree, data, fun_info, depth=1):
    from halmos.bytevec import ByteVec
    from halmos.exceptions import FailCheatcode, InvalidOpcode, NotConcreteError, Revert
    from halmos.sevm import CallContext, CallOutput, Message
    from halmos.utils import EVM

    err, subs = tree
    error = {0: None, 1: Revert(), 2: InvalidOpcode(0xFE), 3: FailCheatcode("fail"), 4: NotConcreteError("fabricated internal error")}[err]
    msg = Message(target=0xAAAA0001, caller=0xCAFE, origin=0xCAFE, value=0, data=ByteVec(), call_scheme=EVM.CALL, fun_info=fun_info)
    ctx = CallContext(message=msg, depth=depth)
    for s in subs:
        ctx.trace.append(_mk_ctx(s, "NONE" if s[0] == 4 else "", None, depth + 1))
    ctx.output = CallOutput(data=None if data in (None, "NONE") else ByteVec(bytes.fromhex(data)), error=error)
    return ctx


class _Path:
    def __init__(self):
        self.conds = []

    def append(self, c, *a, **k):
        self.conds.append(c)


class _Exec:
    def __init__(self, idx, context, sid):
        from z3 import BitVecVal

        self.idx, self.context, self.sid = idx, context, sid
        self.call_sequence = []
        self.block = SimpleNamespace(timestamp=BitVecVal(0, 256))
        self.path = _Path()
        self.sliced = False

    def is_panic_of(self, codes):
        return self.context.output.is_panic_of(codes)

    def path_slice(self):
        self.sliced = True


def drive(job):
    import halmos.__main__ as hm
    from halmos.calldata import FunctionInfo

    states = job["states"]
    cur = [-1]
    rec = {"raised": -1, "raised_type": "", "errors": [], "probes": [], "next": [], "marks": [], "warns": [], "frontier_cache": [], "messages": []}
    exs = []
    visited, reported = set(), set()
    for i, st in enumerate(states):
        fi = FunctionInfo("C", f"f{i}", f"f{i}()", f"{i:08x}")
        ex = _Exec(i, _mk_ctx(st["tree"], st["data"], fi), f"id{i}".encode())
        exs.append(ex)
        if st["visited"]:
            visited.add(ex.sid)
        if st["probe_reported"]:
            reported.add(fi)
    visited0 = set(visited)

    def feed(ctx, pre_ex, addr):
        for ex in exs:
            cur[0] = ex.idx
            yield ex

    class Handler:
        def __init__(self, **kw):
            self.kw = kw

        def handle_assertion_violation(self, path_id=None, ex=None, panic_found=None, description=None, **kw):
            rec["probes"].append(ex.idx if isinstance(ex, _Exec) else cur[0])

    def log_to(key):
        def f(*a, **k):
            rec[key].append(cur[0])
            rec["messages"].append([cur[0], key + ": " + " ".join(str(x) for x in a)[:160]])
        return f

    pre = _Exec(-1, None, b"pre")
    ctx = SimpleNamespace(frontier_states={0: [pre]}, visited=visited, name="T", inv_ctx=None, probes_reported=reported,
                          args=SimpleNamespace(panic_error_codes=set(job["codes"]), flamegraph=False, debug=False))
    patches = {"FunctionContext": lambda **kw: SimpleNamespace(**kw), "CounterexampleHandler": Handler,
               "resolve_target_contracts": lambda inv_ctx, pre_ex: [0xAAAA0001], "run_target_contract": feed,
               "get_state_id": lambda ex: ex.sid, "error": log_to("errors"), "warn": log_to("warns"), "warn_code": log_to("warns"),
               "ui": SimpleNamespace(update_status=lambda *a, **k: None)}
    saved = {k: getattr(hm, k) for k in patches}
    try:
        for k, v in patches.items():
            setattr(hm, k, v)
        try:
            for ex in hm._compute_frontier(ctx, 1):
                rec["next"].append(ex.idx)
        except Exception as e:  # noqa: BLE001  (an exception that leaves the generator is an observation)
            rec["raised"], rec["raised_type"] = cur[0], type(e).__name__
    finally:
        for k, v in saved.items():
            setattr(hm, k, v)
    rec["frontier_cache"] = [ex.idx for ex in ctx.frontier_states.get(1, [])]
    rec["marks"] = sorted(int(s[2:]) for s in (ctx.visited - visited0))
    return rec


def main():
    jobs = json.load(sys.stdin)
    out = []
    for job in jobs:
        try:
            out.append(drive(job))
        except Exception as e:  # noqa: BLE001
            out.append({"harness_error": f"{type(e).__name__}: {e}"})
    json.dump(out, sys.stdout)


# ----------------------------------------------------------------------------- job generation / model encoding (harness side)

PANIC1 = "4e487b71" + (1).to_bytes(32, "big").hex()
PANIC17 = "4e487b71" + (0x11).to_bytes(32, "big").hex()
BAD36 = "08c379a0" + (1).to_bytes(32, "big").hex()
DATAS = [None, "", PANIC1, PANIC17, BAD36]
SUBS = [[], [[3, []]], [[4, []]], [[0, []]], [[0, [[4, []]]]]]
CODES = [[1], [], [1, 0x11]]


def enc_tree(t):
    out = [t[0], len(t[1])]
    for s in t[1]:
        out += enc_tree(s)
    return out


def enc_state(st):
    d = st["data"]
    bs = list(bytes.fromhex(d)) if d is not None else []
    return enc_tree(st["tree"]) + [0 if d is None else 1, len(bs), *bs, int(st["probe_reported"]), int(st["visited"])]


def model_call(job):
    args = [len(job["codes"]), *job["codes"], len(job["states"])]
    for st in job["states"]:
        args += enc_state(st)
    return ("c10_frontier_run", args)


def dec_model(mo):
    """[raised; n; errors...; n; probes...; n; next...] -> dict"""
    raised, rest = mo[0], mo[1:]
    out = {"raised": raised}
    for key in ("errors", "probes", "next"):
        n = rest[0]
        out[key], rest = rest[1:1 + n], rest[1 + n:]
    return out


def spec_cut(st):
    """SPEC: the call did not complete: it ended in a halmos-internal error of its own, or it has no output"""
    return st["tree"][0] == 4 or st["data"] is None


def gen_jobs(r, tier):
    """exhaustive grid of single states x panic-code configurations, then random sequences
    (quick tier: the configurations other than [1] only for calls that ended in a Revert -- the only ones whose
    classification can depend on the configured codes -- and for own-frame internal errors)"""
    jobs = []
    for codes in CODES:
        for err in range(5):
            if tier == "quick" and codes != [1] and err not in (1, 4):
                continue
            for subs in SUBS:
                for d in DATAS:
                    for pr in (False, True):
                        for v in (False, True):
                            jobs.append({"codes": codes, "states": [{"tree": [err, subs], "data": d, "probe_reported": pr, "visited": v}]})
    n_seq = 80 if tier == "quick" else 600
    for _ in range(n_seq):
        n = r.randint(3, 14)
        sts = []
        for _ in range(n):
            k = r.random()
            if k < 0.25:      # own-frame internal error (what halmos produces: no data), sometimes with data
                st = {"tree": [4, r.choice(SUBS)], "data": r.choice([None, None, ""]), "probe_reported": r.random() < 0.3, "visited": r.random() < 0.3}
            elif k < 0.4:     # stuck in a nested call
                st = {"tree": [r.choice([0, 0, 1, 3]), [[4, []]]], "data": None, "probe_reported": r.random() < 0.3, "visited": r.random() < 0.3}
            else:
                st = {"tree": [r.randrange(4), r.choice(SUBS[:2] + SUBS[3:4])], "data": r.choice(DATAS[1:]), "probe_reported": r.random() < 0.3, "visited": r.random() < 0.3}
            sts.append(st)
        jobs.append({"codes": r.choice(CODES), "states": sts})
    return jobs


def run_jobs(jobs, timeout=240):
    import os
    import subprocess

    from harness import common

    env = dict(os.environ)
    env["PYTHONPATH"] = f"{common.REPO / 'src'}:{common.VERIF}"
    env["PYTHONHASHSEED"] = "0"
    p = subprocess.run([common.PY, "-m", "harness.c10_frontier"], input=json.dumps(jobs), capture_output=True, text=True, timeout=timeout, env=env, cwd=str(common.VERIF))
    if p.returncode != 0:
        raise RuntimeError(f"c10_frontier driver failed: {p.stderr[-800:]}")
    return json.loads(p.stdout)


if __name__ == "__main__":
    main()
