"""C20 end-to-end (L3) helper: fabricates forge projects (no solc/forge in the sandbox) for a small
family of generated test contracts and runs the REAL halmos `_main` on them in-process.

A *spec* (plain JSON-able dict) describes one generated contract:

  {"slot1": a,                       value written to storage slot 1 of the test contract by setUp()
   "target": ["inc","dbl",...]|None, functions of the target contract C created by setUp (None: no target)
   "tests": [[name, kind, param], ...]}   in methodIdentifiers order (= the order halmos runs them)

Regular test kinds (function  check_<name>(uint256 x)):
  eqmagic M      Panic(1) iff x == M                         -> FAIL, counterexample x = M
  slotplus V     Panic(1) iff x + sload(1) == V              -> FAIL, counterexample x = V - a (depends on setUp state)
  write W        sstore(1, W); stop                          -> PASS (mutates its own copy of the state)
  slotis W       Panic(1) iff sload(1) == W                  -> PASS iff a != W   (would FAIL if `write W` leaked)
  writex N       sstore(1, x); Panic(1) iff sload(1) == N    -> FAIL, counterexample x = N
  two T          if x < T stop else stop                     -> PASS, 2 paths
  revertall _    revert                                      -> ERROR (REVERT_ALL)
  tstore W       Panic(1) iff tload(7) != 0; tstore(7, W)    -> PASS (transient storage must be fresh per test)
Invariant test kinds (function invariant_<name>(), value v = C.get()):
  inv_lt N       Panic(1) iff v >= N
  inv_ne N       Panic(1) iff v == N
  inv_slot W     Panic(1) iff sload(1) of the test contract == W (never for a != W)
Target functions of C (slot 0 = counter c, initially 0): inc (c+1), add2 (c+2), dbl (2c+1), reset (c=0),
  cap3 (c+1 if c < 3 else revert), setx (c = calldata word, symbolic), get (view),
  bump (bump(uint256 n): for (i = 0; i < n; i++) c++ -- what one transaction reaches depends on the
  loop bound of the config that explores it: c, c+1, ..., c+L under --loop L).
"devdoc": {test name: "<halmos options>"} puts a function-level `@custom:halmos` annotation on a test
(--width w, --loop L, --invariant-depth d): the config of THAT test only.  "toml": true writes the contract-level
--invariant-depth ("depth") and --loop ("loop") into halmos.toml instead of passing them on the command line.

Everything lives in a temp dir outside /verif and /repo which the caller removes.
"""
import contextlib
import io
import json
import os
import re
import shutil
import tempfile

from harness.asm import assemble, creation_code

PANIC_SEL = 0x4E487B71


def keccak(b):
    from eth_hash.auto import keccak as k

    return k(b)


def sel(sig):
    return int.from_bytes(keccak(sig.encode())[:4], "big")


def dispatcher(funcs):
    items = ["PUSH0", "CALLDATALOAD", ("push", 0xE0), "SHR"]
    for sig, lab in funcs:
        items += ["DUP1", ("pushn", 4, sel(sig)), "EQ", ("ref", lab), "JUMPI"]
    return items + ["PUSH0", "PUSH0", "REVERT"]


PANIC = [("pushn", 32, PANIC_SEL << 224), "PUSH0", "MSTORE", ("push", 1), ("push", 4), "MSTORE", ("push", 0x24), "PUSH0", "REVERT"]


def panic_if(lab_prefix):
    """stack top = condition; Panic(1) if nonzero else STOP"""
    return [("ref", lab_prefix + "_p"), "JUMPI", "STOP", ("label", lab_prefix + "_p")] + PANIC


def target_fun_body(name):
    if name == "inc":
        return ["PUSH0", "SLOAD", ("push", 1), "ADD", "PUSH0", "SSTORE", "STOP"]
    if name == "add2":
        return ["PUSH0", "SLOAD", ("push", 2), "ADD", "PUSH0", "SSTORE", "STOP"]
    if name == "dbl":
        return ["PUSH0", "SLOAD", "DUP1", "ADD", ("push", 1), "ADD", "PUSH0", "SSTORE", "STOP"]
    if name == "reset":
        return ["PUSH0", "PUSH0", "SSTORE", "STOP"]
    if name == "cap3":
        return [("push", 3), "PUSH0", "SLOAD", "LT", ("ref", "cap3_ok"), "JUMPI", "PUSH0", "PUSH0", "REVERT",
                ("label", "cap3_ok"), "PUSH0", "SLOAD", ("push", 1), "ADD", "PUSH0", "SSTORE", "STOP"]
    if name == "setx":
        return [("push", 4), "CALLDATALOAD", "PUSH0", "SSTORE", "STOP"]
    if name == "get":
        return ["PUSH0", "SLOAD", "PUSH0", "MSTORE", ("push", 0x20), "PUSH0", "RETURN"]
    if name == "bump":
        # i = 0; while (n > i) { c++; i++ }    (n = calldata word, symbolic: the loop bound decides)
        return ["PUSH0",
                ("label", "bump_loop"), "DUP1", ("push", 4), "CALLDATALOAD", "GT", ("ref", "bump_body"), "JUMPI", "POP", "STOP",
                ("label", "bump_body"), "PUSH0", "SLOAD", ("push", 1), "ADD", "PUSH0", "SSTORE", ("push", 1), "ADD",
                ("ref", "bump_loop"), "JUMP"]
    raise ValueError(name)


TARGET_SIGS = {"inc": "inc()", "add2": "add2()", "dbl": "dbl()", "reset": "reset()", "cap3": "cap3()", "setx": "setx(uint256)", "get": "get()",
               "bump": "bump(uint256)"}


def target_runtime(funs):
    funs = list(funs) + ["get"]
    items = dispatcher([(TARGET_SIGS[f], "F_" + f) for f in funs])
    for f in funs:
        items += [("label", "F_" + f), "POP"] + target_fun_body(f)
    return assemble(items)


LOAD_V = [  # v = C.get()  (C's address in slot 0)
    ("pushn", 4, sel("get()")), ("push", 0xE0), "SHL", "PUSH0", "MSTORE",
    ("push", 0x20), "PUSH0", ("push", 4), "PUSH0", "PUSH0", "PUSH0", "SLOAD", "GAS", "CALL", "POP",
    "PUSH0", "MLOAD",
]


def test_body(name, kind, p):
    L = "T_" + name
    X = [("push", 4), "CALLDATALOAD"]
    if kind == "eqmagic":
        return X + [("push", p), "EQ"] + panic_if(L)
    if kind == "slotplus":
        return X + [("push", 1), "SLOAD", "ADD", ("push", p), "EQ"] + panic_if(L)
    if kind == "write":
        return [("push", p), ("push", 1), "SSTORE", "STOP"]
    if kind == "slotis":
        return [("push", 1), "SLOAD", ("push", p), "EQ"] + panic_if(L)
    if kind == "writex":
        return X + [("push", 1), "SSTORE", ("push", 1), "SLOAD", ("push", p), "EQ"] + panic_if(L)
    if kind == "two":
        return [("push", p)] + X + ["LT", ("ref", L + "_a"), "JUMPI", "STOP", ("label", L + "_a"), "STOP"]
    if kind == "revertall":
        return ["PUSH0", "PUSH0", "REVERT"]
    if kind == "tsis":
        # panics unless block.timestamp is exactly p (set by a relative vm.warp in setUp)
        return ["TIMESTAMP", ("push", p), "EQ", "ISZERO"] + panic_if(L)
    if kind == "tstore":
        return [("push", 7), "TLOAD", ("ref", L + "_p"), "JUMPI", ("push", p), ("push", 7), "TSTORE", "STOP", ("label", L + "_p")] + PANIC
    if kind == "inv_lt":
        return LOAD_V + [("push", p), "SWAP1", "LT", "ISZERO"] + panic_if(L)   # v < p ? ok : panic
    if kind == "inv_ne":
        return LOAD_V + [("push", p), "EQ"] + panic_if(L)
    if kind == "inv_slot":
        return [("push", 1), "SLOAD", ("push", p), "EQ"] + panic_if(L)
    raise ValueError(kind)


def test_sig(name, kind):
    return f"invariant_{name}()" if kind.startswith("inv_") else f"check_{name}(uint256)"


def artifact(name, abi_funcs, order, cr, rt, path, devdoc=None):
    """abi_funcs: {sig: mutability}; order: sigs in methodIdentifiers order"""
    abi = []
    for sig in order:
        fname, args = sig[:-1].split("(")
        ins = [a for a in args.split(",") if a]
        abi.append({"type": "function", "name": fname,
                    "inputs": [{"name": f"a{i}", "type": t, "internalType": t} for i, t in enumerate(ins)],
                    "outputs": [], "stateMutability": abi_funcs[sig]})
    return {
        "abi": abi,
        "bytecode": {"object": "0x" + cr.hex(), "sourceMap": "", "linkReferences": {}},
        "deployedBytecode": {"object": "0x" + rt.hex(), "sourceMap": "", "linkReferences": {}},
        "methodIdentifiers": {sig: format(sel(sig), "08x") for sig in order},
        "metadata": {"compiler": {"version": "0.8.26"}, "output": {"devdoc": {"methods": devdoc or {}}}},
        "ast": {"absolutePath": path, "id": 1, "nodeType": "SourceUnit",
                "nodes": [{"nodeType": "ContractDefinition", "name": name, "contractKind": "contract", "abstract": False, "nodes": [], "id": 2}]},
        "id": 0,
    }


def build_project(root, spec):
    """Writes out/T.sol/T.json (+ out/C.sol/C.json) under root."""
    tests = [tuple(t) for t in spec["tests"]]
    target = spec.get("target")
    c_cr = b""
    if target is not None:
        c_rt = target_runtime(target)
        c_cr = creation_code(c_rt)

    def t_items(tail_off):
        funcs = [("setUp()", "S")] + [(test_sig(n, k), "T_" + n) for n, k, _ in tests]
        items = dispatcher(funcs) + [("label", "S"), "POP"]
        if target is not None:
            items += [("pushn", 2, len(c_cr)), ("pushn", 2, tail_off), "PUSH0", "CODECOPY",
                      ("pushn", 2, len(c_cr)), "PUSH0", "PUSH0", "CREATE", "PUSH0", "SSTORE"]
        if spec.get("setup_warp"):
            # vm.warp(block.timestamp + delta): a block cheatcode on setUp's main-line path
            items += [("pushn", 32, 0xE5D6BF02 << 224), "PUSH0", "MSTORE",
                      "TIMESTAMP", ("push", spec["setup_warp"]), "ADD", ("push", 4), "MSTORE",
                      "PUSH0", "PUSH0", ("push", 0x24), "PUSH0", "PUSH0",
                      ("pushn", 20, 0x7109709ECFA91A80626FF3989D68F67F5B1DD12D), ("push", 100000), "CALL", "POP"]
        items += [("push", spec.get("slot1", 0)), ("push", 1), "SSTORE", "STOP"]
        for n, k, p in tests:
            items += [("label", "T_" + n), "POP"] + test_body(n, k, p)
        if target is not None:
            items += [("raw", c_cr)]
        return items

    tmp = assemble(t_items(0))
    off = len(tmp) - len(c_cr)
    t_rt = assemble(t_items(off))
    assert t_rt[off:] == c_cr
    t_cr = creation_code(t_rt)
    order = ["setUp()"] + [test_sig(n, k) for n, k, _ in tests]
    if spec.get("setup_last"):
        order = order[1:] + order[:1]
    devdoc = {}
    for n, k, _ in tests:
        d = (spec.get("devdoc") or {}).get(n)
        if d:
            devdoc[test_sig(n, k)] = {"custom:halmos": d}
    os.makedirs(os.path.join(root, "out", "T.sol"), exist_ok=True)
    if spec.get("toml"):
        # contract-level config below the function-level annotations (the command line would override them)
        with open(os.path.join(root, "halmos.toml"), "w") as f:
            f.write("[global]\ninvariant-depth = %d\n" % spec["depth"] + ("loop = %d\n" % spec["loop"] if spec.get("loop") else ""))
    with open(os.path.join(root, "out", "T.sol", "T.json"), "w") as f:
        json.dump(artifact("T", {s: "nonpayable" for s in order}, order, t_cr, t_rt, "test/T.sol", devdoc), f)
    if target is not None:
        os.makedirs(os.path.join(root, "out", "C.sol"), exist_ok=True)
        sigs = [TARGET_SIGS[f] for f in target] + ["get()"]
        muts = {s: ("view" if s == "get()" else "nonpayable") for s in sigs}
        with open(os.path.join(root, "out", "C.sol", "C.json"), "w") as f:
            json.dump(artifact("C", muts, sigs, c_cr, c_rt, "src/C.sol"), f)
    return root


@contextlib.contextmanager
def workspace():
    """temp dir with a stub `forge` first on PATH; removed afterwards"""
    d = tempfile.mkdtemp(prefix="c20_l3_")
    old_path = os.environ.get("PATH", "")
    try:
        bindir = os.path.join(d, "bin")
        os.makedirs(bindir)
        forge = os.path.join(bindir, "forge")
        with open(forge, "w") as f:
            f.write("#!/bin/sh\nexit 0\n")
        os.chmod(forge, 0o755)
        os.environ["PATH"] = bindir + os.pathsep + old_path
        yield d
    finally:
        os.environ["PATH"] = old_path
        shutil.rmtree(d, ignore_errors=True)


UID_RE = re.compile(r"_[0-9a-f]{7}(?=_[0-9]{2}\b|\b)")


def strip_uid(name):
    return UID_RE.sub("", name)


def _val(v):
    try:
        return int(v)
    except Exception:  # noqa: BLE001
        s = str(v)
        return int(s, 16) if s.startswith("0x") else s


def summarize(main_result, out_text):
    """Normalised, order-insensitive-per-test summary of one `_main` run: {funsig: {...}}"""
    res = {}
    if main_result.test_results is None:
        return {"__exit__": main_result.exitcode}
    for _path, results in main_result.test_results.items():
        for r in results:
            models = []
            for m in r.models or []:
                mv = getattr(m, "model", None) or {}
                models.append((bool(getattr(m, "is_valid", False)),
                               tuple(sorted((strip_uid(str(k)), _val(getattr(v, "value", v))) for k, v in mv.items()))))
            res[r.name] = {
                "exitcode": r.exitcode,
                "num_models": r.num_models,
                "models": sorted(models),
                "paths": list(r.num_paths) if r.num_paths else None,
                "bounded": r.num_bounded_loops,
            }
    res["__exit__"] = main_result.exitcode
    res["__warnings__"] = sorted(set(re.findall(r"(incomplete execution due to the specified limit|all paths have been reverted|loop unrolling bound)", out_text)))
    seqs = re.findall(r"Sequence:\n((?:\s+CALL[^\n]*\n?)+)", out_text)
    res["__sequences__"] = sorted(re.sub(r"\x1b\[[0-9;]*m", "", strip_uid(s)) for s in seqs)
    return res


def run_halmos(root, extra=(), capture=True):
    """One in-process `halmos._main` run on the project at root.  Returns (summary, stdout text)."""
    from halmos.__main__ import _main

    # no time limit on branching queries: with the default (1 ms) an overloaded machine turns `unsat` into `unknown` at
    # random, and the number of explored paths then depends on the load, not on the schedule of tests (false alarm of
    # the thorough tier at load 40: 10 vs 11 paths, same verdict and models)
    argv = ["--root", root, "--no-status", "--solver-threads", "1", "--solver-timeout-branching", "0"] + list(extra)
    buf = io.StringIO()
    if capture:
        with contextlib.redirect_stdout(buf), contextlib.redirect_stderr(buf):
            mr = _main(argv)
    else:
        mr = _main(argv)
    text = buf.getvalue()
    return summarize(mr, text), text


class UidStream:
    """deterministic replacement for uuid.uuid4: stream k yields distinct values"""

    def __init__(self, k):
        self.k = k
        self.n = 0

    def __call__(self):
        import uuid

        self.n += 1
        x = (self.n * (2 * self.k + 1) * 0x9E3779B1 + self.k * 0x10001) % (1 << 28)
        # make the first 7 hex digits unique per call: counter in the top 28 bits
        top = ((self.n * 16 + self.k) ^ (self.k << 20)) % (1 << 28) if self.k % 2 else x
        return uuid.UUID(int=(top << 100) | self.n)


@contextlib.contextmanager
def patched_uuid(k):
    import uuid

    orig = uuid.uuid4
    uuid.uuid4 = UidStream(k)
    try:
        yield
    finally:
        uuid.uuid4 = orig


@contextlib.contextmanager
def fast_solver_schedule():
    """A legal schedule made deterministic: every assertion query is answered before the path loop
    continues (as with a very fast solver).  Used with --early-exit, whose effect otherwise depends on
    the race between the solver thread and the exploration."""
    import time

    import halmos.__main__ as hm

    cls = hm.CounterexampleHandler
    orig = cls.handle_assertion_violation

    def patched(self, *a, **kw):
        orig(self, *a, **kw)
        try:
            fut = self.submitted_futures[-1]
            fut.result(timeout=60)
        except Exception:  # noqa: BLE001
            return
        ex = self.ctx.solving_ctx.executor
        t0 = time.time()
        while not ex.is_shutdown() and time.time() - t0 < 0.4:
            time.sleep(0.01)

    cls.handle_assertion_violation = patched
    try:
        yield
    finally:
        cls.handle_assertion_violation = orig


@contextlib.contextmanager
def observe_explore_cfg(seen):
    """Run-time cross-check of translate/t_frontierflow.py: while a test whose own config differs from the
    contract's is running, which of the two HalmosConfig objects does run_target_function receive?
    Adds 'test' / 'contract' / 'other' to the set `seen`."""
    import halmos.__main__ as hm

    cur = []
    orig_test, orig_fun = hm.run_test, hm.run_target_function

    def run_test(ctx, *a, **kw):
        cur.append((ctx.args, ctx.contract_ctx.args))
        try:
            return orig_test(ctx, *a, **kw)
        finally:
            cur.pop()

    def run_target_function(args, *a, **kw):
        if cur and cur[-1][0] is not cur[-1][1]:
            seen.add("test" if args is cur[-1][0] else "contract" if args is cur[-1][1] else "other")
        return orig_fun(args, *a, **kw)

    hm.run_test, hm.run_target_function = run_test, run_target_function
    try:
        yield
    finally:
        hm.run_test, hm.run_target_function = orig_test, orig_fun
