"""Input-wise comparison of halmos' reported paths with the reference interpreter.

For a scenario and a set of concrete inputs:
  C01 direction: every reported path whose constraints hold under an input must describe
                 exactly the reference end state for that input;
  C02 direction: every input must be covered by at least one reported path, unless the
                 run was flagged (loop bound / depth / width) or some path is stuck.
"""
import z3
from eth_hash.auto import keccak as _keccak

from harness import engine, refevm

MODEL_INPUTS = 8

ADDR_POOL = [0x1804C8AB1F12E6BBF3894D4083F33E07309D1F38, 0xC0FFEE, 0xBEEF, 1 << 159, (1 << 160) - 1]


def input_from_model(scn, m, paths):
    def val(name, bits, default=0):
        v = m.eval(z3.BitVec(name, bits), model_completion=True)
        return v.as_long()

    inp = {"caller": val(engine.CALLER_NAME, 160), "origin": val(engine.ORIGIN_NAME, 160), "value": val(engine.VALUE_NAME, 256), "args": {}}
    for seg in scn["calldata"]:
        if seg[0] == "s":
            inp["args"][seg[1]] = val(seg[1], 8 * seg[2])
    bal = z3.Array(engine.BALANCE_NAME, z3.BitVecSort(160), z3.BitVecSort(256))
    addrs = set(scn["accounts"]) | {inp["caller"], inp["origin"]}
    inp["balances"] = {}
    for a in addrs:
        v = m.eval(z3.Select(bal, z3.BitVecVal(a, 160)), model_completion=True).as_long()
        if v:
            inp["balances"][a] = v
    return inp


def calldata_bytes(scn, inp):
    out = b""
    for seg in scn["calldata"]:
        if seg[0] == "c":
            out += bytes(seg[1])
        else:
            out += inp["args"][seg[1]].to_bytes(seg[2], "big")
    return out


def ref_case(scn, inp, fuel=20000, c2names=None):
    """c2names: {EVM address: halmos' name} for the CREATE2 addresses (engine.PathRecord.c2names); None = the EVM's own"""
    accounts = {}
    for a, acc in scn["accounts"].items():
        st = dict((inp.get("init_scalars") or {}).get(a, {}))
        for slot, key, v in (inp.get("init_maps") or {}).get(a, []):
            st[int.from_bytes(_keccak(key.to_bytes(32, "big") + slot.to_bytes(32, "big")), "big")] = v
        accounts[a] = {"code": bytes(acc["code"]), "balance": inp.get("balances", {}).get(a, 0), "storage": {k: v for k, v in st.items() if v}}
    for a, b in inp.get("balances", {}).items():
        if a not in accounts:
            accounts[a] = {"code": None, "balance": b, "storage": {}}
    msg = {"this": scn["this"], "caller": inp["caller"], "origin": inp["origin"], "value": inp["value"],
           "static": bool(scn.get("static")), "depth": 1, "data": calldata_bytes(scn, inp)}
    if c2names:
        return (accounts, msg, None, 0, dict(c2names))
    return (accounts, msg, None, 0)


def ref_kind(r):
    if r["status"] == "ok":
        return "ok"
    if r["status"] == "revert":
        return "revert"
    if r["status"] == "halt":
        return "halt:" + r["kind_name"]
    return r["status"]


def compare_path(scn, p, ev, inp, ref):
    """-> None if the path's outcome equals the reference result, else a description"""
    rk = ref_kind(ref)
    if p.kind.startswith("stuck"):
        return None  # a stuck path is reported as such (C10), not an outcome claim
    if p.kind != rk:
        # the *class* of exceptional halt is not part of the EVM's observable behaviour
        # (every exceptional halt consumes all gas and reverts): compare only halt vs not
        if not (p.kind.startswith("halt:") and rk.startswith("halt:")):
            return {"what": "end kind", "halmos": p.kind, "reference": rk}
    if rk in ("ok", "revert"):
        hb = p.ret_bytes(ev)
        if hb != ref["ret"]:
            return {"what": "return data", "halmos": hb.hex(), "reference": ref["ret"].hex()}
    if rk == "ok":
        w = ref["world"]
        addrs = sorted(set(w["balance"]) | set(scn["accounts"]) | {inp["caller"]})
        obs = p.observe(ev, addrs)
        if obs.get("hash_offset_wraps"):
            return None   # the input violates the hash-range assumption (a keccak-based location wraps around 2^256)
        for a, flat, v, transient, spelling in obs["storage"]:
            rv = (w["transient"] if transient else w["storage"]).get(a, {}).get(flat, 0)
            if v != rv:
                return {"what": f"{'transient ' if transient else ''}storage[{hex(a)}][{hex(flat)}] read back as {spelling}", "halmos": v, "reference": rv}
        for a in addrs:
            rv = w["balance"].get(a, inp.get("balances", {}).get(a, 0))
            if obs["balance"][a] != rv:
                return {"what": f"balance[{hex(a)}]", "halmos": obs["balance"][a], "reference": rv}
        if "logs" in ref and obs["logs"] != [tuple(l) for l in ref["logs"]]:
            return {"what": "event logs", "halmos": [(hex(a), [hex(t) for t in ts], d.hex()) for a, ts, d in obs["logs"]][:6],
                    "reference": [(hex(a), [hex(t) for t in ts], d.hex()) for a, ts, d in ref["logs"]][:6]}
        rcode = {a: c for a, c in w["code"].items()}
        for a in set(rcode) | set(obs["code"]):
            if obs["code"].get(a, b"") != rcode.get(a, b""):
                return {"what": f"code[{hex(a)}]", "halmos": obs["code"].get(a, b"").hex(), "reference": rcode.get(a, b"").hex()}
    return None


def derive_inputs(scn, paths, rng, n_random=4, n_dict=6):
    """models of every path + boundary/random perturbations"""
    inputs = []
    for p in paths:
        m = engine.model_inputs(p)
        if m is not None:
            inputs.append(input_from_model(scn, m, paths))
    base = list(inputs)
    # argument valuations the scenario insists on (corpus entries whose point is one particular input)
    for extra in scn.get("extra_args") or []:
        src = base[0] if base else {"caller": ADDR_POOL[0], "origin": ADDR_POOL[0], "value": 0, "args": {}, "balances": {}}
        inputs.append(dict(src, args={**{s_[1]: 0 for s_ in scn["calldata"] if s_[0] == "s"}, **src["args"], **{k: int(v) for k, v in extra.items()}}))
    boundary = [0, 1, 2, (1 << 255), (1 << 256) - 1, (1 << 128), 42, 255, 256]
    for _ in range(n_random):
        inp = {"caller": rng.choice(ADDR_POOL), "origin": rng.choice(ADDR_POOL),
               "value": rng.choice([0, 0, 1, 10 ** 18, (1 << 128), rng.getrandbits(256)]), "args": {}, "balances": {}}
        for seg in scn["calldata"]:
            if seg[0] == "s":
                bits = 8 * seg[2]
                inp["args"][seg[1]] = rng.choice(boundary + [rng.getrandbits(bits), rng.getrandbits(8)]) % (1 << bits)
        for a in list(scn["accounts"]) + [inp["caller"]]:
            inp["balances"][a] = rng.choice([0, 1, 10 ** 18, (1 << 125), rng.getrandbits(100)])
        inputs.append(inp)
    # perturb models: flip one argument to a boundary value
    for b in base[:6]:
        for name in list(b["args"])[:2]:
            c = dict(b, args=dict(b["args"]))
            c["args"][name] = rng.choice(boundary) % (1 << (8 * next(s[2] for s in scn["calldata"] if s[0] == "s" and s[1] == name)))
            inputs.append(c)
    # hash-relative inputs: an argument placed just below 2^256 - keccak(another argument [. slot]), where
    # `hash + index (+ c)` wraps around (the index range a solc overflow check is there for)
    from eth_hash.auto import keccak as _k

    names = [s_[1] for s_ in scn["calldata"] if s_[0] == "s" and s_[2] == 32]
    for b in base[:4]:
        for x in names:
            for y in names:
                hs = [int.from_bytes(_k(b["args"][x].to_bytes(32, "big") + sl.to_bytes(32, "big")), "big") for sl in (0, 1, 2)]
                h = rng.choice(hs)
                c = dict(b, args=dict(b["args"]))
                c["args"][y] = ((1 << 256) - h - rng.choice([0, 1, 2, 5, 6, 9, 33, 40])) % (1 << 256)
                if x != y or True:
                    inputs.append(c)
    # dictionary inputs: the constants the programs compare against and the addresses that
    # exist (clean and with dirty upper bits) -- values no random draw would ever hit, and
    # which a pruned alternative (dropped alias, dropped insufficient-funds branch) has no
    # reported path to supply a model for
    words = dictionary(scn)
    for k in range(n_dict if words else 0):
        src = rng.choice(base) if base and rng.random() < 0.5 else None
        inp = {"caller": src["caller"] if src else rng.choice(ADDR_POOL), "origin": src["origin"] if src else rng.choice(ADDR_POOL),
               "value": src["value"] if src else rng.choice([0, 0, 1, 1000]), "args": dict(src["args"]) if src else {}, "balances": dict(src["balances"]) if src else {}}
        for seg in scn["calldata"]:
            if seg[0] == "s" and (seg[1] not in inp["args"] or rng.random() < 0.6):
                inp["args"][seg[1]] = rng.choice(words) % (1 << (8 * seg[2]))
        if not src or rng.random() < 0.5:
            for a in list(scn["accounts"]) + [inp["caller"]]:
                inp["balances"][a] = rng.choice([0, 0, 1, 999, 1000, 1001, 10 ** 18])
        inputs.append(inp)
    # who pays: exactly one account is rich, everybody else has nothing, and the arguments are small non-zero amounts --
    # the inputs that tell apart the account whose balance decides an insufficient-funds fork from the one that is debited
    payers = list(scn["accounts"])[:4]
    if scn.get("pay_inputs", True) and any(s_[0] == "s" for s_ in scn["calldata"]):
        for a in payers:
            w = rng.choice([1, 1000] + [x for x in words if 0 < x < (1 << 64)][:4])
            # (the caller is never the executing contract itself: a symbolic address equal to the test contract is the
            #  recorded finding C02-alias-excludes-test-contract, exercised by harness/bptie.py)
            inp = {"caller": rng.choice([b for b in payers if b != scn["this"]] + [ADDR_POOL[0]]), "origin": ADDR_POOL[0], "value": 0, "args": {}, "balances": {}}
            for seg in scn["calldata"]:
                if seg[0] == "s":
                    inp["args"][seg[1]] = w % (1 << (8 * seg[2]))
            for b in payers + [inp["caller"]]:
                inp["balances"][b] = 0
            inp["balances"][a] = 10 ** 18
            inputs.append(inp)
    if scn.get("symbolic_storage"):
        # the initial storage is an input as well: scalar slots and mapping entries under the keys the other inputs use
        vals = [0, 0, 1, 5, 7, 255, (1 << 255), (1 << 256) - 1] + [w for w in words if w < (1 << 16)][:6]
        for inp in inputs:
            if rng.random() < 0.25:
                continue                      # all-zero initial storage
            keys = sorted(set(list(inp["args"].values()) + [0, 1, 5, inp["caller"]]))[:8]
            inp["init_scalars"] = {a: {sl: rng.choice(vals) for sl in range(4) if rng.random() < 0.6} for a in scn["accounts"]}
            inp["init_maps"] = {a: [(sl, k, rng.choice(vals)) for sl in range(3) for k in keys if rng.random() < 0.5] for a in scn["accounts"]}
    return inputs


def dictionary(scn):
    """PUSH immediates of every program of the scenario (and their neighbours), existing
    addresses other than the executing one, clean and with dirty upper bits"""
    words = set()
    for a, acc in scn["accounts"].items():
        code = bytes(acc["code"])
        pc = 0
        while pc < len(code):
            op = code[pc]
            if 0x60 <= op <= 0x7F:
                n = op - 0x5F
                v = int.from_bytes(code[pc + 1:pc + 1 + n].ljust(n, b"\0"), "big")
                if n <= 20 or v >> 224 != 0:
                    words.update({v, (v + 1) % (1 << 256), (v - 1) % (1 << 256)})
                pc += n
            pc += 1
        words.update({a, a | (1 << 160), a | (0xDEAD << 200)})
    words.update({0xC0FFEE, 0xC0FFEE | (1 << 255)})
    # distances from the hashes of the small slots to 2^256: the inputs on which keccak(slot) + index wraps
    from eth_hash.auto import keccak

    for slot in (0, 1, 2):
        h = int.from_bytes(keccak(slot.to_bytes(32, "big")), "big")
        for d in (0, 1, 2, 5, 6, 9, 33, 40):
            words.update({((1 << 256) - h - d) % (1 << 256), ((1 << 256) - h + d) % (1 << 256)})
    return sorted(words)[:600]


_sym = None


def sym_driver():
    global _sym
    if _sym is None:
        from harness import common

        exe, log = common.build_driver("SYM")
        if exe is None:
            raise RuntimeError("SymExec model driver does not build: " + log[-600:])
        _sym = common.Model(exe)
    return _sym


def sym_input(scn, inp, loop=2, fuel=400, mem_limit=refevm.MEM_LIMIT):
    accts = [scn["this"]] + [a for a in scn["accounts"] if a != scn["this"]]
    data = []
    nargs = 0
    for seg in scn["calldata"]:
        if seg[0] == "c":
            data += list(seg[1])
        else:
            k = int(seg[1][3:])
            nargs = max(nargs, k + 1)
            data += [-(1 + 32 * k + j) for j in range(seg[2])]
    args = [inp["args"].get(f"arg{i}", 0) for i in range(nargs)]
    bals = inp.get("balances", {})
    out = [mem_limit, fuel, loop, scn["this"], 1 if scn.get("static") else 0, len(accts)]
    for a in accts:
        code = list(scn["accounts"][a]["code"])
        out += [a, len(code)] + code
    out += [len(data)] + data
    out += [inp["caller"], inp["origin"], inp["value"], len(args)] + args + [len(bals)]
    for a, b in bals.items():
        out += [a, b]
    return out


def sym_decode(res):
    it = iter(res)
    logged, nleaves, nsat = next(it), next(it), next(it)
    leaves = []
    for _ in range(nsat):
        kind, sub = next(it), next(it)
        lf = {"kind": ["ok", "revert", "halt", "stuck", "fuel", "halt"][kind], "raw": kind, "sub": sub}
        if kind in (0, 1):
            lf["ret"] = bytes(next(it) for _ in range(next(it)))
        leaves.append(lf)
    return {"logged": bool(logged), "nleaves": nleaves, "sat": leaves}


def model_leg(scn, inputs, refs, holders):
    """mini-SEVM model (extracted) on the same program and inputs: its satisfied leaves must
    (a) describe the reference result [instance of theorem C01_sound] and (b) coincide with
    the outcomes of halmos' holding paths [model <-> implementation].  Only scenarios
    inside the modelled subset are comparable: inputs on which the model is stuck, out of
    fuel or cut by the loop bound (the extracted oracle answers `unknown`) are skipped."""
    loop = int(scn.get("options", {}).get("loop", 2))
    m = sym_driver()
    res = m.batch([("sym_run2", sym_input(scn, i, loop=loop)) for i in inputs])
    out = {"compared": 0, "skipped": 0, "model_vs_ref": [], "model_vs_halmos": []}
    for inp, ref, hold, r in zip(inputs, refs, holders, res):
        if r is None or ref["status"] in ("fuel", "unsupported", "model-error") or hold is None:
            out["skipped"] += 1
            continue
        d = sym_decode(r)
        if d["logged"] or any(lf["kind"] in ("stuck", "fuel") for lf in d["sat"]) or not d["sat"]:
            out["skipped"] += 1
            continue
        out["compared"] += 1
        rk = ref_kind(ref).split(":")[0]
        for lf in d["sat"]:
            if lf["kind"] != rk or (rk in ("ok", "revert") and lf["ret"] != ref["ret"]):
                out["model_vs_ref"].append({"input": inp, "model": {k: (v.hex() if isinstance(v, bytes) else v) for k, v in lf.items()}, "reference": rk})
        hm = sorted((k.split(":")[0], rb.hex()) for k, rb in hold)
        mm = sorted((lf["kind"], lf.get("ret", b"").hex()) for lf in d["sat"])
        if hm != mm:
            out["model_vs_halmos"].append({"input": inp, "halmos": hm, "model": mm})
    return out


def check_scenario(scn, rng, fuel=20000, n_random=4, with_model=False):
    """-> dict(paths, inputs, c01_failures, c02_failures, flags, stats)"""
    paths, flags = engine.run_scenario(scn)
    inputs = derive_inputs(scn, paths, rng, n_random)
    refs = refevm.run_many([ref_case(scn, i, fuel) for i in inputs], fuel=fuel)
    c01, c02, stats = [], [], {"evaluated": 0, "covered": 0, "unknown_eval": 0, "ref_skipped": 0}
    stuck = [p.kind for p in paths if p.kind.startswith("stuck")]
    per_input_holders, kept_inputs, kept_refs = [], [], []
    skip = [ref["status"] in ("fuel", "unsupported", "model-error") or sum(inp.get("balances", {}).values()) > (1 << 128) for inp, ref in zip(inputs, refs)]
    # CREATE2: halmos NAMES the created address (engine.create2_names); the address itself is the EVM's, computed here
    # from the path's own preimage under the input.  Each (path, input) pair whose path holds gets the reference run
    # under its naming {EVM address: name}; everything but the name is the reference's business.
    held = {}        # (input number, path number) -> (ok, ev)
    named = {}       # (input number, naming) -> reference result
    if any(p.c2 for p in paths):
        for i, inp in enumerate(inputs):
            if skip[i]:
                continue
            for j, p in enumerate(paths):
                held[(i, j)] = ok, ev = p.holds(inp)
                if ok and p.c2:
                    try:
                        named.setdefault((i, tuple(sorted(p.c2names(ev).items()))), None)
                    except Exception:  # noqa: BLE001  (an unknown symbol in a preimage: counted below, when the pair is compared)
                        pass
        keys = [k for k in named if k[1]]
        for k, r in zip(keys, refevm.run_many([ref_case(scn, inputs[k[0]], fuel, dict(k[1])) for k in keys], fuel=fuel) if keys else []):
            named[k] = r
    for i, (inp, ref) in enumerate(zip(inputs, refs)):
        if ref["status"] in ("fuel", "unsupported", "model-error"):
            stats["ref_skipped"] += 1
            continue
        if sum(inp.get("balances", {}).values()) > (1 << 128):
            continue  # documented modelling assumption: balances <= MAX_ETH (at any time: transfers only move the total around)
        kept_inputs.append(inp)
        kept_refs.append(ref)
        holders = 0
        unknown = 0
        hold_out = []
        for j, p in enumerate(paths):
            ok, ev = held[(i, j)] if (i, j) in held else p.holds(inp)
            if ok is None:
                unknown += 1
                stats.setdefault("unknown_symbols", {})
                stats["unknown_symbols"][str(ev)[:60]] = stats["unknown_symbols"].get(str(ev)[:60], 0) + 1
                continue
            if not ok:
                continue
            holders += 1
            stats["evaluated"] += 1
            try:
                hold_out.append((p.kind, p.ret_bytes(ev) if p.kind in ("ok", "revert") else b""))
            except Exception:  # noqa: BLE001
                hold_out = None
            try:
                ref_p = ref
                if p.c2:
                    names = tuple(sorted(p.c2names(ev).items()))
                    ref_p = named.get((i, names)) if names else ref
                    stats["named_refs"] = stats.get("named_refs", 0) + 1
                if ref_p is None or ref_p["status"] in ("fuel", "unsupported", "model-error"):
                    stats["ref_skipped"] += 1
                    continue
                d = compare_path(scn, p, ev, inp, ref_p)
            except Exception as e:  # noqa: BLE001
                d = None
                stats["unknown_eval"] += 1
                stats.setdefault("eval_errors", []).append(f"{type(e).__name__}: {e}"[:200])
            if d is not None:
                c01.append({"input": inp, "path_kind": p.kind, **d})
        if holders:
            stats["covered"] += 1
        elif not unknown and not stuck and not flags["bounded_loops"] and not flags["depth_cut"] and not flags["crashed"]:
            c02.append({"input": inp, "reference": ref_kind(ref), "path_kinds": [p.kind for p in paths]})
        stats["unknown_eval"] += unknown
        per_input_holders.append(None if (unknown or hold_out is None or any(k.startswith("stuck") for k, _ in hold_out)) else hold_out)
    model = None
    if with_model and not flags["crashed"]:
        # (an exception escaping SEVM.run aborts the whole test with an ERROR status: no path is
        #  reported, so there is nothing to compare; the crash itself is C06's business)
        # inputs skipped above (reference unsupported / balances above MAX_ETH) have no holder entry
        # (the extracted model computes on inductive binary integers: a handful of inputs per program is enough
        #  for the model <-> implementation leg, every input still goes through implementation <-> reference)
        k = MODEL_INPUTS
        model = model_leg(scn, kept_inputs[:k], kept_refs[:k], per_input_holders[:k])
    return {"model": model, "n_paths": len(paths), "kinds": [p.kind for p in paths], "n_inputs": len(inputs), "c01": c01, "c02": c02,
            "flags": {k: v for k, v in flags.items() if k != "output"}, "stats": stats}
