"""C04, L3 tie: the real `python -m halmos --dump-smt-directory D` end to end on fabricated
projects whose failing tests have exactly ONE failing input each.

A scenario is a sequence of halmos runs that share the dump directory D (the user's debug
loop: run, edit the contract, run again) on a contract with overloaded test functions
(check_y(uint256) / check_y(uint8) share D/check_y, and path ids restart for every function).
Every test is `if (y <op> K) == C: Panic(1)` with <op> a bijection (identity, XOR, ADD), so the
only input for which the concrete execution ends in the reported assertion failure is
y0 = op^-1(C): a counterexample halmos marks valid must assign exactly y0 - whatever the dump
directory already holds.
"""
from harness.l3 import Contract, Project, dispatcher, panic_items

M256 = (1 << 256) - 1
OPS = {"eq": None, "xor": "XOR", "add": "ADD"}


def apply_op(op, y, k):
    return y if op == "eq" else (y ^ k) if op == "xor" else (y + k) & M256


def runtime(tests):
    from harness.asm import assemble

    items = dispatcher([(f"{t['name']}({t['type']})", f"f{i}") for i, t in enumerate(tests)])
    for i, t in enumerate(tests):
        items += [("label", f"f{i}"), "POP", ("push", 4), "CALLDATALOAD"]
        if OPS[t["op"]]:
            items += [("push", t["k"]), OPS[t["op"]]]
        items += [("push", apply_op(t["op"], t["y0"], t["k"])), "EQ", ("ref", "panic"), "JUMPI", "STOP"]
    items += [("label", "panic")] + panic_items(1)
    return assemble(items)


def contract(tests):
    return Contract("T", [(t["name"], [t["type"]], ["y"]) for t in tests], runtime(tests))


def gen_tests(r, nfun):
    tests, seen = [], set()
    names = ["check_y", "check_y", "check_x", "check_y", "check_z"]
    types = ["uint256", "uint8", "uint256", "uint64", "uint128"]
    for i in range(nfun):
        name, ty = names[i % len(names)], types[i % len(types)]
        if (name, ty) in seen:
            continue
        seen.add((name, ty))
        bits = int(ty[4:])
        op = r.choice(["eq", "eq", "xor", "add"])
        tests.append({"name": name, "type": ty, "op": op, "k": r.randrange(1, 1 << 256) if op != "eq" else 0,
                      "y0": r.randrange(1, 1 << bits)})
    return tests


def gen_scenarios(tier, r):
    n = 2 if tier == "quick" else 6
    out = []
    for _ in range(n):
        nfun = 3 if tier == "quick" else r.randint(2, 5)
        runs = []
        for _k in range(2 if tier == "quick" else r.randint(2, 3)):
            runs.append(gen_tests(r, nfun))   # same signatures, other constants: the contract was edited
        out.append({"runs": runs, "solver": ["yices", "z3"][len(out) % 2]})
    return out


def run_scenario(scn, timeout=150):
    """-> list of per-run observations: {sig: {status, models: [{valid, y}]}} plus 'error'"""
    obs = []
    prj = Project([contract(scn["runs"][0])])
    try:
        dump = prj.dir / "smtdump"
        for tests in scn["runs"]:
            prj.contracts = [contract(tests)]
            prj._write()
            res = prj.run(["--dump-smt-directory", str(dump), "--solver", scn["solver"]], timeout=timeout)
            o = {"rc": res.rc, "tests": {}, "error": None}
            if res.json is None:
                o["error"] = (res.err or res.out)[-600:]
            for t in tests:
                sig = f"{t['name']}({t['type']})"
                rec = res.records.get(sig)
                ms = []
                for mdl in ((rec or {}).get("models") or []):
                    vals = {v["variable_name"]: v["value"] for v in (mdl.get("model") or {}).values()}
                    ms.append({"valid": bool(mdl.get("is_valid")), "y": vals.get("y"), "names": sorted(mdl.get("model") or {})})
                o["tests"][sig] = {"status": res.status(sig), "models": ms, "want": t["y0"]}
            o["dump_files"] = sorted(str(p.relative_to(dump)) for p in dump.rglob("*") if p.is_file()) if dump.exists() else []
            obs.append(o)
    finally:
        prj.cleanup()
    return obs
