"""C04, L3 tie: the real `python -m halmos --dump-smt-directory D` end to end on fabricated
projects whose failing tests have exactly ONE failing input each.

A scenario is a sequence of halmos runs that share the dump directory D (the user's debug
loop: run, edit the contract, run again) on a contract with overloaded test functions
(check_y(uint256) / check_y(uint8) share D/check_y, and path ids restart for every function).
Every test is `if (y <op> K) == C: Panic(1)` with <op> a bijection (identity, XOR, ADD), so the
only input for which the concrete execution ends in the reported assertion failure is
y0 = op^-1(C): a counterexample halmos marks valid must assign exactly y0 - whatever the dump
directory already holds.
"""
from harness.l3 import Contract, Project, dispatcher, panic_items

M256 = (1 << 256) - 1
OPS = {"eq": None, "xor": "XOR", "add": "ADD"}


def apply_op(op, y, k):
    return y if op == "eq" else (y ^ k) if op == "xor" else (y + k) & M256


def runtime(tests):
    from harness.asm import assemble

    items = dispatcher([(f"{t['name']}({t['type']})", f"f{i}") for i, t in enumerate(tests)])
    for i, t in enumerate(tests):
        items += [("label", f"f{i}"), "POP", ("push", 4), "CALLDATALOAD"]
        if OPS[t["op"]]:
            items += [("push", t["k"]), OPS[t["op"]]]
        items += [("push", apply_op(t["op"], t["y0"], t["k"])), "EQ", ("ref", "panic"), "JUMPI", "STOP"]
    items += [("label", "panic")] + panic_items(1)
    return assemble(items)


def contract(tests):
    return Contract("T", [(t["name"], [t["type"]], ["y"]) for t in tests], runtime(tests))


def gen_tests(r, nfun):
    tests, seen = [], set()
    names = ["check_y", "check_y", "check_x", "check_y", "check_z"]
    types = ["uint256", "uint8", "uint256", "uint64", "uint128"]
    for i in range(nfun):
        name, ty = names[i % len(names)], types[i % len(types)]
        if (name, ty) in seen:
            continue
        seen.add((name, ty))
        bits = int(ty[4:])
        op = r.choice(["eq", "eq", "xor", "add"])
        # the runtime reads the calldata word without ABI validation (CALLDATALOAD): for a narrow declared
        # type the only failing input may well have bits above the declared width
        y0 = r.randrange(1, 1 << bits)
        if bits < 256 and r.random() < 0.6:
            y0 |= r.randrange(1, 1 << (256 - bits)) << bits
        tests.append({"name": name, "type": ty, "op": op, "k": r.randrange(1, 1 << 256) if op != "eq" else 0, "y0": y0})
    return tests


def gen_scenarios(tier, r):
    n = 2 if tier == "quick" else 6
    out = []
    for _ in range(n):
        nfun = 3 if tier == "quick" else r.randint(2, 5)
        runs = []
        for _k in range(2 if tier == "quick" else r.randint(2, 3)):
            runs.append(gen_tests(r, nfun))   # same signatures, other constants: the contract was edited
        out.append({"runs": runs, "solver": ["yices", "z3"][len(out) % 2]})
    return out


def run_scenario(scn, timeout=150):
    """-> list of per-run observations: {sig: {status, models: [{valid, y}]}} plus 'error'"""
    from harness import c04_render

    obs = []
    prj = Project([contract(scn["runs"][0])])
    try:
        dump = prj.dir / "smtdump"
        for tests in scn["runs"]:
            prj.contracts = [contract(tests)]
            prj._write()
            res = prj.run(["--dump-smt-directory", str(dump), "--solver", scn["solver"]], timeout=timeout)
            o = {"rc": res.rc, "tests": {}, "error": None}
            if res.json is None:
                o["error"] = (res.err or res.out)[-600:]
            for t in tests:
                sig = f"{t['name']}({t['type']})"
                rec = res.records.get(sig)
                ms = []
                for mdl in ((rec or {}).get("models") or []):
                    vals = {v["variable_name"]: v["value"] for v in (mdl.get("model") or {}).values()}
                    ms.append({"valid": bool(mdl.get("is_valid")), "y": vals.get("y"), "names": sorted(mdl.get("model") or {})})
                # what the user reads on stdout after `Counterexample:` for this test
                printed = []
                for blk in c04_render.printed_blocks(res.out or "").get(sig, []):
                    asg = blk["assignment"]
                    ys = [v for n, v in (asg or []) if n.startswith("p_y_")]
                    printed.append({"valid": blk["valid"], "readable": asg is not None, "y": ys[0] if len(ys) == 1 else None})
                o["tests"][sig] = {"status": res.status(sig), "models": ms, "want": t["y0"], "printed": printed}
            o["dump_files"] = sorted(str(p.relative_to(dump)) for p in dump.rglob("*") if p.is_file()) if dump.exists() else []
            obs.append(o)
    finally:
        prj.cleanup()
    return obs


# ----------------------------------------------------------------------------- invariant tests
# contract C { uint v; function set(uint a, uint b) { require((a <op> K) == C1); v = b <op2> K2; }
#              function get() returns (uint) { return v; } }
# contract T { C c; function setUp() { c = new C(); } function invariant_ok() { assert(c.get() != BAD); } }
# The only violating sequence of depth 1 is C.set(a0, b0) with a0 = op^-1(C1), b0 = op2^-1(BAD): the
# require() on `a` is a condition of the FIRST transaction's path on an input that never reaches the
# state; the assertion fails on the path of the invariant call, which extends the sliced path of set().

def inv_contracts(t):
    from harness.asm import assemble, creation_code
    from harness.l3 import sel_int

    c_items = dispatcher([("set(uint256,uint256)", "SET"), ("get()", "GET")]) + [("label", "SET"), "POP", ("push", 4), "CALLDATALOAD"]
    if OPS[t["op"]]:
        c_items += [("push", t["k"]), OPS[t["op"]]]
    c_items += [("push", apply_op(t["op"], t["a0"], t["k"])), "EQ", ("ref", "SET_OK"), "JUMPI", "PUSH0", "PUSH0", "REVERT",
                ("label", "SET_OK"), ("push", 0x24), "CALLDATALOAD"]
    if OPS[t["op2"]]:
        c_items += [("push", t["k2"]), OPS[t["op2"]]]
    c_items += ["PUSH0", "SSTORE", "STOP",
                ("label", "GET"), "POP", "PUSH0", "SLOAD", "PUSH0", "MSTORE", ("push", 32), "PUSH0", "RETURN"]
    c_rt = assemble(c_items)
    c_cr = creation_code(c_rt)
    bad = apply_op(t["op2"], t["b0"], t["k2"])

    def t_items(tail_off):
        return dispatcher([("setUp()", "S"), ("invariant_ok()", "I")]) + [
            ("label", "S"), "POP",
            ("pushn", 2, len(c_cr)), ("pushn", 2, tail_off), "PUSH0", "CODECOPY",
            ("pushn", 2, len(c_cr)), "PUSH0", "PUSH0", "CREATE", "PUSH0", "SSTORE", "STOP",
            ("label", "I"), "POP",
            ("pushn", 32, sel_int("get()") << 224), "PUSH0", "MSTORE",
            ("push", 32), "PUSH0", ("push", 4), "PUSH0", "PUSH0", "SLOAD", "GAS", "STATICCALL", "POP",
            "PUSH0", "MLOAD", ("pushn", 32, bad), "EQ", ("ref", "FAIL"), "JUMPI", "STOP",
            ("label", "FAIL")] + panic_items(1) + [("raw", c_cr)]

    off = len(assemble(t_items(0))) - len(c_cr)
    t_rt = assemble(t_items(off))
    assert t_rt[off:] == c_cr
    return [Contract("T", [("setUp", []), ("invariant_ok", [])], t_rt),
            Contract("C", [("set", ["uint256", "uint256"], ["a", "b"]), ("get", [])], c_rt, creation=c_cr, path="src/C.sol")]


def gen_inv_scenarios(tier, r):
    out = []
    for i in range(1 if tier == "quick" else 6):
        op, op2 = r.choice(["eq", "xor", "add"]), r.choice(["eq", "eq", "xor"])
        out.append({"op": op, "k": r.randrange(1, 1 << 256) if op != "eq" else 0, "a0": r.randrange(1, 1 << 256),
                    "op2": op2, "k2": r.randrange(1, 1 << 256) if op2 != "eq" else 0, "b0": r.randrange(1, 1 << 256),
                    "solver": ["z3", "yices"][i % 2]})
    return out


def inv_replay(t, vals):
    """concrete execution of C.set(a, b); T.invariant_ok() for the reported inputs (an input the
    model leaves out is a don't-care: 0) -> True iff the assertion fails"""
    a, b = vals.get("a", 0), vals.get("b", 0)
    stored = apply_op(t["op2"], b, t["k2"]) if apply_op(t["op"], a, t["k"]) == apply_op(t["op"], t["a0"], t["k"]) else 0
    return stored == apply_op(t["op2"], t["b0"], t["k2"])


def run_inv_scenario(t, timeout=150):
    prj = Project(inv_contracts(t))
    try:
        res = prj.run(["--invariant-depth", "1", "--solver", t["solver"]], timeout=timeout)
        rec = res.records.get("invariant_ok()")
        ms = []
        for mdl in ((rec or {}).get("models") or []):
            vals = {v["variable_name"]: v["value"] for v in (mdl.get("model") or {}).values()}
            ms.append({"valid": bool(mdl.get("is_valid")), "vals": vals, "names": sorted(mdl.get("model") or {})})
        return {"rc": res.rc, "status": res.status("invariant_ok()"), "models": ms,
                "error": None if res.json is not None else (res.err or res.out)[-600:]}
    finally:
        prj.cleanup()
