"""C15 library: independent Python rendering of the spec (Foundry's filter rules, bounded
call sequences brute-forced on the reference interpreter), counterexample replay, case
generators."""
import re

from harness import c15_l3 as L
from harness import refevm

MASK = (1 << 256) - 1
OTHER_SENDER = 0xBEEF
ORIGIN = 0xBEEF2
CHEAT_KINDS = {"roll": "number", "roll_if": "number", "roll_arg": "number", "fee": "basefee", "chainid": "chainid", "warp_arg": "timestamp"}
SENDER_KINDS = {"only_sender", "not_sender", "caller_br"}
READ_KINDS = {"xstep", "xset_if"}      # compare a slot (written by another function) with the constant "a"
TIME_KINDS = {"after_ts", "before_ts", "store_ts", "ts_ge_slot"}


# ----------------------------------------------------------------------------- spec: filters (Foundry)

def spec_target_contracts(filters, deployed, test):
    """targeted if any else all deployed; minus excluded; plus every contract named in
    targetSelectors(); the test contract only when targeted itself / by a selector."""
    tc = list(filters.get("targetContracts", []))
    ec = set(filters.get("excludeContracts", []))
    tsel = {a: list(s) for a, s in filters.get("targetSelectors", [])}
    base = tc if tc else list(deployed)
    out = [a for a in base if a not in ec]
    for a in tsel:
        if a not in out:
            out.append(a)
    if not (test in tc or tsel.get(test)):
        out = [a for a in out if a != test]
    return out


def merged(pairs):
    out = {}
    for a, s in pairs:
        out.setdefault(a, [])
        out[a] += [x for x in s if x not in out[a]]
    return out


RESERVED_PREFIXES = ("test_", "check_", "prove_", "invariant_")


def spec_selectors(filters, addr, test, methods):
    """methods: [(sig, selector int, mutability str)] -> selected sigs"""
    tsel = merged(filters.get("targetSelectors", [])).get(addr) or []
    esel = merged(filters.get("excludeSelectors", [])).get(addr) or []
    if tsel:
        return [sig for sig, s, _ in methods if s in tsel]
    out = []
    for sig, s, mut in methods:
        if mut in ("pure", "view") or s in esel:
            continue
        if addr == test and (sig.startswith(RESERVED_PREFIXES) or sig in ("setUp()", "afterInvariant()")):
            continue
        out.append(sig)
    return out


def spec_sender_ok(filters, s):
    ts = filters.get("targetSenders", [])
    es = filters.get("excludeSenders", [])
    eff = [t for t in ts if t not in es]
    return (s in eff) if eff else (s not in es)


# ----------------------------------------------------------------------------- spec: state identity

def spec_constraints(comp):
    """Positions of the path conditions that constrain the symbols held in the state
    (Spec/PathSliceSpec.v `constrains`): they mention such a symbol, or share a symbol with a
    condition that does -- in either order.  Computed from the symbols of the terms."""
    syms = [set(s) for s in comp["cond_syms"]]
    reach, out = set(comp["state_syms"]), set()
    changed = True
    while changed:
        changed = False
        for i, s in enumerate(syms):
            if i not in out and s & reach:
                out.add(i)
                reach |= s
                changed = True
    return out


def spec_identity(comp, by_slice=False):
    """Identity of a symbolic state at a transaction boundary (Spec/StateIdSpec.v same_identity):
    balance term, code, storage terms per account (key words, value term) and the SET of path
    conditions that constrain the symbols held in the state (by_slice: the conditions at the
    positions of halmos' slice instead), and the block environment a handler can change (all fields
    but the timestamp, which every invariant transaction replaces by a fresh symbol)."""
    sl = set(comp["sliced"] or ()) if by_slice else spec_constraints(comp)
    cons = frozenset(c for i, c in enumerate(comp["conds"]) if i in sl)
    stor = tuple((a, tuple((tuple(k) if isinstance(k, list) else (k,), v) for k, v in items)) for a, items in comp["storage"])
    return (comp["balance"], tuple(map(tuple, comp["code"])), stor, cons, tuple(comp["block"][:6]))


def enc_components(comp):
    """encoding for the extracted entry point c15_state_classes (see Extract/ExC15.v parse_xstate)"""
    out = [comp["balance"], len(comp["code"])]
    for a, c in comp["code"]:
        out += [a, c]
    out.append(len(comp["storage"]))
    for a, items in comp["storage"]:
        out += [a, len(items)]
        for k, v in items:
            out += ([1, len(k)] + list(k)) if isinstance(k, list) else [0, k]
            out.append(v)
    out += [len(comp["conds"])] + list(comp["conds"])
    if comp["sliced"] is None:
        out += [0, 0]
    else:
        out += [1, len(comp["sliced"])] + list(comp["sliced"])
    return out + list(comp["block"])


# ----------------------------------------------------------------------------- reference-side execution

def world_key(accounts, block):
    return (tuple(sorted((a, acc.get("balance", 0), tuple(sorted((k, v) for k, v in (acc.get("storage") or {}).items() if v)))
                         for a, acc in accounts.items())),
            tuple(sorted(block.items())))


def apply_world(accounts, w):
    out = {}
    addrs = set(accounts) | set(w["code"]) | set(w["balance"])
    for a in addrs:
        old = accounts.get(a, {})
        out[a] = {"balance": w["balance"].get(a, old.get("balance", 0)),
                  "code": w["code"].get(a, old.get("code")),
                  "storage": dict(w["storage"].get(a, {}))}
    return out


def is_panic(ret, code=1):
    return len(ret) >= 36 and ret[:4] == L.PANIC_SEL.to_bytes(4, "big") and int.from_bytes(ret[4:36], "big") == code


def initial_state(built):
    accounts = {L.TEST_ADDR: {"balance": L.TEST_BALANCE, "code": built["t_rt"], "storage": {}}}
    block = dict(refevm.DEFAULT_BLOCK)
    msg = {"this": L.TEST_ADDR, "caller": L.CALLER, "origin": L.CALLER, "value": 0, "data": L.sel("setUp()")}
    [res] = refevm.run_many([(accounts, msg, block, 0)])
    if res["status"] != "ok":
        raise RuntimeError(f"reference setUp failed: {res}")
    return apply_world(accounts, res["world"]), block


def methods_of(built, case):
    """addr -> [(sig, selector, mutability, func)]"""
    out = {}
    for i, (_, _, _, funcs) in enumerate(built["targets"]):
        out[L.target_addr(i)] = [(L.func_sig(f), L.sel_int(L.func_sig(f)), L._mut(f), f) for f in funcs]
    t = [(sig, L.sel_int(sig), mut, None) for sig, mut in built["t_funcs"]]
    hs = {L.func_sig(f): f for f in built["handlers"]}
    out[L.TEST_ADDR] = [(sig, s, mut, hs.get(sig)) for sig, s, mut, _ in t]
    return out


def all_funcs(case):
    fs = list(case.get("handlers", []))
    for t in case["targets"]:
        fs += t.get("funcs", [])  # (an instance `same_as` another target has no functions of its own)
    return fs


def domains(case, feats):
    funcs = all_funcs(case)
    filters = case.get("filters") or {}
    senders = [L.CALLER, OTHER_SENDER]
    for f in funcs:
        if f["kind"] in SENDER_KINDS:
            senders.append(f["k"])
    if any(f["kind"] == "caller_br" for f in funcs):  # the stored sender is compared with these later on
        senders += [f["a"] for f in funcs if f["kind"] in READ_KINDS]
    senders += list(filters.get("targetSenders", [])) + list(filters.get("excludeSenders", []))
    senders = [s for i, s in enumerate(senders) if s not in senders[:i]]
    adm = [s for s in senders if spec_sender_ok(filters, s)]
    sender_sensitive = any(f["kind"] in SENDER_KINDS for f in funcs)
    if not sender_sensitive:
        adm = adm[:1]
    thresholds = set()
    for f in funcs:
        if f["kind"] in ("after_ts", "before_ts"):
            thresholds |= {f["k"], max(1, f["k"] - 1)}
    return {"senders": adm, "thresholds": sorted(thresholds), "time": "time" in feats, "value": "value" in feats, "cheat": "cheat" in feats,
            "read_consts": sorted(f["a"] for f in funcs if f["kind"] in READ_KINDS)}


def read_constants(case):
    """constants a stored value is compared with by another function of the case (+-1)"""
    ks = set()
    for f in all_funcs(case):
        if f["kind"] in READ_KINDS:
            ks |= {f["a"], (f["a"] + 1) & MASK, (f["a"] - 1) & MASK}
    return ks


def arg_domain(f, extra=()):
    if f["kind"] not in L.ARG_KINDS:
        return [None]
    ks = {0, 1, 2, MASK} | set(extra)
    for key in ("k", "a"):
        if key in f:
            ks |= {f[key], (f[key] + 1) & MASK, (f[key] - 1) & MASK}
    return sorted(ks)


def value_domain(f, dom):
    if not dom["value"]:
        return [0]
    if f.get("payable") or not f.get("checkvalue", True):
        vs = [0, 1]
        if f["kind"] == "need_value":
            vs.append(f["k"])
        if f["kind"] in ("value_br", "setv_rel"):
            vs += [f["k"], f["k"] + 1] + list(dom.get("read_consts", []))
        return sorted(set(vs))
    return [0]


def next_blocks(block, f, arg, accounts, dom):
    """block after a successful call of f: cheatcode effect (harness-level meaning of
    vm.roll/fee/chainId/warp), then every admissible later timestamp of the domain"""
    b = dict(block)
    if f is not None and f["kind"] in CHEAT_KINDS and dom["cheat"]:
        b[CHEAT_KINDS[f["kind"]]] = (arg if f["kind"].endswith("_arg") else f["k"]) & (MASK if f["kind"] != "warp_arg" else (1 << 64) - 1)
    outs = [b]
    if dom["time"]:
        cands = set(dom["thresholds"])
        for fn in []:
            pass
        for t in sorted(cands):
            if t > b["timestamp"]:
                nb = dict(b)
                nb["timestamp"] = t
                outs.append(nb)
        # relative waits (ts_ge_slot / store_ts): one more option far in the future
        far = dict(b)
        far["timestamp"] = max(b["timestamp"], 1 << 40)
        if far not in outs:
            outs.append(far)
    return outs


def brute(case, built, depth, feats=("time", "value", "cheat"), max_states=80):
    """All admissible call sequences of length <= depth over the small domains, breadth first
    with de-duplication of identical (world, block) states.
    -> dict(inv_depth, inv_witness, probe_depth, probe_witness, states, runs, complete)"""
    filters = case.get("filters") or {}
    dom = domains(case, feats)
    meths = methods_of(built, case)
    invs = case.get("invariants") or [case["invariant"]]
    accounts0, block0 = initial_state(built)
    extra = read_constants(case)
    for inv in invs:
        if "k" in inv:
            extra |= {inv["k"], (inv["k"] + 1) & MASK, (inv["k"] - 1) & MASK}
    res = {"inv_depth": None, "inv_witness": None, "probe_depth": None, "probe_witness": None, "states": 0, "runs": 0, "complete": True}

    def check_inv(states, k):
        runs = []
        for acc, blk, seq in states:
            for i in range(len(invs)):
                msg = {"this": L.TEST_ADDR, "caller": L.CALLER, "origin": L.CALLER, "value": 0, "data": L.sel(f"invariant_{i}()")}
                runs.append((acc, msg, blk, 0))
        out = refevm.run_many(runs) if runs else []
        res["runs"] += len(runs)
        j = 0
        for acc, blk, seq in states:
            for i in range(len(invs)):
                r = out[j]
                j += 1
                if r["status"] == "revert" and is_panic(r.get("ret", b"")) and res["inv_depth"] is None:
                    res["inv_depth"] = k
                    res["inv_witness"] = seq

    level = [(accounts0, block0, [])]
    seen = {world_key(accounts0, block0)}
    res["states"] = 1
    check_inv(level, 0)
    for k in range(1, depth + 1):
        if res["inv_depth"] is not None:
            break
        txs = []
        for acc, blk, seq in level:
            deployed = [a for a, x in acc.items() if x.get("code")]
            for addr in spec_target_contracts(filters, deployed, L.TEST_ADDR):
                if addr not in meths:
                    continue
                sel_sigs = spec_selectors(filters, addr, L.TEST_ADDR, [(s, n, m) for s, n, m, _ in meths[addr]])
                for sig, selector, mut, f in meths[addr]:
                    if sig not in sel_sigs:
                        continue
                    fd = f or {"kind": "other"}
                    for arg in (arg_domain(f, extra) if f else [None]):
                        for snd in dom["senders"]:
                            for val in (value_domain(f, dom) if f else [0]):
                                if snd in acc and acc[snd].get("balance", 0) < val:
                                    continue
                                acc2 = {a: dict(x) for a, x in acc.items()}
                                if val:
                                    if snd in acc2:
                                        acc2[snd]["balance"] -= val
                                    acc2[addr]["balance"] = acc2[addr].get("balance", 0) + val
                                data = selector.to_bytes(4, "big") + (b"" if arg is None else arg.to_bytes(32, "big"))
                                msg = {"this": addr, "caller": snd, "origin": ORIGIN, "value": val, "data": data}
                                tx = {"to": addr, "sig": sig, "arg": arg, "sender": snd, "value": val, "ts": blk["timestamp"], "kind": fd["kind"]}
                                txs.append((acc2, msg, blk, seq, tx, f))
        out = refevm.run_many([(a, m, b, 0) for a, m, b, _, _, _ in txs]) if txs else []
        res["runs"] += len(txs)
        nxt = []
        for (acc2, msg, blk, seq, tx, f), r in zip(txs, out):
            if r["status"] == "ok":
                acc3 = apply_world(acc2, r["world"])
                for nb in next_blocks(blk, f, tx["arg"] or 0, acc3, dom):
                    key = world_key(acc3, nb)
                    if key in seen:
                        continue
                    seen.add(key)
                    nxt.append((acc3, nb, seq + [dict(tx, next_ts=nb["timestamp"])]))
            elif r["status"] == "revert" and is_panic(r.get("ret", b"")):
                if res["probe_depth"] is None:
                    res["probe_depth"] = k
                    res["probe_witness"] = seq + [tx]
        if len(nxt) > max_states:
            nxt = nxt[:max_states]
            res["complete"] = False
        res["states"] += len(nxt)
        check_inv(nxt, k)
        level = nxt
    return res


def witness_features(w):
    fe = set()
    for tx in w or []:
        if tx.get("value"):
            fe.add("value")
        if tx.get("kind") in CHEAT_KINDS:
            fe.add("cheat")
        if tx.get("next_ts", tx["ts"]) != tx["ts"]:
            fe.add("time")
    return sorted(fe)


# ----------------------------------------------------------------------------- counterexample replay

CALL_RE = re.compile(r"^CALL (\S+?)::(\S+?)\((.*?)\)(?: \(value: (\S+)\))? \(caller: (\S+)\)$")


def _val(tok, model, default=0):
    if tok is None:
        return 0
    if re.fullmatch(r"0x[0-9a-fA-F]+", tok):
        return int(tok, 16)
    if re.fullmatch(r"\d+", tok):
        return int(tok)
    return model.get(tok, default)


def replay_cex(case, built, cex):
    """Instantiates the printed call sequence with the printed model and runs it on the
    reference interpreter.  -> (reproduced: bool, detail)"""
    model = cex["model"]
    accounts, block = initial_state(built)
    names = {name: L.target_addr(i) for i, (name, _, _, _) in enumerate(built["targets"])}
    names["T"] = L.TEST_ADDR
    ts_by_depth = {}
    for k, v in model.items():
        m = re.match(r"halmos_block_timestamp_depth(\d+)_", k)
        if m:
            ts_by_depth[int(m.group(1))] = v
    meths = methods_of(built, case)
    calls = []
    for ln in cex["sequence"]:
        m = CALL_RE.match(ln)
        if not m:
            return False, f"unparsed sequence line: {ln}"
        to, selector, args, value, caller = m.groups()
        addr = names.get(to) if to in names else int(to, 16)
        fname = selector
        sel_bytes = None
        if re.fullmatch(r"0x[0-9a-fA-F]{8}", selector):
            sel_bytes = bytes.fromhex(selector[2:])
        else:
            for sig, s, _, _ in meths.get(addr, []):
                if sig.split("(")[0] == selector:
                    sel_bytes = s.to_bytes(4, "big")
        if sel_bytes is None:
            return False, f"unknown function {fname}"
        data = sel_bytes
        args = args.strip()
        if args:
            if re.fullmatch(r"0x[0-9a-fA-F]+", args):
                data += bytes.fromhex(args[2:])
            else:
                # symbolic words: names separated by non-identifier characters
                for tok in re.findall(r"[A-Za-z_][A-Za-z0-9_]*|0x[0-9a-fA-F]+", args):
                    if tok in ("Concat", "Extract"):
                        continue
                    data += (_val(tok, model) & MASK).to_bytes(32, "big")
        calls.append((addr, data, _val(value, model), _val(caller, model, OTHER_SENDER) if caller else OTHER_SENDER))
    fmap = {}
    for a, ms in meths.items():
        for sig, s, _, f in ms:
            fmap[(a, s.to_bytes(4, "big"))] = f
    last = None
    filters = case.get("filters") or {}
    deployed = [a for a, x in accounts.items() if x.get("code")]
    for i, (addr, data, val, snd) in enumerate(calls, 1):
        # admissibility of the printed call under Foundry's filter rules
        if not spec_sender_ok(filters, snd):
            return False, f"call {i}: sender {hex(snd)} is not admissible under targetSenders/excludeSenders"
        if addr not in spec_target_contracts(filters, deployed, L.TEST_ADDR):
            return False, f"call {i}: contract {hex(addr)} is not a target under the contract filters"
        sigs = spec_selectors(filters, addr, L.TEST_ADDR, [(s_, n_, m_) for s_, n_, m_, _ in meths.get(addr, [])])
        # (a call of a view / pure function cannot change the state: tolerated here; that halmos
        #  selects such functions at all is reported separately as selector over-selection)
        if not any(n_.to_bytes(4, "big") == data[:4] for s_, n_, m_, _ in meths.get(addr, []) if s_ in sigs or m_ in ("view", "pure")):
            return False, f"call {i}: selector 0x{data[:4].hex()} is not a target selector of {hex(addr)}"
        acc2 = {a: dict(x) for a, x in accounts.items()}
        if val:
            if snd in acc2:
                acc2[snd]["balance"] -= val
            if addr in acc2:
                acc2[addr]["balance"] = acc2[addr].get("balance", 0) + val
        msg = {"this": addr, "caller": snd, "origin": ORIGIN, "value": val, "data": data}
        [r] = refevm.run_many([(acc2, msg, block, 0)])
        last = r
        if r["status"] != "ok":
            if cex.get("probe") and i == len(calls):
                return (r["status"] == "revert" and is_panic(r.get("ret", b""))), f"last call: {r['status']}"
            return False, f"call {i} of the printed sequence does not succeed on the reference interpreter: {r['status']}"
        accounts = apply_world(acc2, r["world"])
        f = fmap.get((addr, data[:4]))
        if f is not None and f["kind"] in CHEAT_KINDS:
            arg = int.from_bytes(data[4:36], "big") if len(data) >= 36 else 0
            block = dict(block)
            block[CHEAT_KINDS[f["kind"]]] = arg if f["kind"].endswith("_arg") else f["k"]
        if i in ts_by_depth:
            if ts_by_depth[i] < block["timestamp"]:
                return False, f"timestamp decreases after call {i}"
            block = dict(block)
            block["timestamp"] = ts_by_depth[i]
    if cex.get("probe"):
        return False, "probe sequence ended without a panic"
    invs = case.get("invariants") or [case["invariant"]]
    for i in range(len(invs)):
        msg = {"this": L.TEST_ADDR, "caller": L.CALLER, "origin": L.CALLER, "value": 0, "data": L.sel(f"invariant_{i}()")}
        [r] = refevm.run_many([(accounts, msg, block, 0)])
        if r["status"] == "revert" and is_panic(r.get("ret", b"")):
            return True, f"invariant_{i} breaks"
    return False, "the invariant holds after the printed sequence on the reference interpreter"


# ----------------------------------------------------------------------------- generators

C0, C1 = L.target_addr(0), L.target_addr(1)


def corpus():
    """hand-written cases: one per mechanism (depth off-by-one, de-duplication, filters, senders, values, time)"""
    cs = []

    def add(name, targets, inv, depth, filters=None, **kw):
        cs.append(dict(name=name, targets=targets, invariant=inv, depth=depth, filters=filters or {}, **kw))

    inc = {"name": "inc", "kind": "inc", "slot": 0}
    for d in (0, 1, 2, 3):
        add(f"counter-lt3-d{d}", [{"name": "C0", "funcs": [inc]}], {"kind": "slot_lt", "addr": C0, "slot": 0, "k": 3}, d)
        add(f"counter-lt2-d{d}", [{"name": "C0", "funcs": [inc]}], {"kind": "slot_lt", "addr": C0, "slot": 0, "k": 2}, d)
    steps = [{"name": "s1", "kind": "step", "slot": 0, "a": 0, "b": 1}, {"name": "s2", "kind": "step", "slot": 0, "a": 1, "b": 2},
             {"name": "s3", "kind": "step", "slot": 0, "a": 2, "b": 3}]
    for d in (2, 3):
        add(f"steps-d{d}", [{"name": "C0", "funcs": steps}], {"kind": "slot_ne", "addr": C0, "slot": 0, "k": 3}, d)
    # a toggle returning to a visited state must not stop the exploration of the other branch
    add("toggle-then-step", [{"name": "C0", "funcs": [{"name": "on", "kind": "step", "slot": 0, "a": 0, "b": 1}, {"name": "off", "kind": "step", "slot": 0, "a": 1, "b": 0},
                                                       {"name": "go", "kind": "step", "slot": 1, "a": 0, "b": 7}]}],
        {"kind": "slot_ne", "addr": C0, "slot": 1, "k": 7}, 1)
    # two different paths to different states with equal storage in one slot
    add("two-slots", [{"name": "C0", "funcs": [{"name": "a", "kind": "step", "slot": 0, "a": 0, "b": 1}, {"name": "b", "kind": "step", "slot": 1, "a": 0, "b": 1},
                                                {"name": "c", "kind": "guard_arg", "slot": 0, "k": 9, "b": 5}]}],
        {"kind": "slot_ne", "addr": C0, "slot": 0, "k": 5}, 2)
    add("arg-set", [{"name": "C0", "funcs": [{"name": "setv", "kind": "setv", "slot": 0}]}], {"kind": "slot_ne", "addr": C0, "slot": 0, "k": 77}, 1)
    add("arg-add", [{"name": "C0", "funcs": [{"name": "addv", "kind": "addv", "slot": 0}]}], {"kind": "slot_le", "addr": C0, "slot": 0, "k": 5}, 1)
    # filters
    two = [{"name": "C0", "funcs": [inc]}, {"name": "C1", "funcs": [{"name": "inc", "kind": "inc", "slot": 0}, {"name": "dec", "kind": "step", "slot": 0, "a": 1, "b": 0}]}]
    inv1 = {"kind": "slot_lt", "addr": C1, "slot": 0, "k": 1}
    add("exclude-contract", two, inv1, 1, {"excludeContracts": [C1]})
    add("target-contract", two, inv1, 1, {"targetContracts": [C0]})
    add("target-contract-hit", two, inv1, 1, {"targetContracts": [C1]})
    add("exclude-but-selector-targeted", two, inv1, 1, {"excludeContracts": [C1], "targetSelectors": [[C1, [L.sel_int("inc()")]]]})
    add("target-selector-only-dec", two, inv1, 2, {"targetSelectors": [[C1, [L.sel_int("dec()")]]], "targetContracts": [C1]})
    add("exclude-selector", two, inv1, 1, {"excludeSelectors": [[C1, [L.sel_int("inc()")]]]})
    add("target-overrides-exclude-selector", two, inv1, 1, {"excludeSelectors": [[C1, [L.sel_int("inc()")]]], "targetSelectors": [[C1, [L.sel_int("inc()")]]]})
    own = [{"name": "C0", "funcs": [{"name": "own", "kind": "only_sender", "slot": 0, "k": 0x1234, "b": 1}]}]
    invo = {"kind": "slot_ne", "addr": C0, "slot": 0, "k": 1}
    add("sender-any", own, invo, 1)
    add("sender-excluded", own, invo, 1, {"excludeSenders": [0x1234]})
    add("sender-targeted", own, invo, 1, {"targetSenders": [0x1234, 0x99]})
    add("sender-targeted-other", own, invo, 1, {"targetSenders": [0x99]})
    add("sender-targeted-and-excluded", own, invo, 1, {"targetSenders": [0x1234], "excludeSenders": [0x1234]})
    add("sender-target-minus-excluded", own, invo, 1, {"targetSenders": [0x1234, 0x99], "excludeSenders": [0x1234]})
    nown = [{"name": "C0", "funcs": [{"name": "nown", "kind": "not_sender", "slot": 0, "k": 0x99, "b": 1}]}]
    add("not-sender-targeted", nown, invo, 1, {"targetSenders": [0x99]})
    add("not-sender-targeted2", nown, invo, 1, {"targetSenders": [0x99, 0x98]})
    # test contract as a target
    hnd = [{"name": "poke", "kind": "step", "slot": 0, "a": 0, "b": 4}]
    invt = {"kind": "slot_ne", "addr": L.TEST_ADDR, "slot": 0, "k": 4}
    add("test-contract-not-targeted", [{"name": "C0", "funcs": [inc]}], invt, 1, handlers=hnd)
    add("test-contract-targeted", [{"name": "C0", "funcs": [inc]}], invt, 1, {"targetContracts": [L.TEST_ADDR]}, handlers=hnd)
    add("test-contract-selector-targeted", [{"name": "C0", "funcs": [inc]}], invt, 1, {"targetSelectors": [[L.TEST_ADDR, [L.sel_int("poke()")]]]}, handlers=hnd)
    add("test-contract-targeted-and-excluded", [{"name": "C0", "funcs": [inc]}], invt, 1, {"targetContracts": [L.TEST_ADDR, C0], "excludeContracts": [L.TEST_ADDR]}, handlers=hnd)
    # values and time
    add("value-needed", [{"name": "C0", "funcs": [{"name": "pay", "kind": "need_value", "slot": 0, "k": 3, "b": 1, "payable": True}]}], invo, 1)
    add("value-deposit-slot", [{"name": "C0", "funcs": [{"name": "dep", "kind": "deposit", "slot": 0, "payable": True}]}], {"kind": "slot_lt", "addr": C0, "slot": 0, "k": 1}, 1)
    add("nonpayable-rejects-value", [{"name": "C0", "funcs": [inc]}], {"kind": "slot_lt", "addr": C0, "slot": 0, "k": 9}, 2)
    add("time-after-other-call", [{"name": "C0", "funcs": [{"name": "inc", "kind": "inc", "slot": 1}, {"name": "late", "kind": "after_ts", "slot": 0, "k": 100, "b": 1}]}], invo, 2)
    add("time-first-call-at-setup-time", [{"name": "C0", "funcs": [{"name": "late", "kind": "after_ts", "slot": 0, "k": 100, "b": 1}]}], invo, 1)
    add("time-before", [{"name": "C0", "funcs": [{"name": "inc", "kind": "inc", "slot": 1}, {"name": "early", "kind": "before_ts", "slot": 0, "k": 100, "b": 1}]}], invo, 2)
    # known defects
    add("F9-roll", [{"name": "C0", "funcs": [{"name": "r", "kind": "roll", "k": 5}, {"name": "n", "kind": "need_number", "slot": 0, "k": 5, "b": 1}]}], invo, 2)
    # ... the same where vm.roll is only possible after a storage change: the state it must not be merged with is not the setUp state
    add("F9-roll-after-change", [{"name": "C0", "funcs": [{"name": "inc", "kind": "step", "slot": 1, "a": 0, "b": 1}, {"name": "r", "kind": "roll_if", "slot": 1, "a": 1, "k": 5},
                                                           {"name": "n", "kind": "need_number", "slot": 0, "k": 5, "b": 1}]}], invo, 3)
    add("F9-fee", [{"name": "C0", "funcs": [{"name": "r", "kind": "fee", "k": 7}, {"name": "n", "kind": "need_fee", "slot": 0, "k": 7, "b": 1}]}], invo, 2)
    add("setup-merge-time", [{"name": "C0", "funcs": [{"name": "noop", "kind": "noop_payable", "payable": True}, {"name": "late", "kind": "after_ts", "slot": 0, "k": 100, "b": 1}]}], invo, 2)
    add("F12-probe", [{"name": "C0", "funcs": [inc, {"name": "bad", "kind": "assert_arg", "slot": 0, "a": 1, "k": 5}]}], {"kind": "true"}, 2)
    add("F12-probe-d1", [{"name": "C0", "funcs": [inc, {"name": "bad", "kind": "assert_arg", "slot": 0, "a": 1, "k": 5}]}], {"kind": "true"}, 1)
    add("value-balance", [{"name": "C0", "funcs": [{"name": "dep", "kind": "noop_payable", "payable": True}]}], {"kind": "bal_zero", "addr": C0}, 1)
    # state identity covers the constraints on the symbols held in the state: set(x) { s = x; if (x > 9) {} else {} }
    # ends in two states with the same storage term and different constraints; each side enables a different later call
    fire_s = {"name": "fireS", "kind": "xset_if", "slot": 0, "a": 5, "t": 1, "b": 1}
    fire_b = {"name": "fireB", "kind": "xset_if", "slot": 0, "a": 50, "t": 1, "b": 2}
    setbr = {"name": "set", "kind": "setv_br", "slot": 0, "k": 9, "cmp": "gt"}
    for side, b in (("small", 1), ("big", 2)):
        add(f"branch-cond-arg-{side}", [{"name": "C0", "funcs": [setbr, fire_s, fire_b]}], {"kind": "slot_ne", "addr": C0, "slot": 1, "k": b}, 2)
    add("branch-cond-arg-d3", [{"name": "C0", "funcs": [setbr, fire_b, {"name": "fin", "kind": "xstep", "slot": 1, "a": 2, "t": 1, "b": 3}]}],
        {"kind": "slot_ne", "addr": C0, "slot": 1, "k": 3}, 3)
    add("branch-cond-arg-late-store", [{"name": "C0", "funcs": [dict(setbr, late=True, cmp="lt", k=20), fire_s, fire_b]}], {"kind": "slot_ne", "addr": C0, "slot": 1, "k": 2}, 2)
    add("branch-cond-arg-eq", [{"name": "C0", "funcs": [dict(setbr, cmp="eq", k=7), fire_s, {"name": "fireK", "kind": "xstep", "slot": 0, "a": 7, "t": 1, "b": 2}]}],
        {"kind": "slot_ne", "addr": C0, "slot": 1, "k": 1}, 2)
    for side, b in (("eq", 1), ("ne", 2)):
        add(f"branch-cond-caller-{side}", [{"name": "C0", "funcs": [{"name": "reg", "kind": "caller_br", "slot": 0, "k": 0x1234, "cmp": "eq"},
                                                                   {"name": "fireA", "kind": "xstep", "slot": 0, "a": 0x1234, "t": 1, "b": 1},
                                                                   {"name": "fireB", "kind": "xstep", "slot": 0, "a": 0x99, "t": 1, "b": 2}]}],
            {"kind": "slot_ne", "addr": C0, "slot": 1, "k": b}, 2)
    add("branch-cond-value", [{"name": "C0", "funcs": [{"name": "dep", "kind": "value_br", "slot": 0, "k": 1, "cmp": "gt", "payable": True},
                                                        {"name": "fireS", "kind": "xset_if", "slot": 0, "a": 1, "t": 1, "b": 1},
                                                        {"name": "fireB", "kind": "xset_if", "slot": 0, "a": 3, "t": 1, "b": 2}]}],
        {"kind": "slot_ne", "addr": C0, "slot": 1, "k": 2}, 2)
    # ... and a branch on a symbol that is NOT held in the state: the two end states are identical (one frontier state)
    add("branch-cond-unrelated", [{"name": "C0", "funcs": [dict(setbr, const=7), fire_s, {"name": "fireK", "kind": "xset_if", "slot": 0, "a": 7, "t": 1, "b": 2}]}],
        {"kind": "slot_ne", "addr": C0, "slot": 1, "k": 2}, 2)
    # the branch condition is on msg.value, tied to the stored argument by a later condition (arg == msg.value):
    # a constraint of the state through the dependency closure of the slice
    for side, b in (("lo", 1), ("hi", 2)):
        add(f"branch-cond-related-{side}", [{"name": "C0", "funcs": [{"name": "set", "kind": "setv_rel", "slot": 0, "k": 9, "payable": True},
                                                                     {"name": "fireS", "kind": "xset_if", "slot": 0, "a": 5, "t": 1, "b": 1},
                                                                     {"name": "fireB", "kind": "xset_if", "slot": 0, "a": 50, "t": 1, "b": 2}]}],
            {"kind": "slot_ne", "addr": C0, "slot": 1, "k": b}, 2)
    # assertions inside a target: a candidate that is refuted by the full query (it contradicts a constraint that is
    # not a constraint on the state: timestamp >= previous timestamp) must not suppress a genuine failure of the
    # same function found later (deeper, or from a sibling state)
    st_a = {"name": "a", "kind": "step", "slot": 0, "a": 0, "b": 1}
    st_b = {"name": "b", "kind": "step", "slot": 0, "a": 1, "b": 2}
    st_b2 = {"name": "b2", "kind": "step", "slot": 0, "a": 0, "b": 2}
    chk = {"name": "check", "kind": "assert_stages", "slot": 0, "a": 1, "c": 2}
    add("probe-after-refuted-candidate", [{"name": "C0", "funcs": [st_a, st_b, chk]}], {"kind": "true"}, 3)
    add("probe-sibling-refuted-first", [{"name": "C0", "funcs": [st_a, st_b2, chk]}], {"kind": "true"}, 2)
    add("probe-sibling-genuine-first", [{"name": "C0", "funcs": [st_b2, st_a, dict(chk, imp="ts_ge1")]}], {"kind": "true"}, 2)
    add("probe-refuted-only", [{"name": "C0", "funcs": [st_a, {"name": "check", "kind": "assert_stages", "slot": 0, "a": 1}]}], {"kind": "true"}, 2)
    # two INSTANCES of one contract (one artifact, two addresses) with different selector filters: the functions run
    # on an account are resolved for its ADDRESS, not for its contract
    nop = {"name": "nop", "kind": "step", "slot": 1, "a": 0, "b": 1}
    hit = {"name": "hit", "kind": "step", "slot": 0, "a": 0, "b": 1}
    twins = [{"name": "C0", "funcs": [nop, hit]}, {"name": "C0", "same_as": 0}]
    sn, sh = L.sel_int("nop()"), L.sel_int("hit()")
    add("instances-tsel-second-hit", twins, {"kind": "slot_ne", "addr": C1, "slot": 0, "k": 1}, 1, {"targetSelectors": [[C0, [sn]], [C1, [sh]]]})
    add("instances-tsel-first-hit", twins, {"kind": "slot_ne", "addr": C0, "slot": 0, "k": 1}, 1, {"targetSelectors": [[C0, [sh]], [C1, [sn]]]})
    add("instances-tsel-holds", twins, {"kind": "slot_ne", "addr": C1, "slot": 0, "k": 1}, 2, {"targetSelectors": [[C0, [sh, sn]], [C1, [sn]]]})
    add("instances-esel-second", twins, {"kind": "slot_ne", "addr": C0, "slot": 0, "k": 1}, 1, {"excludeSelectors": [[C1, [sh]]]})
    add("instances-esel-first", twins, {"kind": "slot_ne", "addr": C1, "slot": 0, "k": 1}, 1, {"excludeSelectors": [[C0, [sh]]]})
    # ... the same with the tying condition FIRST and the branch on msg.value after it: the branch condition is
    # related to the stored symbol only through an EARLIER condition
    for side, b in (("lo", 1), ("hi", 2)):
        add(f"branch-cond-forward-{side}", [{"name": "C0", "funcs": [{"name": "set", "kind": "setv_rel", "slot": 0, "k": 9, "payable": True, "rel_first": True},
                                                                     {"name": "fireS", "kind": "xset_if", "slot": 0, "a": 5, "t": 1, "b": 1},
                                                                     {"name": "fireB", "kind": "xset_if", "slot": 0, "a": 50, "t": 1, "b": 2}]}],
            {"kind": "slot_ne", "addr": C0, "slot": 1, "k": b}, 2)
    # the invariant's OWN run on every frontier state: the invariant reads the slot that holds the stored SYMBOL, so it
    # branches on a symbolic condition of the same shape (x == b) on several frontier states; the two end states of set(x)
    # carry contradicting constraints on x (x > 9 / x <= 9).  Each state has to be explored under its own constraints
    # only -- whatever the run on the previous state left in a solver must not decide the branches of the next one
    # (siblings at depth 1; at depth 2 behind an enabling transaction)
    mark = {"name": "mark", "kind": "step", "slot": 1, "a": 0, "b": 1}
    for side, b in (("lo", 5), ("hi", 15)):
        add(f"solver-ctx-siblings-{side}", [{"name": "C0", "funcs": [setbr]}], {"kind": "slot_ne", "addr": C0, "slot": 0, "k": b}, 1)
        add(f"solver-ctx-gated-d2-{side}", [{"name": "C0", "funcs": [mark, dict(setbr, when=[1, 1])]}], {"kind": "slot_ne", "addr": C0, "slot": 0, "k": b}, 2)
    return cs


FUNC_KINDS = ["inc", "setv", "addv", "step", "step", "guard_arg", "only_sender", "after_ts", "deposit", "need_value", "assert_arg", "noop_payable", "not_sender"]


def gen_case(r, idx):
    """grammar: 1-2 targets with 1-3 guarded-transition functions over two slots; an invariant
    on one slot; depth 0..3; random filter combination"""
    nt = r.choice([1, 1, 2])
    targets = []
    for t in range(nt):
        funcs = []
        for j in range(r.randint(1, 3)):
            k = r.choice(FUNC_KINDS)
            f = {"name": f"f{j}", "kind": k, "slot": r.randint(0, 1), "a": r.randint(0, 2), "b": r.randint(1, 3), "k": r.choice([1, 2, 5, 100, 0x1234])}
            if k in ("deposit", "need_value", "noop_payable"):
                f["payable"] = True
            if k == "need_value":
                f["k"] = r.choice([1, 2])
            if k in ("only_sender", "not_sender"):
                f["k"] = r.choice([0x1234, 0x99])
            if k == "after_ts":
                f["k"] = r.choice([2, 100])
            funcs.append(f)
        targets.append({"name": f"C{t}", "funcs": funcs})
    ti = r.randrange(nt)
    inv = {"kind": r.choice(["slot_ne", "slot_lt", "slot_le"]), "addr": L.target_addr(ti), "slot": r.randint(0, 1), "k": r.randint(1, 3)}
    filters = {}
    addrs = [L.target_addr(i) for i in range(nt)]
    if r.random() < 0.3:
        filters["targetContracts"] = r.sample(addrs, r.randint(1, nt))
    if r.random() < 0.25:
        filters["excludeContracts"] = r.sample(addrs, 1)
    if r.random() < 0.3:
        a = r.choice(addrs)
        fs = targets[addrs.index(a)]["funcs"]
        filters["targetSelectors"] = [[a, [L.sel_int(L.func_sig(f)) for f in r.sample(fs, r.randint(1, len(fs)))]]]
    if r.random() < 0.15:
        a = r.choice(addrs)
        fs = targets[addrs.index(a)]["funcs"]
        filters["excludeSelectors"] = [[a, [L.sel_int(L.func_sig(r.choice(fs)))]]]
    if r.random() < 0.3:
        filters["targetSenders"] = r.sample([0x1234, 0x99, 0x98], r.randint(1, 2))
    if r.random() < 0.3:
        filters["excludeSenders"] = r.sample([0x1234, 0x99, 0x98], r.randint(1, 2))
    return {"name": f"gen-{idx}", "targets": targets, "invariant": inv, "depth": r.choice([0, 1, 2, 2, 3]), "filters": filters}


def gen_branch_case(r, idx, max_depth=3):
    """grammar for state identity: a function that stores a transaction value (argument / sender /
    msg.value) and branches on it without changing storage differently (both end states carry the
    same storage term, the constraint on the stored symbol differs), one or two functions enabled
    by a stored value on a chosen side of the branch, optional bystander functions, depth 2..3."""
    src = r.choice(["setv_br", "setv_br", "caller_br", "value_br", "setv_rel"])
    cmp_ = "eq" if src == "caller_br" else "gt" if src == "setv_rel" else r.choice(["gt", "lt", "eq"])
    K = r.choice([0x1234, 0x99]) if src == "caller_br" else r.randint(1, 40)
    st = {"name": "set", "kind": src, "slot": 0, "k": K, "cmp": cmp_}
    if src in ("value_br", "setv_rel"):
        st["payable"] = True
    if r.random() < 0.3:
        st["late"] = True
    if src == "setv_rel":
        # the branch is on msg.value, tied to the stored argument by arg == msg.value before or after it
        st.pop("late", None)
        st["rel_first"] = r.random() < 0.5
    if src == "caller_br":
        inside, outside = [0x1234 if K == 0x1234 else 0x99], [0x99 if K == 0x1234 else 0x1234, 0x98]
    else:
        inside = {"gt": [K + 1, K + 7], "lt": [K - 1, max(0, K - 5)], "eq": [K]}[cmp_]
        outside = {"gt": [K, max(0, K - 3)], "lt": [K, K + 4], "eq": [K + 1, max(0, K - 1)]}[cmp_]
    side = r.choice(["in", "out"])
    funcs = [st]
    kinds = [r.choice(["xset_if", "xstep"]) for _ in range(2)]
    funcs.append({"name": "fireI", "kind": kinds[0], "slot": 0, "a": r.choice(inside), "t": 1, "b": 1})
    funcs.append({"name": "fireO", "kind": kinds[1], "slot": 0, "a": r.choice(outside), "t": 1, "b": 2})
    if r.random() < 0.4:
        funcs.append({"name": "inc", "kind": "inc", "slot": 0})
    r.shuffle(funcs)
    depth = min(max_depth, r.choice([2, 2, 3]))
    inv = {"kind": "slot_ne", "addr": C0, "slot": 1, "k": 1 if side == "in" else 2}
    filters = {}
    if src == "caller_br" and r.random() < 0.4:
        filters["targetSenders"] = [0x1234, 0x99, 0x98]
    return {"name": f"gen-branch-{idx}", "targets": [{"name": "C0", "funcs": funcs}], "invariant": inv, "depth": depth, "filters": filters}


def gen_solverctx_case(r, idx, max_depth=2):
    """grammar for the invariant's own run on sibling frontier states: set(x) stores the argument and branches on it
    (gt / lt / eq a constant, store before or after the branch), optionally enabled only after mark(); the invariant reads
    the slot holding the symbol (slot != b, b on either side of the branch), so it branches symbolically, with one condition
    shape, on every end state of set -- states that share the symbol and carry contradicting constraints on it."""
    cmp_ = r.choice(["gt", "gt", "lt", "eq"])
    K = r.randint(3, 40)
    inside = {"gt": K + 1 + r.randint(0, 5), "lt": max(0, K - 1 - r.randint(0, 2)), "eq": K}[cmp_]
    outside = {"gt": K - r.randint(0, 2), "lt": K + r.randint(0, 5), "eq": K + 1 + r.randint(0, 3)}[cmp_]
    side = r.choice(["in", "out"])
    st = {"name": "set", "kind": "setv_br", "slot": 0, "k": K, "cmp": cmp_}
    if r.random() < 0.3:
        st["late"] = True
    gated = max_depth >= 2 and r.random() < 0.5
    if gated:
        funcs = [{"name": "mark", "kind": "step", "slot": 1, "a": 0, "b": 1}, dict(st, when=[1, 1])]
        depth = 2
    else:
        funcs = [st]
        depth = r.choice([1, 1, min(2, max_depth)])
    r.shuffle(funcs)
    inv = {"kind": "slot_ne", "addr": C0, "slot": 0, "k": inside if side == "in" else outside}
    return {"name": f"gen-solverctx-{idx}", "targets": [{"name": "C0", "funcs": funcs}], "invariant": inv, "depth": depth, "filters": {}}


def gen_instances_case(r, idx):
    """grammar for per-address target resolution: one contract with 2-3 guarded-transition functions,
    deployed 2-3 times; every instance gets its own random targetSelectors() / excludeSelectors() entry
    (or none); optional contract filters by address; invariant on one instance; depth 1..2."""
    nf = r.randint(2, 3)
    funcs = []
    for j in range(nf):
        k = r.choice(["step", "step", "inc", "setv", "guard_arg"])
        funcs.append({"name": f"f{j}", "kind": k, "slot": r.randint(0, 1), "a": r.randint(0, 1), "b": r.randint(1, 2), "k": r.choice([1, 2, 5])})
    n = r.choice([2, 2, 3])
    targets = [{"name": "C0", "funcs": funcs}] + [{"name": "C0", "same_as": 0} for _ in range(n - 1)]
    addrs = [L.target_addr(i) for i in range(n)]
    sels = [L.sel_int(L.func_sig(f)) for f in funcs]
    filters = {}
    mode = r.choice(["target", "target", "exclude", "mixed"])
    for a in addrs:
        if r.random() < 0.25:
            continue
        sub = r.sample(sels, r.randint(1, len(sels)))
        key = "targetSelectors" if mode == "target" or (mode == "mixed" and r.random() < 0.5) else "excludeSelectors"
        filters.setdefault(key, []).append([a, sub])
    if r.random() < 0.2:
        filters["excludeContracts"] = [r.choice(addrs)]
    inv = {"kind": r.choice(["slot_ne", "slot_lt"]), "addr": r.choice(addrs), "slot": r.randint(0, 1), "k": r.randint(1, 2)}
    return {"name": f"gen-instances-{idx}", "targets": targets, "invariant": inv, "depth": r.choice([1, 1, 2]), "filters": filters}


def gen_probe_case(r, idx, max_depth=3):
    """grammar for assertions inside targets: check() holds an assertion that cannot fail (it contradicts
    the monotonicity of timestamps, which only the full query knows: the candidate is explored and then
    refuted) at one stage and a genuine one at another stage; the stages are reached by guarded
    transitions -- siblings from stage 0 (depth 2) or a chain (depth 3) --; optional bystander; the
    order of the functions (hence of the exploration) is random."""
    shape = r.choice(["sibling", "sibling", "chain"]) if max_depth >= 3 else "sibling"
    s1, s2 = r.sample([1, 2, 3], 2)
    if shape == "sibling":
        funcs = [{"name": "a", "kind": "step", "slot": 0, "a": 0, "b": s1}, {"name": "b", "kind": "step", "slot": 0, "a": 0, "b": s2}]
        depth = 2
    else:
        funcs = [{"name": "a", "kind": "step", "slot": 0, "a": 0, "b": s1}, {"name": "b", "kind": "step", "slot": 0, "a": s1, "b": s2}]
        depth = 3
    imp_stage, gen_stage = (s1, s2) if shape == "chain" or r.random() < 0.5 else (s2, s1)
    chk = {"name": "check", "kind": "assert_stages", "slot": 0, "a": imp_stage, "imp": r.choice(["ts_nonzero", "ts_ge1"])}
    if r.random() < 0.85:
        chk["c"] = gen_stage
    funcs.append(chk)
    if r.random() < 0.3:
        funcs.append({"name": "tick", "kind": "inc", "slot": 1})
    r.shuffle(funcs)
    return {"name": f"gen-probe-{idx}", "targets": [{"name": "C0", "funcs": funcs}], "invariant": {"kind": "true"}, "depth": depth, "filters": {}}


def resolved_nonempty(case):
    built_targets = [L.target_addr(i) for i in range(len(case["targets"]))]
    return bool(spec_target_contracts(case.get("filters") or {}, built_targets + [L.TEST_ADDR], L.TEST_ADDR))
