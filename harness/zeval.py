"""Evaluator for the z3 terms halmos builds, under a concrete valuation.

Independent of z3's own model evaluation: terms are interpreted bottom-up in Python
big-int arithmetic with SMT-LIB semantics (bvudiv x 0 = all ones, bvurem x 0 = x, ...);
the uninterpreted functions halmos introduces are given their *standard* interpretation:
  f_evm_bvmul_N / bvudiv / bvurem / bvsdiv / bvsrem / exp : the exact EVM operation
  f_sha3_N(data) : Keccak-256 of the N/8 bytes, f_sha3_0 / f_sha3_empty: Keccak-256 of b""
Arrays are python (dict, default) pairs.  Unknown symbols raise Unknown.
"""
import z3
from eth_hash.auto import keccak


class Unknown(Exception):
    pass


def _signed(x, n):
    return x - (1 << n) if x >> (n - 1) else x


def _mask(x, n):
    return x & ((1 << n) - 1)


def _sdiv(a, b, n):
    sa, sb = _signed(a, n), _signed(b, n)
    if sb == 0:
        # SMT-LIB: bvsdiv by 0 = (a negative ? 1 : all-ones)
        return 1 if sa < 0 else _mask(-1, n)
    q = abs(sa) // abs(sb)
    if (sa < 0) != (sb < 0):
        q = -q
    return _mask(q, n)


def _srem(a, b, n):
    sa, sb = _signed(a, n), _signed(b, n)
    if sb == 0:
        return a
    r = abs(sa) % abs(sb)
    return _mask(-r if sa < 0 else r, n)


def _smod(a, b, n):
    sa, sb = _signed(a, n), _signed(b, n)
    if sb == 0:
        return a
    return _mask(sa % sb, n)  # python: sign of divisor


def evm_uf(name, args, n):
    if name.startswith("f_evm_bvmul"):
        return _mask(args[0] * args[1], n)
    if name.startswith("f_evm_bvudiv"):
        return 0 if args[1] == 0 else args[0] // args[1]
    if name.startswith("f_evm_bvurem"):
        return 0 if args[1] == 0 else args[0] % args[1]
    if name.startswith("f_evm_bvsdiv"):
        return 0 if args[1] == 0 else _sdiv(args[0], args[1], n)
    if name.startswith("f_evm_bvsrem"):
        return 0 if args[1] == 0 else _srem(args[0], args[1], n)
    if name.startswith("f_evm_exp"):
        return pow(args[0], args[1], 1 << n)
    return None


class Evaluator:
    def __init__(self, env=None, ufs=None, assume_true_prefixes=("f_inv_sha3",)):
        """env: name -> int | bool | (dict, default) for arrays
        ufs: name -> python callable(args..., out_bits) for extra uninterpreted functions"""
        self.env = dict(env or {})
        self.ufs = dict(ufs or {})
        self.memo = {}
        self.assume_true_prefixes = assume_true_prefixes

    # ------------------------------------------------------------------ helpers
    def mentions(self, t, prefixes):
        seen, todo = set(), [t]
        while todo:
            x = todo.pop()
            if x.get_id() in seen:
                continue
            seen.add(x.get_id())
            if z3.is_app(x):
                if x.decl().kind() == z3.Z3_OP_UNINTERPRETED and any(x.decl().name().startswith(p) for p in prefixes):
                    return True
                todo.extend(x.children())
        return False

    def holds(self, cond):
        """truth value of a path condition; conditions about inverse-hash witnesses are
        assumptions (hash injectivity), counted as true"""
        if self.mentions(cond, self.assume_true_prefixes):
            return True
        return bool(self.ev(cond))

    def define_arrays(self, conds):
        """process `ArrayVar == Store(...)` definitions in order; returns remaining conds"""
        rest = []
        for c in conds:
            if z3.is_eq(c) and z3.is_array(c.arg(0)):
                l, r = c.arg(0), c.arg(1)
                if z3.is_const(l) and l.decl().kind() == z3.Z3_OP_UNINTERPRETED and l.decl().name() not in self.env:
                    self.env[l.decl().name()] = self.ev(r)
                    continue
                if z3.is_const(r) and r.decl().kind() == z3.Z3_OP_UNINTERPRETED and r.decl().name() not in self.env:
                    self.env[r.decl().name()] = self.ev(l)
                    continue
            rest.append(c)
        return rest

    # ------------------------------------------------------------------ main
    def ev(self, t):
        if isinstance(t, (int, bool)):
            return t
        key = t.get_id()
        hit = self.memo.get(key)
        if hit is not None and hit[0].eq(t):
            return hit[1]
        v = self._ev(t)
        # keep the term itself in the memo: z3 recycles AST ids of freed terms
        self.memo[key] = (t, v)
        return v

    def _ev(self, t):
        k = t.decl().kind()
        Z = z3
        if k == Z.Z3_OP_BNUM:
            return t.as_long()
        if k == Z.Z3_OP_TRUE:
            return True
        if k == Z.Z3_OP_FALSE:
            return False
        ch = t.children()
        if k == Z.Z3_OP_ITE:
            return self.ev(ch[1]) if self.ev(ch[0]) else self.ev(ch[2])
        if k == Z.Z3_OP_AND:
            return all(self.ev(c) for c in ch)
        if k == Z.Z3_OP_OR:
            return any(self.ev(c) for c in ch)
        if k == Z.Z3_OP_NOT:
            return not self.ev(ch[0])
        if k == Z.Z3_OP_IMPLIES:
            return (not self.ev(ch[0])) or self.ev(ch[1])
        if k == Z.Z3_OP_XOR:
            return bool(self.ev(ch[0])) != bool(self.ev(ch[1]))
        if k == Z.Z3_OP_EQ or k == Z.Z3_OP_IFF:
            a, b = self.ev(ch[0]), self.ev(ch[1])
            if isinstance(a, tuple) or isinstance(b, tuple):
                return self._array_eq(a, b)
            return a == b
        if k == Z.Z3_OP_DISTINCT:
            vs = [self.ev(c) for c in ch]
            return len(set(vs)) == len(vs)
        if k == Z.Z3_OP_UNINTERPRETED:
            name = t.decl().name()
            if not ch:
                if name in self.env:
                    return self.env[name]
                if name in ("f_sha3_empty", "f_sha3_0"):
                    return int.from_bytes(keccak(b""), "big")
                if z3.is_array(t) and (name == "balance_00" or (name.startswith("storage_") and name.endswith("_00"))):
                    # halmos' names for the initially empty (all-zero) storage / balance arrays
                    return ({}, 0)
                if z3.is_bv(t) and name.startswith("storage_") and name.endswith("_00"):
                    # initial word of a scalar slot of a symbolic-storage account the input says nothing about: 0
                    return 0
                raise Unknown(name)
            args = [self.ev(c) for c in ch]
            n = t.size() if z3.is_bv(t) else 0
            r = evm_uf(name, args, n)
            if r is not None:
                return r
            if name.startswith("f_sha3_"):
                bits = ch[0].size()
                return int.from_bytes(keccak(args[0].to_bytes(bits // 8, "big")), "big")
            if name in self.ufs:
                return self.ufs[name](*args)
            raise Unknown(name)
        if k == Z.Z3_OP_SELECT:
            arr, idx = self.ev(ch[0]), self.ev(ch[1])
            return arr[0].get(idx, arr[1])
        if k == Z.Z3_OP_STORE:
            arr, idx, val = self.ev(ch[0]), self.ev(ch[1]), self.ev(ch[2])
            d = dict(arr[0])
            d[idx] = val
            return (d, arr[1])
        if k == Z.Z3_OP_CONST_ARRAY:
            return ({}, self.ev(ch[0]))
        if not z3.is_bv(t) and not z3.is_bool(t):
            raise Unknown(f"sort {t.sort()}")
        # bit-vector operators
        if k == Z.Z3_OP_CONCAT:
            acc = 0
            for c in ch:
                acc = (acc << c.size()) | self.ev(c)
            return acc
        if k == Z.Z3_OP_EXTRACT:
            hi, lo = t.params()
            return (self.ev(ch[0]) >> lo) & ((1 << (hi - lo + 1)) - 1)
        if k == Z.Z3_OP_ZERO_EXT:
            return self.ev(ch[0])
        if k == Z.Z3_OP_SIGN_EXT:
            n0 = ch[0].size()
            return _mask(_signed(self.ev(ch[0]), n0), t.size())
        vs = [self.ev(c) for c in ch]
        n = ch[0].size() if z3.is_bv(ch[0]) else 0
        if k == Z.Z3_OP_BADD:
            return _mask(sum(vs), n)
        if k == Z.Z3_OP_BMUL:
            acc = 1
            for v in vs:
                acc = _mask(acc * v, n)
            return acc
        if k == Z.Z3_OP_BSUB:
            acc = vs[0]
            for v in vs[1:]:
                acc = _mask(acc - v, n)
            return acc
        if k == Z.Z3_OP_BNEG:
            return _mask(-vs[0], n)
        if k in (Z.Z3_OP_BUDIV, Z.Z3_OP_BUDIV_I):
            return _mask(-1, n) if vs[1] == 0 else vs[0] // vs[1]
        if k in (Z.Z3_OP_BUREM, Z.Z3_OP_BUREM_I):
            return vs[0] if vs[1] == 0 else vs[0] % vs[1]
        if k in (Z.Z3_OP_BSDIV, Z.Z3_OP_BSDIV_I):
            return _sdiv(vs[0], vs[1], n)
        if k in (Z.Z3_OP_BSREM, Z.Z3_OP_BSREM_I):
            return _srem(vs[0], vs[1], n)
        if k in (Z.Z3_OP_BSMOD, Z.Z3_OP_BSMOD_I):
            return _smod(vs[0], vs[1], n)
        if k == Z.Z3_OP_BAND:
            acc = vs[0]
            for v in vs[1:]:
                acc &= v
            return acc
        if k == Z.Z3_OP_BOR:
            acc = vs[0]
            for v in vs[1:]:
                acc |= v
            return acc
        if k == Z.Z3_OP_BXOR:
            acc = vs[0]
            for v in vs[1:]:
                acc ^= v
            return acc
        if k == Z.Z3_OP_BNOT:
            return _mask(~vs[0], n)
        if k == Z.Z3_OP_BSHL:
            return 0 if vs[1] >= n else _mask(vs[0] << vs[1], n)
        if k == Z.Z3_OP_BLSHR:
            return 0 if vs[1] >= n else vs[0] >> vs[1]
        if k == Z.Z3_OP_BASHR:
            s = _signed(vs[0], n)
            return _mask(s >> min(vs[1], n), n)
        if k == Z.Z3_OP_ULT:
            return vs[0] < vs[1]
        if k == Z.Z3_OP_ULEQ:
            return vs[0] <= vs[1]
        if k == Z.Z3_OP_UGT:
            return vs[0] > vs[1]
        if k == Z.Z3_OP_UGEQ:
            return vs[0] >= vs[1]
        if k == Z.Z3_OP_SLT:
            return _signed(vs[0], n) < _signed(vs[1], n)
        if k == Z.Z3_OP_SLEQ:
            return _signed(vs[0], n) <= _signed(vs[1], n)
        if k == Z.Z3_OP_SGT:
            return _signed(vs[0], n) > _signed(vs[1], n)
        if k == Z.Z3_OP_SGEQ:
            return _signed(vs[0], n) >= _signed(vs[1], n)
        if k == Z.Z3_OP_BCOMP:
            return 1 if vs[0] == vs[1] else 0
        name = t.decl().name()
        if name in ("bvudiv0", "bvurem0", "bvsdiv0", "bvsrem0", "bvsmod0"):
            # z3's placeholders for division by zero (argument = dividend)
            return {"bvudiv0": _mask(-1, n), "bvurem0": vs[0], "bvsdiv0": (1 if _signed(vs[0], n) < 0 else _mask(-1, n)), "bvsrem0": vs[0], "bvsmod0": vs[0]}[name]
        raise Unknown(f"operator {name} kind {k}")

    def _array_eq(self, a, b):
        if a[1] != b[1]:
            return False
        keys = set(a[0]) | set(b[0])
        return all(a[0].get(k, a[1]) == b[0].get(k, b[1]) for k in keys)


def free_consts(t):
    """names (and sorts) of uninterpreted constants in term(s)"""
    out, seen = {}, set()
    todo = list(t) if isinstance(t, (list, tuple)) else [t]
    while todo:
        x = todo.pop()
        if x.get_id() in seen:
            continue
        seen.add(x.get_id())
        if z3.is_app(x):
            if x.num_args() == 0 and x.decl().kind() == z3.Z3_OP_UNINTERPRETED:
                out[x.decl().name()] = x
            todo.extend(x.children())
    return out
