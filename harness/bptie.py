"""Correspondence run for Model/BranchPoints.v: the real SEVM.resolve_address_alias,
handle_insufficient_fund_case + transfer_value and the symbolic-JUMP arm of SEVM.run on states
whose symbolic terms range over a small finite valuation space (one 8-bit symbol `bp_x`,
tables rendered as nested If), compared alternative by alternative with the extracted model
(which gets the same tables and a complete oracle, or the always-`unknown` oracle).
"""
import contextlib
import io

import z3

from harness import common, engine, scenarios

X = None


def _x():
    return z3.BitVec("bp_x", 8)


def table_term(tab, bits):
    t = z3.BitVecVal(tab[-1], bits)
    for i in range(len(tab) - 2, -1, -1):
        t = z3.If(_x() == i, z3.BitVecVal(tab[i], bits), t)
    return t


def fresh_state(accts, mask, unk, options=None):
    """(sevm, ex, stack) with accounts `accts` (in this order) and path  bp_x in {i | mask[i]}"""
    from halmos.__main__ import mk_solver
    from halmos.calldata import FunctionInfo
    from halmos.mapper import BuildOut
    from halmos.sevm import SEVM, Path, Worklist

    if BuildOut()._build_out_map is None:
        BuildOut().set_build_out({})
    opts = engine.make_options(options)
    sevm = SEVM(opts, FunctionInfo("T", "test", "test()", "f8a8fd6d"))
    solver = mk_solver(opts)
    scn = {"accounts": {a: {"code": b"\x00"} for a in accts}, "this": scenarios.THIS if scenarios.THIS in accts else accts[0],
           "calldata": [("c", b"\x12\x34\x56\x78")], "static": False}
    ex = engine.build_exec(scn, sevm, solver)
    ex.path.append(z3.Or([_x() == i for i, m in enumerate(mask) if m]) if any(mask) else z3.BoolVal(False))
    if unk:
        ex.path.check = lambda cond: z3.unknown   # legal oracle behaviour: every query times out
    return sevm, ex, Worklist()


def cond_bits(ex, nv, base):
    """which valuations bp_x = i satisfy the conditions this state carries beyond the first `base`"""
    conds = list(ex.path.conditions.keys())[base:] + list(ex.path.pending)   # a branch not yet activated holds its own condition aside
    out = []
    for i in range(nv):
        ok = True
        for c in conds:
            if z3.is_eq(c) and z3.is_array(c.arg(0)) and z3.is_const(c.arg(0)):
                continue   # definition of a fresh array name (balance_update): constrains no input
            v = z3.simplify(z3.substitute(c, (_x(), z3.BitVecVal(i, 8)), (_EMPTY_BAL(), z3.K(z3.BitVecSort(160), z3.BitVecVal(0, 256)))))
            if z3.is_false(v):
                ok = False
                break
            if not z3.is_true(v):
                raise RuntimeError(f"condition does not evaluate under bp_x={i}: {v}")
        out.append(1 if ok else 0)
    return out


def _EMPTY_BAL():
    # halmos' EMPTY_BALANCE array (an account never touched holds 0): interpreted as the constant-0 array
    return z3.Array("balance_00", z3.BitVecSort(160), z3.BitVecSort(256))


def drain(stack):
    out = []
    while len(stack):
        out.append(stack.pop())
    return out


def impl_alias(accts, tgt, mask, unk):
    """-> sorted list of (alias or -1, bits) | 'infeasible'"""
    from halmos.exceptions import InfeasiblePath

    sevm, ex, stack = fresh_state(accts, mask, unk)
    base = len(ex.path.conditions)
    t = table_term(tgt, 160)
    with contextlib.redirect_stdout(io.StringIO()):
        try:
            sevm.resolve_address_alias(ex, t, stack)
        except InfeasiblePath:
            return "infeasible"
    alts = []
    for e in [ex] + drain(stack):
        a = e.alias[t]
        alts.append((a.as_long() if a is not None else -1, cond_bits(e, len(tgt), base)))
    return sorted(alts)


def impl_funds(bal, val, mask, unk):
    """-> sorted list of (fails, bits); the succeeding alternative is what transfer_value leaves"""
    from halmos.bitvec import HalmosBitVec as BV
    from halmos.exceptions import InfeasiblePath
    from halmos.sevm import Message
    from halmos.utils import EVM, con_addr

    caller, to = 0xCA11E4, 0xD0
    sevm, ex, stack = fresh_state([scenarios.THIS, to], mask, unk)
    ex.balance = z3.Store(z3.K(z3.BitVecSort(160), z3.BitVecVal(0, 256)), con_addr(caller), table_term(bal, 256))
    base = len(ex.path.conditions)
    value = BV(z3.simplify(table_term(val, 256)))
    msg = Message(target=con_addr(to), caller=con_addr(caller), origin=con_addr(caller), value=value, data=b"", call_scheme=EVM.CALL, is_static=False)
    ex.st.push(BV(0))   # something for fail_ex to advance over
    alts = []
    with contextlib.redirect_stdout(io.StringIO()):
        sevm.handle_insufficient_fund_case(con_addr(caller), value, msg, ex, stack)
        for e in drain(stack):
            alts.append((1, cond_bits(e, len(bal), base)))
        try:
            sevm.transfer_value(ex, con_addr(caller), con_addr(to), value)
            alts.append((0, cond_bits(ex, len(bal), base)))
        except InfeasiblePath:
            pass   # UGE(balance, value) simplified to false: the model keeps an alternative that holds nowhere
    return sorted(alts)


def impl_assert(ctab, mask, unk):
    """vm.assertTrue(<table of 0/1>) through hevm_cheat_code.handle -> sorted [(fails, bits)]"""
    from halmos.bytevec import ByteVec
    from halmos.cheatcodes import hevm_cheat_code
    from halmos.exceptions import FailCheatcode

    sevm, ex, stack = fresh_state([scenarios.THIS], mask, unk)
    base = len(ex.path.conditions)
    arg = ByteVec([bytes.fromhex("0c9fd581"), z3.simplify(table_term(ctab, 256))])
    with contextlib.redirect_stdout(io.StringIO()):
        hevm_cheat_code.handle(sevm, ex, arg, stack)
    alts = []
    for e in [ex] + drain(stack):
        failed = isinstance(e.context.output.error, FailCheatcode)
        alts.append((1 if failed else 0, cond_bits(e, len(ctab), base)))
    return sorted(alts)


def impl_vmaddr(keytabs, mask):
    """apply_vmaddr on several key terms (tables over bp_x) -> for each valuation of the path: is the path still
    satisfiable there (f_vmaddr is uninterpreted: some interpretation must admit the input)?"""
    from halmos.cheatcodes import apply_vmaddr

    sevm, ex, stack = fresh_state([scenarios.THIS], mask, 0)
    with contextlib.redirect_stdout(io.StringIO()):
        for tab in keytabs:
            apply_vmaddr(ex, table_term(tab, 256))
    out = []
    for i, m in enumerate(mask):
        if not m:
            out.append(None)
            continue
        sol = z3.Solver()
        sol.set("timeout", 5000)
        for c in ex.path.conditions:
            sol.add(c)
        sol.add(_x() == i)
        out.append(str(sol.check()))
    return out


def impl_jump(valid_n, dst_vals, unk):
    """program: JUMP(calldata word) with `valid_n` JUMPDEST;STOP landing pads and symbolic_jump on;
    valuations = the listed calldata words.  -> ('halt',) | sorted [(target, bits)]"""
    from harness import asm, l2tie

    items = [("push", 4), "CALLDATALOAD", "JUMP"]
    for k in range(valid_n):
        items += [("label", f"D{k}"), ("push", k + 1), "PUSH0", "MSTORE", ("push", 32), "PUSH0", "RETURN"]
    code, labels = asm.assemble(items, with_labels=True)
    valid = sorted(labels.values())
    d = {"profile": "bp-jump", "code": code.hex(), "callees": {}, "options": {"symbolic_jump": True}, "static": False, "nargs": 1}
    scn = scenarios.from_description(d)
    paths, flags = engine.run_scenario(scn)
    vals = [valid[v[0]] if isinstance(v, tuple) else v for v in dst_vals]
    out = []
    for p in paths:
        bits = []
        for v in vals:
            ok, _ev = p.holds({"caller": 0, "origin": 0, "value": 0, "args": {"arg0": v}, "balances": {}})
            bits.append(1 if ok else 0)
        out.append((p.kind, bits))
    return valid, vals, sorted(out), flags


def agree(ialts, mexact, mcomplete, unk):
    """unk = 0: the solver is complete on these formulas, the alternatives must be exactly the model's.
    unk = 1: every solver query answers `unknown`, but Exec.check decides some conditions without the solver
    (literals, conditions already on the path): any behaviour between the complete and the ignorant oracle
    is legal -- complete-oracle alternatives <= implementation <= ignorant-oracle alternatives (live ones)."""
    live = lambda alts: sorted(x for x in alts if any(x[1]))  # noqa: E731
    if not unk:
        return live(ialts) == live(mexact)
    lo, hi, im = live(mcomplete), live(mexact) + live(mcomplete), live(ialts)
    return all(x in im for x in lo) and all(x in hi for x in im)


def run(rep, tier, r):
    """the three correspondences; failures are reported on `rep`"""
    exe, log = common.build_driver("BP")
    if exe is None:
        rep.obligation("extracted branch-point model builds", False, log[-600:])
        rep.fail("broken-tie", f"Extract/ExBP.v does not build: {log[-300:]}", case={})
        return
    rep.obligation("extracted branch-point model builds", True, "")
    m = common.Model(exe)
    T = scenarios.THIS
    n = 60 if tier == "quick" else 1500
    nbad = 0
    # ---- aliases
    cases = []
    for _ in range(n):
        na = r.randrange(1, 4)
        accts = r.sample([0x1000, 0x2000, 0x3000, 0x4000], na)
        accts.insert(r.randrange(0, na + 1), T)
        nv = r.randrange(1, 6)
        pool = accts + [0xC0FFEE, 0xBEEF]
        tgt = [r.choice(pool) for _ in range(nv)]
        if len(set(tgt)) == 1 and nv > 1:
            tgt[0] = r.choice(pool)
        mask = [1 if r.random() < 0.8 else 0 for _ in range(nv)]
        if not any(mask):
            mask[0] = 1
        cases.append((accts, tgt, mask, 1 if r.random() < 0.3 else 0))
    res = m.batch([("bp_alias", [T, len(a)] + a + [len(t)] + t + mk + [u]) for a, t, mk, u in cases])
    res0 = m.batch([("bp_alias", [T, len(a)] + a + [len(t)] + t + mk + [0]) for a, t, mk, u in cases])
    dec = lambda mr, nv, mask: sorted((mr[1 + i * (nv + 1)], [b & k for b, k in zip(mr[2 + i * (nv + 1): 2 + i * (nv + 1) + nv], mask)]) for i in range(mr[0]))  # noqa: E731
    for (accts, tgt, mask, unk), mr, mr0 in zip(cases, res, res0):
        nv = len(tgt)
        if len(set(tgt)) == 1:
            continue    # the term is a constant: resolve_address_alias answers without branching (known account / empty account)
        malts = sorted((mr[1 + i * (nv + 1)], [b & k for b, k in zip(mr[2 + i * (nv + 1): 2 + i * (nv + 1) + nv], mask)]) for i in range(mr[0]))
        try:
            ialts = impl_alias(accts, tgt, mask, unk)
        except Exception as e:  # noqa: BLE001
            rep.fail("broken-tie", f"resolve_address_alias harness raised {type(e).__name__}: {e} on {accts, tgt, mask, unk}", case={"alias_case": [accts, tgt, mask, unk]})
            continue
        if ialts == "infeasible":
            ialts = []
        else:
            ialts = sorted((a, [b & k for b, k in zip(bits, mask)]) for a, bits in ialts)
        rep.case({"bp": "alias", "accts": accts, "tgt": tgt, "mask": mask, "unk": unk}, nontrivial=len(malts) > 1)
        rep.count("branch_point", "alias alternatives=%d" % len(malts))
        # alternatives whose condition holds on no valuation of the path are immaterial (Exec.check answers
        # `unsat` for a condition that simplifies to false even when the solver itself would time out)
        ialts = [x for x in ialts if any(x[1])]
        malts = [x for x in malts if any(x[1])]
        if not agree(ialts, malts, dec(mr0, nv, mask), unk):
            nbad += 1
            # is an input dropped by the real code?  (spec: every valuation of the path whose target is not the test contract is covered)
            uncovered = [i for i in range(nv) if mask[i] and tgt[i] != T and not any(bits[i] for _a, bits in ialts)]
            wrong = [(a, i) for a, bits in ialts for i in range(nv) if bits[i] and mask[i] and ((a == -1 and tgt[i] in accts) or (a != -1 and tgt[i] != a))]
            kind = "failing-input" if uncovered or wrong else "broken-tie"
            rep.fail(kind, f"resolve_address_alias: accounts {[hex(a) for a in accts]} target table {[hex(t) for t in tgt]} path mask {mask} unknown={unk}: implementation {ialts} model {malts}"
                     + (f"; valuations {uncovered} are covered by no alternative" if uncovered else "") + (f"; alternative/valuation pairs {wrong} name the wrong account" if wrong else ""),
                     case={"alias_case": [accts, tgt, mask, unk], "implementation": ialts, "model": malts})
    # ---- insufficient funds
    cases = []
    for _ in range(n):
        nv = r.randrange(1, 6)
        bal = [r.choice([0, 1, 5, 1000, 10 ** 18]) for _ in range(nv)]
        val = [r.choice([1, 5, 6, 1000, 1001, 10 ** 18]) for _ in range(nv)]
        mask = [1 if r.random() < 0.8 else 0 for _ in range(nv)]
        if not any(mask):
            mask[0] = 1
        cases.append((bal, val, mask, 1 if r.random() < 0.3 else 0))
    res = m.batch([("bp_funds", [len(b)] + b + v + mk + [u]) for b, v, mk, u in cases])
    res0 = m.batch([("bp_funds", [len(b)] + b + v + mk + [0]) for b, v, mk, u in cases])
    for (bal, val, mask, unk), mr, mr0 in zip(cases, res, res0):
        nv = len(bal)
        malts = sorted((mr[1 + i * (nv + 1)], [b & k for b, k in zip(mr[2 + i * (nv + 1): 2 + i * (nv + 1) + nv], mask)]) for i in range(mr[0]))
        try:
            ialts = sorted((f, [b & k for b, k in zip(bits, mask)]) for f, bits in impl_funds(bal, val, mask, unk))
        except Exception as e:  # noqa: BLE001
            rep.fail("broken-tie", f"insufficient-funds harness raised {type(e).__name__}: {e} on {bal, val, mask, unk}", case={"funds_case": [bal, val, mask, unk]})
            continue
        rep.case({"bp": "funds", "bal": bal, "val": val, "mask": mask, "unk": unk}, nontrivial=len(malts) > 1)
        rep.count("branch_point", "funds alternatives=%d" % len(malts))
        # alternatives that hold on no valuation of the path are immaterial (the model keeps the succeeding one always)
        if not agree(ialts, malts, dec(mr0, nv, mask), unk):
            uncovered = [i for i in range(nv) if mask[i] and not any(bits[i] for _f, bits in ialts)]
            wrong = [(f, i) for f, bits in ialts for i in range(nv) if bits[i] and mask[i] and (bal[i] < val[i]) != bool(f)]
            kind = "failing-input" if uncovered or wrong else "broken-tie"
            rep.fail(kind, f"insufficient-funds fork: balance table {bal} value table {val} path mask {mask} unknown={unk}: implementation {ialts} model {malts}"
                     + (f"; valuations {uncovered} are covered by no alternative" if uncovered else "") + (f"; pairs {wrong} report the wrong outcome" if wrong else ""),
                     case={"funds_case": [bal, val, mask, unk], "implementation": ialts, "model": malts})
    # ---- vm.assert*
    cases = []
    for _ in range(n):
        nv = r.randrange(1, 6)
        ctab = [r.choice([0, 1, 1, 2]) for _ in range(nv)]
        mask = [1 if r.random() < 0.8 else 0 for _ in range(nv)]
        if not any(mask):
            mask[0] = 1
        cases.append((ctab, mask, 1 if r.random() < 0.3 else 0))
    res = m.batch([("bp_assert", [len(c)] + c + mk + [u]) for c, mk, u in cases])
    res0 = m.batch([("bp_assert", [len(c)] + c + mk + [0]) for c, mk, u in cases])
    for (ctab, mask, unk), mr, mr0 in zip(cases, res, res0):
        nv = len(ctab)
        malts = sorted((mr[1 + i * (nv + 1)], [b & k for b, k in zip(mr[2 + i * (nv + 1): 2 + i * (nv + 1) + nv], mask)]) for i in range(mr[0]))
        try:
            ialts = sorted((f, [b & k for b, k in zip(bits, mask)]) for f, bits in impl_assert(ctab, mask, unk))
        except Exception as e:  # noqa: BLE001
            rep.fail("broken-tie", f"vm.assert harness raised {type(e).__name__}: {e} on {ctab, mask, unk}", case={"assert_case": [ctab, mask, unk]})
            continue
        rep.case({"bp": "assert", "cond": ctab, "mask": mask, "unk": unk}, nontrivial=len(malts) > 1)
        rep.count("branch_point", "assert alternatives=%d" % len(malts))
        if not agree(ialts, malts, dec(mr0, nv, mask), unk):
            # spec: an input on which the relation is false must be covered by a state that ends as a failed assertion
            lost = [i for i in range(nv) if mask[i] and ctab[i] == 0 and not any(f and bits[i] for f, bits in ialts)]
            wrong = [i for i in range(nv) if mask[i] and ctab[i] != 0 and any(f and bits[i] for f, bits in ialts)]
            uncovered = [i for i in range(nv) if mask[i] and not any(bits[i] for _f, bits in ialts)]
            kind = "failing-input" if lost or wrong or uncovered else "broken-tie"
            rep.fail(kind, f"vm.assertTrue over the table {ctab} path mask {mask} unknown={unk}: implementation {ialts} model {malts}"
                     + (f"; the failing inputs {lost} reach no failed-assertion state" if lost else "") + (f"; inputs {wrong} satisfy the assertion but are reported as failing" if wrong else "")
                     + (f"; inputs {uncovered} are covered by no state" if uncovered else ""),
                     case={"assert_case": [ctab, mask, unk], "implementation": ialts, "model": malts})
    # ---- vm.addr: the distinctness constraints must not exclude an input (in particular none with equal keys)
    nva = 12 if tier == "quick" else 200
    for _ in range(nva):
        nv = r.randrange(2, 5)
        nk = r.randrange(2, 4)
        keytabs = [[r.choice([1, 2, 3, 7, 1 << 200]) for _ in range(nv)] for _ in range(nk)]
        mask = [1] * nv
        rep.case({"bp": "vmaddr", "keys": keytabs}, nontrivial=any(len(set(col)) < nk for col in zip(*keytabs)))
        try:
            sat = impl_vmaddr(keytabs, mask)
        except Exception as e:  # noqa: BLE001
            rep.fail("broken-tie", f"vm.addr harness raised {type(e).__name__}: {e} on {keytabs}", case={"vmaddr_case": keytabs})
            continue
        lost = [i for i, a in enumerate(sat) if a == "unsat"]
        if lost:
            rep.fail("failing-input", f"vm.addr on the key tables {keytabs}: the valuations {lost} (keys {[[t[i] for t in keytabs] for i in lost]}) satisfy no interpretation of f_vmaddr any more: "
                     "the distinctness constraints exclude inputs on which two key terms hold the same key", case={"vmaddr_case": keytabs, "satisfiable": sat})
    rep.count("tie", "vm.addr distinctness cases", nva)
    # ---- symbolic JUMP
    njump = 12 if tier == "quick" else 150
    for _ in range(njump):
        valid_n = r.randrange(1, 4)
        nv = r.randrange(1, 5)
        dst = [(r.randrange(valid_n),) if r.random() < 0.6 else r.choice([0, 1, 2, 3, 200, 1 << 255]) for _ in range(nv)]
        try:
            valid, vals, ipaths, flags = impl_jump(valid_n, dst, 0)
        except Exception as e:  # noqa: BLE001
            rep.fail("broken-tie", f"symbolic-JUMP harness raised {type(e).__name__}: {e} on {valid_n, dst}", case={"jump_case": [valid_n, dst]})
            continue
        # the calldata word is unconstrained: the complete oracle sees every destination as feasible, which is
        # what the model gets with the always-unknown oracle over the listed valuations
        mr = m.batch([("bp_jump", [len(valid)] + valid + [nv] + vals + [1] * nv + [1])])[0]
        malts = "halt" if mr == [-1] else sorted((mr[1 + i * (nv + 1)], mr[2 + i * (nv + 1): 2 + i * (nv + 1) + nv]) for i in range(mr[0]))
        # the halting branch of the inputs whose destination is none of the valid ones (after the valid alternatives)
        minv = None
        if mr != [-1]:
            rest = mr[1 + mr[0] * (nv + 1):]
            minv = rest[1:1 + nv] if rest and rest[0] == 1 else None
        rets = {valid[k]: k + 1 for k in range(len(valid))}
        ialts = [(None, bits) for kind, bits in ipaths if kind == "ok"]
        rep.case({"bp": "jump", "valid": valid, "dst": vals}, nontrivial=True)
        rep.count("branch_point", "jump destinations=%d" % len(valid))
        mm = [] if malts == "halt" else [(t, bits) for t, bits in malts]
        # the implementation explores every valid destination (the word is unconstrained); compare on the listed valuations
        ilive = sorted(bits for _t, bits in ialts if any(bits))
        mlive = sorted(bits for _t, bits in mm if any(bits))
        ihalt = sorted(bits for kind, bits in ipaths if kind.startswith("halt") and any(bits))
        mhalt = [minv] if minv and any(minv) else []
        if malts != "halt" and ihalt != mhalt:
            lost = [vals[i] for i in range(nv) if vals[i] not in valid and not any(b[i] for b in ihalt)]
            rep.fail("failing-input" if lost else "broken-tie",
                     f"symbolic JUMP: valid destinations {valid}, destination values {vals}: the inputs whose destination is invalid ({lost}) "
                     f"must end in a halting path of their own: implementation halting paths {ihalt}, model {mhalt}",
                     case={"jump_case": [valid_n, dst], "implementation": ipaths, "model_invalid": minv}, sig={"observable": "symbolic-jump-invalid-destination"})
        if ilive != mlive or flags["crashed"]:
            rep.fail("broken-tie", f"symbolic JUMP: valid destinations {valid}, destination values {vals}: implementation paths {ipaths} ({flags['crashed']}) model {malts}",
                     case={"jump_case": [valid_n, dst], "implementation": ipaths, "model": malts})
    rep.count("tie", "branch-point correspondence cases", 3 * n + njump)
    rep.coverage["traces_validated_against_impl"] = rep.coverage.get("traces_validated_against_impl", 0) + 3 * n + njump
