"""C14, L2a': pranks x call kind x value through the real SEVM.

Programs: a top-level frame that first vm.deal's every account it will meet, then runs an op sequence
(prank family, stopPrank, cheatcode calls, CALL / CALLCODE / DELEGATECALL / STATICCALL and CREATE /
CREATE2 with a value, returns, BALANCE reads).  Every entered frame publishes ADDRESS, CALLER,
ORIGIN and CALLVALUE (LOG0; a frame in a static context cannot log: its Message is read instead),
every BALANCE read is published, a call refused for lack of funds shows as the InsufficientFunds
entry of the caller's trace.  Compared with
  * an independent python rendering of Spec/PrankKindSpec.v (EVM call family + Foundry's prank), and
  * the extracted model (Model/PrankKindModel.v over Gen/GenPrankUse.v).
The helpers of harness/props/C14.py (assembler, SEVM environment, cheatcode calls) are handed in as `base`.
"""

KINDS = ["call", "callcode", "delegate", "static"]
NKINDS = ["create", "create2"]
OPB = {"call": 0xF1, "callcode": 0xF2, "delegate": 0xF4, "static": 0xFA, "create": 0xF0, "create2": 0xF5}
ADDRESS, CALLVALUE, BALANCE, POP, GAS, CODECOPY, STOP = 0x30, 0x34, 0x31, 0x50, 0x5A, 0x39, 0x00
LOST, DOUBLE = [4], [5]
V0 = 9   # msg.value of the top-level frame (what a DELEGATECALL made by it hands on)


# ================================================================== independent python spec

def in_effect(hist):
    """the prank in force for the next call of a frame (hist: oldest first)"""
    called = False
    for e in reversed(hist):
        if e == "call":
            called = True
        elif e == "cheat":
            continue
        elif e == "stop":
            return None
        else:
            _, keep, s, o = e
            return (s, o) if (keep or not called) else None
    return None


class Spec:
    """EVM call family with the calling account replaced by the prank in force (Foundry)."""

    def __init__(self, this, sender, origin, value, bal):
        self.frames = [dict(this=this, caller=sender, origin=origin, value=value, hist=[])]
        self.bal = dict(bal)
        self.out = []
        self.in_scope = True
        self.rejected = False

    def b(self, a):
        return self.bal.get(a, 0)

    def next_from(self, f):
        eff = in_effect(f["hist"])
        s = f["this"] if eff is None else eff[0]
        o = f["origin"] if eff is None or eff[1] is None else eff[1]
        return s, o

    def step(self, op):
        if self.rejected:
            return
        f = self.frames[-1]
        k = op[0]
        if k == "prank":            # ("prank", keep, s, o|None)
            if in_effect(f["hist"]) is not None:
                self.out.append([0])
                self.rejected = True
                return
            f["hist"].append(("prank", op[1], op[2], op[3]))
        elif k == "stopPrank":
            f["hist"].append("stop")
        elif k == "cheat":
            f["hist"].append("cheat")
        elif k in ("call", "create"):
            kind, a, v = op[1], op[2], op[3]
            s, o = self.next_from(f)
            f["hist"].append("call")
            if kind == "call":
                new, pay, to = dict(this=a, caller=s, origin=o, value=v), v, a
            elif kind == "callcode":
                new, pay, to = dict(this=f["this"], caller=s, origin=o, value=v), v, f["this"]
                if v != 0 and s != f["this"]:
                    self.in_scope = False
            elif kind == "delegate":
                new, pay, to = dict(this=f["this"], caller=f["caller"], origin=o, value=f["value"]), 0, f["this"]
            elif kind == "static":
                new, pay, to = dict(this=a, caller=s, origin=o, value=0), 0, a
            else:                    # create / create2
                new, pay, to = dict(this=a, caller=s, origin=o, value=v), v, a
            if pay != 0 and self.b(s) < pay:
                self.out.append([3])
                return
            if pay:
                self.bal[s] = self.b(s) - pay
                self.bal[to] = self.b(to) + pay
            new["hist"] = []
            self.frames.append(new)
            self.out.append([1, new["this"], new["caller"], new["origin"], new["value"]])
        elif k == "return":
            if len(self.frames) > 1:
                self.frames.pop()
        elif k == "balance":
            self.out.append([2, self.b(op[1])])
        else:
            raise ValueError(op)


def spec_run(ops, this, sender, origin, value, bal):
    sp = Spec(this, sender, origin, value, bal)
    for o in ops:
        sp.step(o)
    return sp.out, sp.in_scope


def enc_ops(ops):
    out = []
    for op in ops:
        k = op[0]
        if k == "prank":
            out += [0, 1 if op[1] else 0, op[2], 0 if op[3] is None else 1, op[3] or 0]
        elif k == "stopPrank":
            out += [1]
        elif k == "cheat":
            out += [2, ["hevm", "svm", "console"].index(op[1])]
        elif k == "call":
            out += [3, KINDS.index(op[1]), op[2], op[3]]
        elif k == "create":
            out += [4, NKINDS.index(op[1]), op[2], op[3]]
        elif k == "return":
            out += [5]
        elif k == "balance":
            out += [6, op[1]]
    return out


def split_obs(flat):
    n = {0: 1, 1: 5, 2: 2, 3: 1, 4: 1, 5: 1}
    out, i = [], 0
    while i < len(flat):
        w = n.get(flat[i], 1)
        out.append(list(flat[i:i + w]))
        i += w
    return out


# ================================================================== programs

def enters_flags(base, ops, bal):
    """per op index: does the call / creation enter a frame (it does not when the specification says
    the payer cannot cover the value: the ops that follow are then run by the caller itself)"""
    sp = Spec(base.THIS, base.SENDER0, base.ORIGIN0, V0, bal)
    flags = []
    for o in ops:
        before = len(sp.frames)
        sp.step(o)
        flags.append(len(sp.frames) > before)
    return flags


def build_frame(base, ops, i, codes, static, top, deals=(), enters=None):
    """code of the frame executing ops[i:] up to its 'return'; returns (code, next index)"""
    B = base
    logtop = B.LOGTOP
    body = []
    if not static:
        body.append(bytes([ADDRESS]) + logtop + B.op("CALLER") + logtop + B.op("ORIGIN") + logtop + bytes([CALLVALUE]) + logtop)
    if top:
        for a, x in deals:
            body.append(B.cheat_call(B.SEL["deal"], [a, x]))
    while i < len(ops):
        o = ops[i]
        k = o[0]
        i += 1
        if k == "return":
            break
        if k == "prank":
            name = ("startPrank" if o[1] else "prank") + ("" if o[3] is None else "2")
            body.append(B.cheat_call(B.SEL[name], [o[2]] if o[3] is None else [o[2], o[3]]))
        elif k == "stopPrank":
            body.append(B.cheat_call(B.SEL["stopPrank"], []))
        elif k == "cheat":
            if o[1] == "hevm":
                body.append(B.cheat_call(B.SEL["label"], [0x77, 0x40, 0]))
            elif o[1] == "svm":
                body.append(B.cheat_call(B.SEL["createBool"], [0x20, 1, ord("b") << 248], to=B.SVM, retsize=32))
            else:
                body.append(B.cheat_call(B.SEL["log_uint"], [7], to=B.CONSOLE))
        elif k == "balance":
            body.append(B.push(o[1], 20) + bytes([BALANCE]) + logtop)
        elif k == "call":
            kind, a, v = o[1], o[2], o[3]
            if enters[i - 1]:
                code, i = build_frame(base, ops, i, codes, static or kind == "static", False, enters=enters)
            else:
                code, _ = build_frame(base, [], 0, codes, static or kind == "static", False, enters=enters)
            codes[a] = code
            c = B.push(0) + B.push(0x80) + B.push(0) + B.push(0x100, 2)
            if kind in ("call", "callcode"):
                c += B.push(v)
            body.append(c + B.push(a, 20) + bytes([GAS, OPB[kind], POP]))
        elif k == "create":
            if enters[i - 1]:
                code, i = build_frame(base, ops, i, codes, static, False, enters=enters)
            else:
                code, _ = build_frame(base, [], 0, codes, static, False, enters=enters)
            body.append(("create", o[1], o[3], code))
        else:
            raise ValueError(o)

    def size_of(b):
        if isinstance(b, bytes):
            return len(b)
        return 21 + (2 if b[1] == "create2" else 0)
    total = sum(size_of(b) for b in body) + 1
    out, data = b"", b""
    nsalt = 0
    for b in body:
        if isinstance(b, bytes):
            out += b
            continue
        _, kind, v, init = b
        off = total + len(data)
        data += init
        out += B.push(len(init), 2) + B.push(off, 2) + B.push(0x200, 2) + bytes([CODECOPY])
        if kind == "create2":
            nsalt += 1
            out += B.push(nsalt, 1)
        out += B.push(len(init), 2) + B.push(0x200, 2) + B.push(v, 2) + bytes([OPB[kind], POP])
    out += bytes([STOP])
    assert len(out) == total, (len(out), total)
    return out + data, i


def run_program(base, codes, this, sender, origin, value):
    import z3

    from halmos.__main__ import mk_block
    from halmos.bitvec import HalmosBitVec as BV
    from halmos.bytevec import ByteVec
    from halmos.sevm import CallContext, Contract, Message, Path, con_addr
    from halmos.utils import EVM

    env = base.sevm_env()
    sevm = env["sevm"]
    code = {con_addr(a): Contract(ByteVec(bytes(c))) for a, c in codes.items()}
    storage = {a: sevm.mk_storagedata() for a in code}
    tstorage = {a: sevm.mk_storagedata() for a in code}
    msg = Message(target=con_addr(this), caller=con_addr(sender), origin=con_addr(origin), value=BV(value), data=ByteVec(), call_scheme=EVM.CALL)
    balance = z3.Array("balance_00", z3.BitVecSort(160), z3.BitVecSort(256))
    ex = sevm.mk_exec(code=code, storage=storage, transient_storage=tstorage, balance=balance, block=mk_block(),
                      context=CallContext(msg), pgm=code[con_addr(this)], path=Path(env["mk_solver"](env["args"])))
    with base.quiet():
        return list(sevm.run(ex))


def observed(base, ex):
    """flat observation list of one path, in execution order; also the targets of the creations"""
    from halmos.sevm import CallContext, EventLog

    out, created = [], []
    cheats = (base.HEVM, base.SVM, base.CONSOLE)

    def walk(ctx, is_static):
        skip = 0 if is_static else 4      # the frame's own prologue
        for t in ctx.trace:
            if isinstance(t, EventLog):
                if skip:
                    skip -= 1
                else:
                    out.append([2, base.as_int(t.data)])
            elif isinstance(t, CallContext):
                m = t.message
                tgt = base.as_int(m.target)
                if tgt in cheats:
                    continue
                err = t.output.error
                if err is not None and type(err).__name__ == "InsufficientFunds":
                    out.append([3])
                    continue
                msg = [tgt, base.as_int(m.caller), base.as_int(m.origin), base.as_int(m.value)]
                if m.call_scheme in (OPB["create"], OPB["create2"]):
                    created.append(tgt)
                st = bool(m.is_static)
                logs = [base.as_int(e.data) for e in t.trace if isinstance(e, EventLog)][:4]
                if not st and logs != msg:
                    out.append([1] + logs + ["log/message mismatch", msg])
                else:
                    out.append([1] + msg)
                if err is not None:
                    out.append(["frame error", type(err).__name__])
                walk(t, st)

    walk(ex.context, False)
    if ex.context.is_stuck():
        out.append([0])
    return out, created


def impl_case(base, case):
    ops, bal = case["ops"], case["bal"]
    codes = {}
    code, _ = build_frame(base, ops, 0, codes, False, True, deals=sorted((a, v) for a, v in bal.items() if isinstance(a, int)),
                          enters=enters_flags(base, ops, bal))
    codes[base.THIS] = code
    exs = run_program(base, codes, base.THIS, base.SENDER0, base.ORIGIN0, V0)
    return [observed(base, e) for e in exs]


# ================================================================== generator

def gen_case(base, r, maxlen, force_kind=None):
    """op sequence that Foundry accepts (no prank while one is in force) and that stays in the
    fragment of the theorem (no value-bearing CALLCODE under a prank of another address)"""
    A = [base.A1, base.A2, base.A3]
    accounts = {base.THIS: r.choice([0, 5, 50, 1000]), base.A1: r.choice([0, 5, 50, 1000]),
                base.A2: r.choice([0, 50, 1000]), base.A3: r.choice([5, 1000])}
    sp = Spec(base.THIS, base.SENDER0, base.ORIGIN0, V0, accounts)
    ops = []
    # per frame: (static?, under a create2 frame: its own balance is not concrete)
    ctx = [(False, False)]
    ncall = ncreate = nc2 = 0
    known = [base.THIS] + A
    n = r.randint(2, maxlen)
    tries = 0
    while len(ops) < n and tries < 200:
        tries += 1
        static, dark = ctx[-1]
        f = sp.frames[-1]
        x = r.random()
        if x < 0.30:
            if in_effect(f["hist"]) is not None:
                continue
            op = ("prank", r.random() < 0.4, r.choice(A), r.choice(A) if r.random() < 0.4 else None)
        elif x < 0.36:
            op = ("stopPrank",)
        elif x < 0.42:
            op = ("cheat", r.choice(["hevm", "svm"]))
        elif x < 0.70 and len(ctx) < 4:
            s, _ = sp.next_from(f)
            creating = (not static) and r.random() < 0.3
            v = r.choice([0, 0, 1, 7, 60, 2000])
            if dark and s == f["this"]:
                v = 0          # the payer would be an account whose balance was never set
            if creating:
                kind = force_kind if force_kind in NKINDS else r.choice(NKINDS)
                if kind == "create":
                    ncreate += 1
                    a = 0xAAAA0000 + 1 + ncreate
                    sp.bal.setdefault(a, 0)
                    known.append(a)
                else:
                    nc2 += 1
                    a = ("create2", nc2)
                op = ("create", kind, a, v)
                nxt = (static, kind == "create2")
            else:
                kind = force_kind if force_kind in KINDS else r.choice(KINDS)
                ncall += 1
                a = 0xC0000 + ncall
                sp.bal.setdefault(a, 0)
                known.append(a)
                if kind in ("static", "delegate") or (static and kind == "call"):
                    v = 0
                if kind == "callcode" and s != f["this"]:
                    v = 0      # outside the fragment (see Spec/PrankKindSpec.v)
                op = ("call", kind, a, v)
                nxt = (static or kind == "static", dark if kind in ("callcode", "delegate") else False)
            before = len(sp.frames)
            sp.step(op)
            ops.append(op)
            if len(sp.frames) > before:
                ctx.append(nxt)
            continue
        elif x < 0.84 and len(ctx) > 1:
            op = ("return",)
            ctx.pop()
        elif x < 1.0 and not static:
            cand = [a for a in known if isinstance(a, int)]
            op = ("balance", r.choice(cand))
        else:
            continue
        sp.step(op)
        ops.append(op)
    bal = {a: v for a, v in accounts.items()}
    for a in known:
        bal.setdefault(a, 0)
    return {"ops": ops, "bal": bal}


def corpus(base):
    T, A1, A2, A3 = base.THIS, base.A1, base.A2, base.A3
    C = 0xC0000
    bal = {T: 50, A1: 1000, A2: 5, A3: 0, C + 1: 0, C + 2: 0, C + 3: 0, 0xAAAA0002: 0, 0xAAAA0003: 0}
    def P(s, keep=False, o=None):
        return ("prank", keep, s, o)
    cases = []
    for kind in KINDS:
        v = 7 if kind == "call" else 0
        cases.append([P(A1), ("call", kind, C + 1, v), ("return",), ("call", kind, C + 2, 0), ("return",),
                      ("balance", A1), ("balance", T), ("balance", C + 1)])
        cases.append([P(A1, True, A2), ("call", kind, C + 1, v), ("return",), ("call", kind, C + 2, v), ("return",), ("stopPrank",),
                      ("call", kind, C + 3, 0), ("return",), ("balance", A1), ("balance", T)])
        cases.append([P(A2, False, A3), ("call", "call", C + 1, 0), ("call", kind, C + 2, 0), ("return",), ("return",), ("call", kind, C + 3, 0)])
    for kind in NKINDS:
        a = 0xAAAA0002 if kind == "create" else ("create2", 1)
        cases.append([P(A1), ("create", kind, a, 60), ("return",), ("balance", A1), ("balance", T)])
        cases.append([P(A2), ("create", kind, a, 60), ("balance", A2), ("balance", T), ("call", "call", C + 1, 3)])          # pranked payer cannot pay
        cases.append([P(A1, True), ("create", kind, a, 0), ("return",), ("call", "callcode", C + 1, 0), ("return",), ("balance", A1)])
    cases.append([("call", "callcode", C + 1, 7), ("return",), ("call", "callcode", C + 2, 60), ("balance", T)])              # unpranked CALLCODE with value
    cases.append([P(A1), ("call", "call", C + 1, 2000), ("call", "call", C + 2, 7), ("return",), ("balance", A1), ("balance", T)])  # pranked payer cannot pay
    cases.append([P(A3), ("call", "call", C + 1, 7), ("balance", A3), ("balance", T)])                                            # A3 holds nothing, this does
    cases.append([("call", "delegate", C + 1, 0), P(A1, False, A2), ("call", "callcode", C + 2, 0), ("return",), ("call", "delegate", C + 3, 0)])
    out = [{"ops": c, "bal": dict(bal)} for c in cases]
    # outside the fragment of the theorem (a value-bearing CALLCODE under a prank of another address: halmos moves
    # nothing): what the entered frame sees and whether the call is refused -- decided on the PRANKED account's
    # balance -- are still compared, the balance reads are not
    rich = dict(bal)
    rich[T] = 1000
    out.append({"ops": [P(A1), ("call", "callcode", C + 1, 60), ("return",), ("call", "callcode", C + 2, 7)], "bal": dict(bal)})
    out.append({"ops": [P(A2, True), ("call", "callcode", C + 1, 60), ("call", "callcode", C + 2, 3), ("return",), ("stopPrank",), ("call", "callcode", C + 3, 60)], "bal": rich})
    return out


def resolve(base, case, created):
    """put the addresses halmos gave the CREATE2 accounts (the targets of the creation frames of the
    trace, in execution order) into the op sequence"""
    flags = enters_flags(base, case["ops"], case["bal"])
    it = iter(created)
    bound, ops = {}, []
    for o, enters in zip(case["ops"], flags):
        if o[0] == "create":
            got = next(it, None) if enters else None
            if not isinstance(o[2], int):
                if o[2] not in bound:
                    bound[o[2]] = got if got is not None else 0xC2000000 + o[2][1]
                o = ("create", o[1], bound[o[2]], o[3])
        ops.append(o)
    return ops


def classify(ops):
    kinds = set()
    pend = False
    for o in ops:
        if o[0] == "prank":
            pend = True
            kinds.add("startPrank" if o[1] else "prank")
            if o[3] is not None:
                kinds.add("two-argument")
        elif o[0] in ("call", "create"):
            kinds.add(o[1] + ("+value" if o[3] else ""))
            if pend:
                kinds.add("pranked:" + o[1] + ("+value" if o[3] else ""))
        elif o[0] == "stopPrank":
            pend = False
        else:
            kinds.add(o[0])
    return kinds


def tie(base, rep, m, tier, r):
    n = 300 if tier == "quick" else 6000
    cases = corpus(base)
    allk = KINDS + NKINDS
    for i in range(n):
        cases.append(gen_case(base, r, r.choice([4, 6, 9, 14]), force_kind=allk[i % len(allk)] if i % 2 == 0 else None))
    impl = []
    for c in cases:
        try:
            paths = impl_case(base, c)
        except Exception as e:  # noqa: BLE001
            paths = [([[f"EXC {type(e).__name__}: {e}"]], [])]
        impl.append(paths)
        c["rops"] = resolve(base, c, paths[0][1] if paths else [])
    model = None
    if m is not None:
        calls = []
        for c in cases:
            b = sorted(c["bal"].items())
            head = [base.THIS, base.SENDER0, base.ORIGIN0, V0, len(b)] + [x for p in b for x in p]
            calls.append(("c14_prank_kinds", head + enc_ops(c["rops"])))
            calls.append(("c14_prank_kinds_spec", head + enc_ops(c["rops"])))
        model = m.parallel_batch(calls)
    nbad = 0
    for idx, c in enumerate(cases):
        ops = c["rops"]
        kinds = classify(ops)
        for k in kinds:
            rep.count("prank_kind_case", k)
        nontrivial = any(k.startswith("pranked:") for k in kinds)
        rep.case({"kinds_ops": ops, "bal": {hex(a): v for a, v in c["bal"].items()}}, nontrivial=nontrivial)
        spec, in_scope = spec_run(ops, base.THIS, base.SENDER0, base.ORIGIN0, V0, c["bal"])
        paths = impl[idx]
        if len(paths) == 0:
            tr = LOST
        elif len(paths) > 1:
            tr = DOUBLE
        else:
            tr = paths[0][0]
        shown = {"kinds_ops": ops, "balances": {hex(a): v for a, v in c["bal"].items()}, "implementation": tr if len(paths) <= 1 else [p[0] for p in paths], "spec": spec}
        differs = tr != spec
        if not in_scope and len(paths) == 1:
            differs = [x for x in tr if x[0] != 2] != [x for x in spec if x[0] != 2]
        if differs:
            nbad += 1
            first = next((i for i, (a, b) in enumerate(zip(tr, spec)) if a != b), min(len(tr), len(spec)))
            # which call the first difference belongs to
            what = "lost-input" if tr == LOST else "double-cover" if tr == DOUBLE else "frame/balance"
            sig = {"defect": "prank_kinds", "what": what}
            if nbad <= 12:
                rep.fail("failing-input",
                         f"a call/creation under a prank is not what the EVM + Foundry say (observation {first}): ops {ops} balances "
                         f"{shown['balances']}: implementation {shown['implementation']} spec {spec} "
                         "(entries: [1, ADDRESS, CALLER, ORIGIN, CALLVALUE] per entered frame, [2, balance read], [3] refused for lack of funds, [4] no path, [5] two paths)",
                         case=shown, sig=sig)
        if model is not None:
            mt = split_obs(model[2 * idx])
            ms = model[2 * idx + 1]
            cs, cspec = (ms[0] == 1), split_obs(ms[1:])
            if cs != in_scope or cspec != spec:
                nbad += 1
                if nbad <= 12:
                    rep.fail("broken-tie", f"python rendering of the specification and Spec/PrankKindSpec.v differ on {ops}: python {in_scope} {spec} coq {cs} {cspec}",
                             case=shown)
            same = (mt == tr) or (tr == LOST and mt[-1:] == [LOST]) or (tr == DOUBLE and mt[-1:] == [DOUBLE])
            if not same and (tr == spec or not in_scope):
                nbad += 1
                if nbad <= 12:
                    rep.fail("broken-tie", f"model and implementation disagree on {ops}: implementation {shown['implementation']} model {mt}",
                             case=dict(shown, model=mt))
    rep.count("tie", "L2a' prank x call kind x value programs", len(cases))
    rep.coverage["L2a_prank_kind_programs"] = {"programs": len(cases), "kinds": allk}
    return nbad


def replay_case(base, case):
    ops = [tuple(tuple(x) if isinstance(x, list) else x for x in o) for o in case["kinds_ops"]]
    bal = {int(a, 16): v for a, v in case["balances"].items()}
    c = {"ops": ops, "bal": bal}
    paths = impl_case(base, c)
    print("ops           :", ops)
    print("balances      :", bal)
    print("implementation:", [p[0] for p in paths], "(paths: %d)" % len(paths))
    print("spec          :", spec_run(ops, base.THIS, base.SENDER0, base.ORIGIN0, V0, bal)[0])
