"""C20, L2 dynamic checks on the real halmos objects.

observe_copy_kinds()    build a real Exec / Path, call the real create_branch, run_message,
                        Path.branch, Path.extend_path and report, per field, whether the new
                        object shares, shallow-copies, deep-copies or replaces the old one
                        (object identities) -- cross-check of translate/t_copies.py.
fingerprint(ex)         deep structural fingerprint of an Exec (no ids of mutable containers).
sibling_task(task)      for one generated branching program:
                        (1) every Exec is fingerprinted when pushed on the worklist and again
                            when popped: any difference is leakage from the paths that ran in
                            between (covers CPython aliasing the model cannot exhibit);
                        (2) the pre-state handed to SEVM.run_message is fingerprinted before and
                            after the whole exploration;
                        (3) every leaf of the full exploration is re-derived by a fresh run in
                            which the leaf's path condition is asserted up front (all other
                            branches infeasible); under a concrete input satisfying the leaf the
                            two end states must agree (kind, return data, storage, balances).
"""
import contextlib
import io
import random

import z3


# ------------------------------------------------------------------ fingerprints

def _is_z3(x):
    return isinstance(x, z3.AstRef)


def fp(x, depth=0, memo=None):
    """canonical, hashable description of a value; containers by content, z3 terms by sexpr"""
    if memo is None:
        memo = {}
    if depth > 12:
        return "<deep>"
    if x is None or isinstance(x, (bool, int, str, bytes, float)):
        return x
    if _is_z3(x):
        return ("z3", x.sexpr() if x.num_args() < 40 else x.get_id())
    if isinstance(x, (z3.CheckSatResult,)):
        return str(x)
    i = id(x)
    if i in memo:
        return ("<cycle>", memo[i])
    memo[i] = type(x).__name__
    try:
        if isinstance(x, (list, tuple)):
            return (type(x).__name__,) + tuple(fp(e, depth + 1, memo) for e in x)
        if isinstance(x, (set, frozenset)):
            return ("set",) + tuple(sorted((repr(fp(e, depth + 1, memo)) for e in x)))
        if isinstance(x, dict):
            return ("dict",) + tuple((repr(fp(k, depth + 1, memo)), fp(v, depth + 1, memo)) for k, v in x.items())
        name = type(x).__name__
        if name == "Contract":
            return ("Contract", len(x))          # immutable apart from caches; deepcopy returns self
        if name in ("HalmosBitVec", "HalmosBool"):
            return (name, str(x))
        if name == "ByteVec":
            return ("ByteVec", len(x), str(x)[:4000])
        if name == "Path":
            return ("Path", fp(list(x.conditions.items()), depth + 1, memo), fp(x.pending, depth + 1, memo),
                    fp(x.concretization, depth + 1, memo), fp(x.related, depth + 1, memo),
                    fp(dict(x.var_to_conds), depth + 1, memo), fp(x.sliced, depth + 1, memo), x.num_scopes)
        if name == "KeccakRegistry":
            return ("KeccakRegistry", fp(x._hash_ids, depth + 1, memo), str(x._hash_values)[:2000])
        if callable(x) and not hasattr(x, "__dict__"):
            return ("callable",)
        if name in ("function", "method", "builtin_function_or_method", "partial"):
            return ("callable",)
        if isinstance(x, BaseException):
            return ("exc", name, str(x)[:200])
        d = None
        if hasattr(x, "__dict__"):
            d = vars(x)
        elif hasattr(x, "__slots__"):
            d = {s: getattr(x, s) for s in x.__slots__ if hasattr(x, s)}
        if d is not None:
            return (name,) + tuple((k, fp(v, depth + 1, memo)) for k, v in sorted(d.items()) if k not in ("solver", "term_to_vars", "callback"))
        return (name, repr(x)[:200])
    finally:
        memo.pop(i, None)


EXEC_FIELDS = ["code", "storage", "transient_storage", "balance", "block", "context", "pgm", "pc", "st", "jumpis",
               "addresses_to_delete", "path", "alias", "cnts", "sha3s", "storages", "balances", "known_keys", "known_sigs",
               "call_sequence"]


def fingerprint(ex):
    return {f: fp(getattr(ex, f)) for f in EXEC_FIELDS}


def diff_fingerprints(a, b):
    return [f for f in EXEC_FIELDS if a[f] != b[f]]


# ------------------------------------------------------------------ copy kinds observed at run time

def _kind(old, new):
    """'same' | 'shallow' | 'deep' | 'fresh' | 'copy' (a copy whose items are immutable: shallow and deep look alike)"""
    if new is old:
        return "same"
    if type(new) is not type(old):
        return "fresh"
    items_old, items_new = None, None
    name = type(old).__name__
    if isinstance(old, dict):
        if list(map(repr, old.keys())) != list(map(repr, new.keys())) or not old:
            return "fresh"
        items_old, items_new = list(old.values()), list(new.values())
    elif isinstance(old, (list, set)):
        if len(old) != len(new) or not old:
            return "fresh"
        items_old, items_new = list(old), list(new)
    elif name == "State":
        return "deep" if (new.stack is not old.stack and new.memory is not old.memory and len(new.stack) == len(old.stack) and old.stack) else "fresh"
    elif name == "KeccakRegistry":
        if new._hash_ids is old._hash_ids:
            return "same"
        return "copy" if list(map(repr, new._hash_ids)) == list(map(repr, old._hash_ids)) and old._hash_ids else "fresh"
    elif name == "Block":
        return "copy" if all(repr(getattr(new, a)) == repr(getattr(old, a)) for a in ("number", "timestamp", "chainid")) else "fresh"
    elif name == "CallContext":
        return "deep" if (new.message is not old.message and repr(new.message.target) == repr(old.message.target) and new.trace is not old.trace and len(new.trace) == len(old.trace) and old.trace) else "fresh"
    elif name == "Concretization":
        if new.substitution is old.substitution:
            return "same"
        return "copy" if len(new.substitution) == len(old.substitution) and old.substitution else "fresh"
    else:
        return "fresh"
    mut = [(o, n) for o, n in zip(items_old, items_new) if not (_is_z3(o) or isinstance(o, (int, str, bytes, bool, type(None))) or type(o).__name__ == "Contract")]
    if not mut:
        return "copy"
    if all(o is n for o, n in mut):
        return "shallow"
    if all(o is not n for o, n in mut):
        return "deep" if all(fp(o) == fp(n) for o, n in mut) else "fresh"
    return "mixed"


def compatible(table_kind, seen):
    return {
        "Share": seen in ("same",),
        "Shallow": seen in ("shallow", "copy"),
        "Deep": seen in ("deep", "copy"),
        "Fresh": seen in ("fresh", "same-immediate"),
        "ViaPath": seen in ("fresh", "path"),
    }[table_kind]


def _populated_exec():
    """a real Exec in which every container field is non-empty"""
    from halmos.bitvec import HalmosBitVec as BV
    from halmos.sevm import SEVM, EventLog, StorageWrite
    from halmos.utils import con_addr

    from harness import engine
    from harness.asm import assemble

    code = assemble([("push", 1), "PUSH0", "SSTORE", "STOP"])
    scn = {"accounts": {0xAAAA0001: {"code": code}, 0xBEEF: {"code": b"\x00"}}, "this": 0xAAAA0001,
           "calldata": [("s", "arg0", 32)], "options": {}}
    from halmos.__main__ import mk_solver
    from halmos.calldata import FunctionInfo

    opts = engine.make_options({})
    sevm = SEVM(opts, FunctionInfo("T", "test", "test()", "f8a8fd6d"))
    ex = engine.build_exec(scn, sevm, mk_solver(opts))
    x = z3.BitVec("arg0", 256)
    ca = con_addr(0xAAAA0001)
    sevm.sstore(ex, ca, BV(z3.BitVecVal(3, 256), size=256), BV(x, size=256))
    sevm.sstore(ex, ca, BV(z3.BitVecVal(4, 256), size=256), BV(x, size=256), True)
    ex.st.push(BV(x, size=256))
    ex.st.memory.set_word(0, BV(x, size=256))
    ex.jumpis[("k", 1)] = {True: 1, False: 0}
    ex.alias[con_addr(0xBEEF)] = con_addr(0xAAAA0001)
    ex.cnts["fresh"] += 1
    ex.path.append(x != 7, branching=True)
    ex.path.append(x == z3.BitVecVal(9, 256) + z3.BitVec("y", 256))
    ex.path.append(z3.BitVec("z", 256) == z3.BitVecVal(5, 256))
    ex.sha3s.register(z3.BitVec("h", 256), None)
    ex.balance_update(ca, BV(z3.BitVecVal(10, 256), size=256).as_z3() if hasattr(BV, "as_z3") else z3.BitVecVal(10, 256))
    ex.storages[z3.BitVec("storage_x", 256)] = z3.BitVecVal(1, 256)
    ex.known_keys[con_addr(0xBEEF)] = z3.BitVecVal(1, 256)
    ex.known_sigs[(1, 2)] = (1, 2, 3)
    ex.call_sequence.append(ex.context)
    ex.addresses_to_delete.add(con_addr(0xBEEF))
    ex.context.trace.append(StorageWrite(ca, z3.BitVecVal(3, 256), x, False))
    return sevm, ex


def observe_copy_kinds():
    from halmos.__main__ import mk_solver
    from halmos.sevm import SEVM, CallContext, Message, Path
    from halmos.utils import EVM

    out = {}
    with contextlib.redirect_stdout(io.StringIO()):
        sevm, ex = _populated_exec()
        new = sevm.create_branch(ex, z3.BitVec("arg0", 256) != 8, 0)
        obs = {}
        for f in EXEC_FIELDS:
            if f == "path":
                obs[f] = "path" if new.path is not ex.path else "same"
            elif f == "pc":
                obs[f] = "fresh"
            else:
                obs[f] = _kind(getattr(ex, f), getattr(new, f))
        obs["callback"] = "same" if new.callback is ex.callback else "fresh"
        out["create_branch"] = obs
        out["path_branch"] = _path_obs(ex.path, new.path)
        # run_message: intercept SEVM.run to get hold of ex0
        sevm2, pre = _populated_exec()
        got = []
        orig_run = SEVM.run

        def fake_run(self, ex0):
            got.append(ex0)
            return iter(())

        SEVM.run = fake_run
        try:
            p = Path(mk_solver(sevm2.options))
            p.extend_path(pre.path)
            msg = Message(target=pre.this(), caller=pre.caller(), origin=pre.origin(), value=0, data=pre.calldata(), call_scheme=EVM.CALL)
            list(sevm2.run_message(pre, msg, p))
        finally:
            SEVM.run = orig_run
        ex0 = got[0]
        obs = {}
        for f in EXEC_FIELDS:
            if f == "path":
                obs[f] = "path" if ex0.path is p and p is not pre.path else "same"
            elif f == "pc":
                obs[f] = "fresh"
            elif f == "pgm":
                obs[f] = "same" if ex0.pgm is pre.code[pre.this()] else "fresh"
            else:
                obs[f] = _kind(getattr(pre, f), getattr(ex0, f))
        obs["callback"] = "fresh" if ex0.callback is None else "same"
        out["run_message"] = obs
        out["extend_path"] = _path_obs(pre.path, p, extend=True)
    return out


def _path_obs(old, new, extend=False):
    obs = {}
    obs["solver"] = "same" if new.solver is old.solver else "fresh"
    obs["num_scopes"] = "fresh"
    obs["conditions"] = _kind(old.conditions, new.conditions)
    obs["concretization"] = _kind(old.concretization, new.concretization)
    obs["pending"] = "same" if new.pending is old.pending else "fresh"
    obs["related"] = _kind(old.related, new.related)
    obs["var_to_conds"] = _kind(old.var_to_conds, new.var_to_conds)
    obs["term_to_vars"] = "same" if new.term_to_vars is old.term_to_vars else "fresh"
    obs["sliced"] = "fresh"
    return obs


# ------------------------------------------------------------------ sibling leakage on generated programs

def _run_instrumented(scn, pre_conditions=(), via_run_message=False):
    """Run the real SEVM on the scenario.  Returns (PathRecords, leaks, flags)."""
    from halmos.__main__ import mk_solver
    from halmos.calldata import FunctionInfo
    from halmos.mapper import BuildOut
    from halmos.sevm import SEVM, Path, Worklist

    from harness import engine

    if BuildOut()._build_out_map is None:
        BuildOut().set_build_out({})
    opts = engine.make_options(scn.get("options"))
    sevm = SEVM(opts, FunctionInfo("T", "test", "test()", "f8a8fd6d"))
    solver = mk_solver(opts)
    ex0 = engine.build_exec(scn, sevm, solver)
    for c in pre_conditions:
        ex0.path.append(c)
    leaks = []
    snaps = {}
    orig_push, orig_pop = Worklist.push, Worklist.pop

    def push(self, ex):
        snaps[id(ex)] = (ex, fingerprint(ex))
        return orig_push(self, ex)

    def pop(self):
        ex = orig_pop(self)
        if ex is not None and id(ex) in snaps:
            held, before = snaps.pop(id(ex))
            if held is ex:
                d = diff_fingerprints(before, fingerprint(ex))
                if d:
                    leaks.append({"where": "worklist", "fields": d, "pc": ex.pc})
        return ex

    paths = []
    buf = io.StringIO()
    crashed = None
    Worklist.push, Worklist.pop = push, pop
    try:
        with contextlib.redirect_stdout(buf), contextlib.redirect_stderr(buf):
            try:
                if via_run_message:
                    pre = ex0
                    before = fingerprint(pre)
                    p = Path(mk_solver(opts))
                    p.extend_path(pre.path)
                    it = sevm.run_message(pre, pre.message(), p)
                else:
                    it = sevm.run(ex0)
                for ex in it:
                    paths.append(engine.PathRecord(ex, sevm, scn))
                if via_run_message:
                    d = diff_fingerprints(before, fingerprint(pre))
                    if d:
                        leaks.append({"where": "run_message pre-state", "fields": d})
            except Exception as e:  # noqa: BLE001
                crashed = f"{type(e).__name__}: {e}"
    finally:
        Worklist.push, Worklist.pop = orig_push, orig_pop
    flags = {"bounded_loops": len(sevm.logs.bounded_loops), "crashed": crashed}
    return paths, leaks, flags


def _obs_of(p, scn, inp):
    ok, ev = p.holds(inp)
    if ok is not True:
        return ok, None
    if p.kind.startswith("stuck"):
        return True, {"kind": "stuck"}
    o = {"kind": p.kind.split(":")[0]}
    try:
        if p.kind in ("ok", "revert"):
            o["ret"] = p.ret_bytes(ev).hex()
        if p.kind == "ok":
            addrs = sorted(set(scn["accounts"]) | {inp["caller"]})
            ob = p.observe(ev, addrs)
            st = {}
            for a, flat, v, transient, _sp in ob["storage"]:
                st[(a, flat, transient)] = v
            o["storage"] = sorted((k, v) for k, v in st.items() if v != 0)
            o["balance"] = sorted(ob["balance"].items())
    except Exception as e:  # noqa: BLE001
        return None, f"{type(e).__name__}: {e}"
    return True, o


def sibling_task(task):
    """task = (seed, scenario description).  -> summary dict"""
    from harness import engine, l2tie, scenarios

    seed, desc = task
    scn = scenarios.from_description(desc)
    rng = random.Random(seed)
    via = bool(seed % 2)
    paths, leaks, flags = _run_instrumented(scn, via_run_message=via)
    res = {"n_paths": len(paths), "kinds": [p.kind for p in paths], "leaks": leaks, "flags": flags, "rederive": [],
           "rederived": 0, "skipped": 0, "branching": len(paths) > 1, "via_run_message": via}
    if flags["crashed"] or len(paths) < 2:
        return res
    leaves = [p for p in paths if not p.kind.startswith("stuck")]
    rng.shuffle(leaves)
    for leaf in leaves[:3]:
        m = engine.model_inputs(leaf)
        if m is None:
            res["skipped"] += 1
            continue
        inp = l2tie.input_from_model(scn, m, paths)
        ok, want = _obs_of(leaf, scn, inp)
        if ok is not True:
            res["skipped"] += 1
            continue
        conds = [c for c in leaf.conditions]
        paths2, leaks2, flags2 = _run_instrumented(scn, pre_conditions=conds)
        res["leaks"] += leaks2
        if flags2["crashed"]:
            res["skipped"] += 1
            continue
        got = []
        unknown = 0
        for q in paths2:
            ok2, o = _obs_of(q, scn, inp)
            if ok2 is None:
                unknown += 1
            elif ok2:
                got.append(o)
        if unknown:
            res["skipped"] += 1
            continue
        res["rederived"] += 1
        if flags2["bounded_loops"] != 0 and not got:
            continue
        if not got or any(g != want for g in got):
            res["rederive"].append({"input": {k: (v if not isinstance(v, dict) else {str(a): b for a, b in v.items()}) for k, v in inp.items()},
                                    "full_run": want, "constrained_run": got, "n_paths_constrained": len(paths2)})
    return res
