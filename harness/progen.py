"""Grammar-based generator of small EVM programs for the L2 ties (C01, C02, C08, C09, C10).

Every statement leaves the stack balanced; every expression pushes exactly one word.
Memory offsets, copy sizes and jump targets are concrete (halmos requires it); everything
else may depend on the symbolic inputs (calldata words arg0..argN, CALLER, CALLVALUE, ...).
"""
from harness.asm import assemble

BOUNDARY = [0, 1, 2, 3, 31, 32, 33, 255, 256, 257, (1 << 64), (1 << 128), (1 << 255), (1 << 255) - 1, (1 << 255) + 1, (1 << 256) - 1, (1 << 256) - 2, 0x4E487B71 << 224]
BIN = ["ADD", "MUL", "SUB", "DIV", "SDIV", "MOD", "SMOD", "EXP", "SIGNEXTEND", "LT", "GT", "SLT", "SGT", "EQ", "AND", "OR", "XOR", "BYTE", "SHL", "SHR", "SAR"]
UN = ["ISZERO", "NOT"]
TERN = ["ADDMOD", "MULMOD"]
ENVOPS = ["CALLER", "CALLVALUE", "ORIGIN", "ADDRESS", "SELFBALANCE", "TIMESTAMP", "NUMBER", "CHAINID", "CALLDATASIZE", "CODESIZE", "COINBASE", "BASEFEE", "GASLIMIT", "DIFFICULTY", "RETURNDATASIZE", "PC", "MSIZE"]


class Gen:
    def __init__(self, rng, nargs=2, features=None, pool=None):
        self.r = rng
        self.nargs = nargs
        self.f = features or {"arith", "env", "mem", "storage", "sha3", "branch"}
        self.labels = 0
        self.pool = pool or []          # addresses of callee contracts
        self.used = set()
        self.self_guard = False         # the program must return at once when called with empty calldata

    def lab(self):
        self.labels += 1
        return f"L{self.labels}"

    # ------------------------------------------------------------ expressions
    def const(self):
        r = self.r
        c = r.random()
        if c < 0.45:
            return r.choice(BOUNDARY)
        if c < 0.8:
            return r.randrange(0, 300)
        return r.getrandbits(r.choice([8, 16, 64, 160, 256]))

    def arg(self):
        i = self.r.randrange(self.nargs) if self.nargs else 0
        return [("push", 4 + 32 * i), "CALLDATALOAD"]

    def expr(self, depth=2):
        r = self.r
        if depth <= 0 or r.random() < 0.25:
            c = r.random()
            if c < 0.4 and self.nargs:
                return self.arg()
            if c < 0.7 or "env" not in self.f:
                return [("push", self.const())]
            if c < 0.85:
                op = r.choice(ENVOPS)
                self.used.add(op)
                return [op]
            if c < 0.9 and "mem" in self.f:
                return [("push", r.choice([0, 32, 64, 1, 31, 96])), "MLOAD"]
            if c < 0.95 and "storage" in self.f:
                return [("push", r.choice([0, 1, 2])), r.choice(["SLOAD", "SLOAD", "TLOAD"])]
            return [("push", r.choice([0, 31, 32, 4, 36, 1000])), "CALLDATALOAD"]
        c = r.random()
        if c < 0.12:
            return self.expr(depth - 1) + [r.choice(UN)]
        if c < 0.2:
            return self.expr(depth - 1) + self.expr(depth - 1) + self.expr(depth - 1) + [r.choice(TERN)]
        if c < 0.27 and "sha3" in self.f:
            return self.mapping_slot(depth - 1)
        if c < 0.3 and "env" in self.f:
            who = r.choice(["CALLER", "ADDRESS", ("push", r.choice(self.pool + [0xC0FFEE]))])
            return [who, "BALANCE"]
        op = r.choice(BIN)
        a, b = self.expr(depth - 1), self.expr(depth - 1)
        # operand order: second pushed is the top of the stack = first EVM operand
        if op in ("BYTE", "SHL", "SHR", "SAR", "SIGNEXTEND") and r.random() < 0.7:
            b = [("push", r.choice([0, 1, 7, 8, 30, 31, 32, 33, 255, 256, 257]))]
        if op == "EXP":
            # never a large concrete exponent with a concrete base (concrete EXP is C06's business)
            b = [("push", r.choice([0, 1, 2, 3, 10, 255, 256]))] if r.random() < 0.7 else self.arg()
            a = [("push", r.choice([0, 1, 2, 3, 8, 77]))] if r.random() < 0.6 else self.arg()
            return b + a + [op]
        return a + b + [op]

    def mapping_slot(self, depth):
        """keccak(key . slot) -- Solidity mapping element location"""
        slot = self.r.choice([0, 1, 2])
        return self.expr(depth) + ["PUSH0", "MSTORE", ("push", slot), ("push", 32), "MSTORE", ("push", 64), "PUSH0", "SHA3"]

    def array_slot(self, depth):
        """keccak(slot) + index -- Solidity dynamic array element location"""
        slot = self.r.choice([0, 1, 2])
        return [("push", slot), "PUSH0", "MSTORE", ("push", 32), "PUSH0", "SHA3"] + self.expr(depth) + ["ADD"]

    def slot_expr(self):
        c = self.r.random()
        if "noarrayslot" in self.f:
            return [("push", self.r.choice([0, 1, 2, 3]))] if c < 0.5 else self.mapping_slot(1 if c < 0.8 else 0)
        if c < 0.4 or "sha3" not in self.f:
            return [("push", self.r.choice([0, 1, 2, 3]))]
        if c < 0.7:
            return self.mapping_slot(1)
        if c < 0.85:
            return self.array_slot(0)
        return self.expr(1)

    # ------------------------------------------------------------ statements
    def stmt(self, depth=2):
        r = self.r
        choices = ["mstore"]
        if "storage" in self.f:
            choices += ["sstore", "sstore", "tstore", "sload_mstore"]
        if "branch" in self.f and depth > 0:
            choices += ["if", "if", "guard"]
        if "stackops" in self.f:
            choices = ["stackops"] * 5 + ["sha3range", "mstore"]
        if "corr" in self.f and depth > 0:
            choices = ["corr", "corr", "corr", "corr", "mstore", "sstore"]
        if "mem" in self.f:
            choices += ["mstore8", "copy", "mcopy"]
        if "log" in self.f:
            choices += ["log"]
        if "loop" in self.f and depth > 0:
            choices += ["loop"]
        if "call" in self.f and self.pool and depth > 0:
            choices += ["call", "call"]
        if "create" in self.f and depth > 0:
            choices += ["create", "create", "create"]
        if "create2" in self.f:
            choices = ["create2", "create2", "create2", "create2", "mstore"] + (["call"] if self.pool else [])
        if "symcall" in self.f:
            choices = ["symcall", "symcall", "symcall", "extcode", "extcode", "mstore", "call", "if"]
        if "valuecall" in self.f and self.pool:
            choices = ["valuecall", "valuecall", "valuecall", "valuecall", "mstore", "call"] + (["if", "guard"] if depth > 0 else [])
        if "callfail" in self.f and self.pool:
            choices += ["call_bump", "call_bump", "call"]
        k = r.choice(choices)
        if k == "corr":
            return self.correlated()
        if k == "stackops":
            return self.stackops()
        if k == "sha3range":
            # keccak over a memory range that is partly written, partly fresh, not word aligned
            return self.expr(1) + [("push", r.choice([0, 1, 31, 32])), "MSTORE", ("push", r.choice([0, 1, 31, 32, 33, 64, 65])), ("push", r.choice([0, 1, 2, 31, 32])), "SHA3",
                                   ("push", r.choice([64, 96])), "MSTORE"]
        if k == "symcall":
            return self.symcall()
        if k == "extcode":
            return self.sym_address() + [r.choice(["EXTCODESIZE", "EXTCODEHASH", "BALANCE"]), ("push", r.choice([0, 32, 64])), "MSTORE"]
        if k == "valuecall":
            return self.valuecall()
        if k == "call_bump":
            return self.call_bump()
        if k == "mstore":
            return self.expr(2) + [("push", r.choice([0, 32, 64, 1, 33])), "MSTORE"]
        if k == "mstore8":
            return self.expr(1) + [("push", r.choice([0, 31, 32, 63, 64])), "MSTORE8"]
        if k == "sstore":
            return self.expr(2) + self.slot_expr() + ["SSTORE"]
        if k == "tstore":
            return self.expr(1) + [("push", r.choice([0, 1]))] + ["TSTORE"]
        if k == "sload_mstore":
            return self.slot_expr() + ["SLOAD", ("push", r.choice([0, 32, 64])), "MSTORE"]
        if k == "copy":
            size = r.choice([0, 1, 31, 32, 33, 64])
            return [("push", size), ("push", r.choice([0, 4, 36, 100])), ("push", r.choice([0, 1, 32, 64])), r.choice(["CALLDATACOPY", "CODECOPY"])]
        if k == "mcopy":
            return [("push", r.choice([0, 1, 32, 33])), ("push", r.choice([0, 1, 32])), ("push", r.choice([0, 16, 32, 64])), "MCOPY"]
        if k == "log":
            n = r.randrange(0, 3)
            topics = []
            for _ in range(n):
                topics += self.expr(0)
            return topics + [("push", r.choice([0, 32, 64])), ("push", r.choice([0, 32])), f"LOG{n}"]
        if k == "if":
            l_else, l_end = self.lab(), self.lab()
            body1 = self.block(depth - 1)
            body2 = self.block(depth - 1) if r.random() < 0.5 else []
            # if (cond) body1 else body2
            return self.cond() + ["ISZERO", ("ref", l_else), "JUMPI"] + body1 + [("ref", l_end), "JUMP", ("label", l_else)] + body2 + [("label", l_end)]
        if k == "guard":
            l_ok = self.lab()
            fail = r.choice(["panic", "revert", "invalid", "return"])
            if fail == "panic":
                code = r.choice([0x01, 0x11, 0x12, 0x32])
                tail = [("pushn", 32, 0x4E487B71 << 224), "PUSH0", "MSTORE", ("push", code), ("push", 4), "MSTORE", ("push", 0x24), "PUSH0", "REVERT"]
            elif fail == "revert":
                tail = [("push", r.choice([0, 4, 32])), "PUSH0", "REVERT"]
            elif fail == "invalid":
                tail = ["INVALID"]
            else:
                tail = [("push", 32), "PUSH0", "RETURN"]
            return self.cond() + [("ref", l_ok), "JUMPI"] + tail + [("label", l_ok)]
        if k == "loop":
            return self.loop(depth - 1)
        if k == "call" and "create2" in self.f:
            # every creating callee is called at most once per program: a second call with a differently spelled
            # argument would be a second creation whose (sender, salt, init code) may or may not be the first one's
            done = getattr(self, "c2_called", set())
            left = [a for a in self.pool if a not in done]
            if not left:
                return self.expr(2) + [("push", r.choice([0, 32, 64])), "MSTORE"]
            saved, self.pool = self.pool, [r.choice(left)]
            self.c2_called = done | set(self.pool)
            try:
                return self.call(depth - 1)
            finally:
                self.pool = saved
        if k == "call":
            return self.call(depth - 1)
        if k == "create":
            return self.create()
        if k == "create2":
            return self.create2()
        raise ValueError(k)

    def cond(self):
        r = self.r
        c = r.random()
        if "sha3" in self.f and c < (0.6 if "hashcond" in self.f else 0.25):
            # the overflow check solc emits for a dynamic array element: keccak(slot) + index (+ c) < keccak(slot)
            slot = r.choice([0, 1, 2])
            h = [("push", slot), "PUSH0", "MSTORE", ("push", 32), "PUSH0", "SHA3"]
            idx = self.arg() + ([("push", r.choice([1, 5, 32])), "ADD"] if r.random() < 0.6 else [])
            if r.random() < 0.5:
                idx = [("push", r.choice([1, 2, 8]))] + idx + ["ADD"]
            if r.random() < 0.5:
                return h + h + idx + ["ADD", r.choice(["LT", "GT"])]
            # the same check for an element of a mapping value: keccak(key . slot) with a symbolic key
            other = [("push", 4 + 32 * ((self.r.randrange(self.nargs) if self.nargs else 0))), "CALLDATALOAD"]
            hk = other + ["PUSH0", "MSTORE", ("push", slot), ("push", 32), "MSTORE", ("push", 64), "PUSH0", "SHA3"]
            return hk + hk + idx + ["ADD", r.choice(["LT", "GT"])]
        if c < 0.6:
            return self.expr(1) + self.expr(1) + [r.choice(["LT", "GT", "SLT", "SGT", "EQ"])]
        if c < 0.8:
            return self.expr(2) + ["ISZERO"]
        return self.expr(2)

    def block(self, depth):
        out = []
        for _ in range(self.r.randrange(1, 3)):
            out += self.stmt(depth)
        return out

    def loop(self, depth):
        """for (i = 0; i < N; i++) body  -- N concrete or an input"""
        r = self.r
        l_top, l_end = self.lab(), self.lab()
        bound = [("push", r.choice([0, 1, 2, 3, 5]))] if r.random() < 0.5 else self.arg()
        c = r.random()
        if "symloop" in self.f:
            # trip count = an input (possibly masked to a small range), always observable afterwards
            bound = self.arg() + ([("push", r.choice([3, 7, 15])), "AND"] if r.random() < 0.5 else [])
            c = 0.6 + 0.4 * r.random()
        if c < 0.45:
            body = self.stmt(0)
        elif c < 0.6:
            body = []
        elif c < 0.8:
            body = ["DUP1", ("push", r.choice([0, 32, 64])), "MSTORE"]                       # publish the counter
        else:
            body = [("push", 1), r.choice(["SLOAD", "TLOAD"])]                                 # accumulate in a slot
            body = [("push", 1), "SLOAD", ("push", 3), "ADD", ("push", 1), "SSTORE"] if body[-1] == "SLOAD" else [("push", 1), "TLOAD", "DUP2", "ADD", ("push", 1), "TSTORE"]
        # the trip count stays observable: the final counter is published (not just popped) most of the time
        tail = [("push", r.choice([0, 32, 96])), "MSTORE"] if (r.random() < 0.6 or "symloop" in self.f) else ["POP"]
        # stack: [i]
        return (["PUSH0", ("label", l_top), "DUP1"] + bound + ["SWAP1", "LT", "ISZERO", ("ref", l_end), "JUMPI"]
                + body + [("push", 1), "ADD", ("ref", l_top), "JUMP", ("label", l_end)] + tail)

    def call(self, depth):
        r = self.r
        kind = r.choice(["CALL", "CALL", "STATICCALL", "DELEGATECALL", "CALLCODE"])
        to = r.choice(self.pool)
        pre = self.expr(1) + [("push", 0), "MSTORE"]          # argument word at mem[0]
        value = [("push", r.choice([0, 0, 1, 1000]))] if r.random() < 0.7 else self.expr(0)
        ret_size, ret_off = r.choice([0, 32, 64, 64, 96]), r.choice([64, 96])
        if r.random() < 0.7:
            # the output window is not fresh memory: what the callee does not overwrite must survive
            # (mostly the LAST word of the window: callees return 0, 32, 64 or 96 bytes)
            tail = max(0, ret_size - 32) if r.random() < 0.7 else r.choice([0, 32, 33, 64])
            pre += (self.expr(0) if r.random() < 0.5 else [("push", 0xD1D1D1D1)]) + [("push", ret_off + tail), "MSTORE"]
        items = pre + [("push", ret_size), ("push", ret_off), ("push", r.choice([0, 32, 36])), ("push", 0)]
        if kind in ("CALL", "CALLCODE"):
            items += value
        items += [("push", to), "GAS" if False else ("push", 100000), kind]
        # store the success flag so that it is observable
        items += [("push", 224), "MSTORE"]
        if r.random() < 0.4:
            if r.random() < 0.5:
                # (size, source offset): inside, exactly at the end, zero-size at / past the end, past the end
                size, off = r.choice([(32, 0), (1, 31), (0, 32), (0, 33), (32, 1), (33, 0), (0, 96), (64, 0)])
                items += [("push", size), ("push", off), ("push", 160), "RETURNDATACOPY"]
            else:
                items += ["RETURNDATASIZE", ("push", 160), "MSTORE"]
        return items

    def stackops(self):
        """push n words, shuffle them with DUPs and SWAPs of every depth up to 16, publish what ends up on top"""
        r = self.r
        n = r.choice([3, 8, 16, 17, 18, 18])
        items = []

        def pick(mx):   # the deepest positions are the interesting ones
            return r.choice([1, 2, mx, mx, max(1, mx - 1), r.randrange(1, mx + 1)])
        for i in range(n):
            items += self.expr(0) if r.random() < 0.4 else [("push", 0x100 + i)]
        depth = n
        for _ in range(r.randrange(2, 9)):
            if r.random() < 0.5 and depth < 40:
                k = pick(min(16, depth))
                items.append(f"DUP{k}")
                depth += 1
            elif depth >= 2:
                k = pick(min(16, depth - 1))
                items.append(f"SWAP{k}")
        pub = r.randrange(1, min(4, depth) + 1)
        for j in range(pub):
            items += [("push", 32 * j), "MSTORE"]
        depth -= pub
        items += ["POP"] * depth
        return items

    def correlated(self):
        """two successive branches on the SAME operand with related bounds: what one side of the first
        refutes is feasible on the other side (if (a < k2) {..}; if (a < k1) {..} with k1 < k2, and variants)"""
        r = self.r
        a = self.arg()
        k1 = r.choice([1, 5, 7, 100, 1 << 128])
        k2 = k1 + r.choice([1, 5, 1000])
        op = r.choice(["LT", "LT", "GT", "SLT", "EQ", "EQ"])
        first, second = (k2, k1) if r.random() < 0.7 else (k1, k2)

        def test(k):
            # operand order: a OP k  (k pushed first)
            return [("push", k)] + a + [op]

        l1, l2, l3 = self.lab(), self.lab(), self.lab()
        mark = lambda v, off: [("push", v), ("push", off), "MSTORE"]  # noqa: E731
        items = test(first) + ["ISZERO", ("ref", l1), "JUMPI"] + (self.stmt(0) if r.random() < 0.5 else mark(0xA1, 0)) + [("label", l1)]
        if r.random() < 0.5:
            items += self.stmt(0)
        if r.random() < 0.6:
            # the operand is read again after the join: what one side learnt about it (a == k) is not known on the other
            items += a + [("push", r.choice([96, 128])), "MSTORE"]
        end = r.choice(["revert", "mark", "mark", "invalid"])
        items += test(second) + ["ISZERO", ("ref", l2), "JUMPI"]
        items += {"revert": [("push", 0), "PUSH0", "REVERT"], "invalid": ["INVALID"], "mark": mark(0xB2, 32)}[end]
        items += [("label", l2)]
        if r.random() < 0.4:   # and once more, the very same test as the second one
            items += test(second) + ["ISZERO", ("ref", l3), "JUMPI"] + mark(0xC3, 64) + [("label", l3)]
        return items

    def sym_address(self):
        """an address-valued expression depending on an input, possibly with dirty upper bits"""
        r = self.r
        c = r.random()
        if c < 0.55:
            return self.arg()
        if c < 0.75:
            return self.arg() + [("pushn", 20, (1 << 160) - 1), "AND"]
        if c < 0.85:
            return ["CALLER"]
        # one of two pool members selected by an input bit: ITE-shaped address
        a, b = r.sample(self.pool, 2) if len(self.pool) >= 2 else (0x1000, 0xC0FFEE)
        return self.arg() + [("push", 1), "AND", ("push", a ^ b), "MUL", ("push", a), "XOR"]

    def symcall(self):
        """a call whose target is not a concrete address: halmos has to enumerate the aliases"""
        r = self.r
        kind = r.choice(["CALL", "CALL", "STATICCALL", "DELEGATECALL", "CALLCODE"])
        pre = self.expr(1) + [("push", 0), "MSTORE"]
        ret_size, ret_off = r.choice([0, 32, 64]), r.choice([64, 96])
        items = pre + [("push", ret_size), ("push", ret_off), ("push", r.choice([0, 32, 36])), ("push", 0)]
        if kind in ("CALL", "CALLCODE"):
            items += [("push", r.choice([0, 0, 0, 1]))]
        items += self.sym_address() + [("push", 100000), kind, ("push", 128), "MSTORE", "RETURNDATASIZE", ("push", 160), "MSTORE"]
        return items

    def valuecall(self):
        """value-bearing CALL / CALLCODE: sufficient and insufficient balances must both be explored"""
        r = self.r
        kind = r.choice(["CALL", "CALL", "CALL", "CALLCODE"])
        to = r.choice(self.pool + [0xC0FFEE])
        if r.random() < 0.25:
            # pay oneself: the executing account calls itself with empty calldata (the program starts with
            # `if calldatasize == 0: stop`), balances must be unchanged whatever the order of the updates
            self.self_guard = True
            value = [("push", r.choice([1, 7, 1000]))] if r.random() < 0.6 else self.arg()
            return ([("push", 0), ("push", 0), ("push", 0), ("push", 0)] + value + ["ADDRESS", ("push", 100000), kind, ("push", 128), "MSTORE",
                    "SELFBALANCE", ("push", 160), "MSTORE"])
        c = r.random()
        if c < 0.3:
            value = [("push", r.choice([1, 2, 1000, 10 ** 18]))]
        elif c < 0.6:
            value = self.arg()
        elif c < 0.75:
            value = ["SELFBALANCE"]
        elif c < 0.9:
            value = ["SELFBALANCE", ("push", 1), "ADD"]
        else:
            value = ["CALLVALUE"]
        items = [("push", 32), ("push", 64), ("push", 0), ("push", 0)] + value + [("push", to), ("push", 100000), kind, ("push", 128), "MSTORE"]
        if r.random() < 0.5:
            items += ["SELFBALANCE", ("push", 160), "MSTORE"]
        return items

    def call_bump(self):
        """call (to a callee with several failing paths), then bump a scalar slot and publish it"""
        r = self.r
        slot = r.choice([0, 1])
        load, store = r.choice([("SLOAD", "SSTORE"), ("SLOAD", "SSTORE"), ("TLOAD", "TSTORE")])
        items = self.call(0)
        items += [("push", slot), load, ("push", r.choice([1, 3])), "ADD", ("push", slot), store]
        items += [("push", slot), load, ("push", r.choice([0, 32])), "MSTORE"]
        return items

    def create(self):
        r = self.r
        rt = assemble([("push", r.choice([0, 7])), "PUSH0", "SSTORE", "STOP"]) if r.random() < 0.5 else assemble(["CALLER", "PUSH0", "MSTORE", ("push", 32), "PUSH0", "RETURN"])
        mode = r.choice(["ok", "ok", "revert", "invalid", "ctx", "ctx", "revert_data", "revert_data", "revert_data"])
        if mode == "ctx":
            # the constructor looks at its own context: calldata is EMPTY in a creation frame (copy, load, size),
            # the deployed code records what it saw
            init = assemble([("push", 32), "PUSH0", "PUSH0", "CALLDATACOPY", "CALLDATASIZE", ("push", 32), "MSTORE", "PUSH0", "CALLDATALOAD", ("push", 64), "MSTORE",
                             r.choice(["CALLER", "CALLVALUE", "ADDRESS", "CODESIZE"]), ("push", 96), "MSTORE", ("push", 128), "PUSH0", "RETURN"])
        elif mode == "revert_data":
            # the constructor reverts WITH data: the creator's returndata buffer holds it (EIP-211)
            init = assemble([("push", r.choice([0xAB, 0xCD00, 1])), "PUSH0", "MSTORE", ("push", 7), ("push", 1), "SSTORE", ("push", r.choice([32, 33, 1])), "PUSH0", "REVERT"])
        elif mode == "ok":
            init = assemble([("pushn", 32, int.from_bytes(rt.ljust(32, b"\0"), "big")), "PUSH0", "MSTORE", ("push", len(rt)), "PUSH0", "RETURN"])
        elif mode == "revert":
            init = assemble([("push", 5), "PUSH0", "SSTORE", "PUSH0", "PUSH0", "REVERT"])
        else:
            init = assemble([("push", 5), "PUSH0", "SSTORE", "INVALID"])
        n = len(init)
        assert n <= 64
        w0 = int.from_bytes(init[:32].ljust(32, b"\0"), "big")
        w1 = int.from_bytes(init[32:64].ljust(32, b"\0"), "big")
        items = [("pushn", 32, w0), ("push", 256), "MSTORE", ("pushn", 32, w1), ("push", 288), "MSTORE"]
        items += [("push", n), ("push", 256), ("push", r.choice([0, 0, 1])), "CREATE", ("push", 192), "MSTORE"]
        # what the creator sees in its returndata buffer afterwards (empty after a success, the revert data after a revert)
        c = r.random()
        if c < 0.45:
            items += ["RETURNDATASIZE", ("push", 160), "MSTORE"]
        elif c < 0.9:
            items += ["RETURNDATASIZE", "PUSH0", ("push", 128), "RETURNDATACOPY"]
        if r.random() < 0.5:
            # does the address the creation was (or would have been) given exist afterwards?  A failed creation leaves
            # nothing behind: EXTCODEHASH of a non-existent account is 0, of an existing empty one keccak("")
            k = r.choice([1, 2, 2, 3])
            items += [("pushn", 4, 0xAAAA0000 + k), r.choice(["EXTCODEHASH", "EXTCODEHASH", "EXTCODESIZE"]), ("push", 96), "MSTORE"]
        return items

    def create2(self):
        """CREATE2 of init code that is fully concrete or a concrete constructor followed by a (symbolic)
        constructor argument; the constructor may jump, branch on its argument, revert with data, look at its
        context; afterwards the creator looks at the result: address, returndata buffer, EXTCODE* / BALANCE of the
        new account, a call into the deployed code, the same creation once more (collision), a CREATE (the CREATE
        address counter is not consumed by CREATE2).
        Every init code of a program carries its own tag byte, so two creations of one program have either
        the very same (sender, salt, init code) spelling or different init codes: see DESIGN.md 10.2.x for why
        semantically-equal-but-differently-spelled creations are kept out."""
        r = self.r
        self.c2n = getattr(self, "c2n", 0) + 1
        tag = getattr(self, "c2tag_base", 0x10) + self.c2n
        rt = assemble(r.choice(C2_RUNTIMES))
        kind = r.choice(["ok", "jump", "jump", "args", "args", "args", "args", "revert_data", "invalid", "ctx"])
        init = c2_ctor(r, tag, kind, rt)
        base, n = 256, len(init)
        place = place_code(init, base)
        if kind == "args":
            argv = self.arg() if r.random() < 0.85 else [("push", r.choice([0, 1, 5, 7]))]
            place += argv + [("push", base + n), "MSTORE"]
            n += 32
        twice = r.random() < 0.35
        salts = [[("push", 0)], [("push", 1)], [("push", 5)], [("pushn", 32, (1 << 256) - 1)], ["CALLER"]]
        if not (twice and kind == "args"):
            # (a constructor that branches on `argument == constant` pins the calldata word: halmos then reads it back as
            #  the constant, and the second creation would be SPELLED differently from the first)
            salts += [self.arg(), self.arg()]
        salt = r.choice(salts)
        value = [("push", r.choice([0, 0, 0, 1, 1000]))] if r.random() < 0.8 else self.arg()
        again = salt + [("push", n), ("push", base)] + value + ["CREATE2"]       # the init code stays where it is
        items = place + again + [("push", 192), "MSTORE"]
        c = r.random()
        if c < 0.35:
            items += ["RETURNDATASIZE", ("push", 160), "MSTORE"]
        elif c < 0.7:
            items += ["RETURNDATASIZE", "PUSH0", ("push", 128), "RETURNDATACOPY"]
        if r.random() < 0.5:
            items += [("push", 192), "MLOAD", r.choice(["EXTCODESIZE", "EXTCODESIZE", "EXTCODEHASH", "BALANCE"]), ("push", 96), "MSTORE"]
        if r.random() < 0.5:
            # call into the deployed code (address 0 when the creation failed: an empty account)
            kindc = r.choice(["CALL", "CALL", "STATICCALL", "DELEGATECALL"])
            items += self.expr(0) + ["PUSH0", "MSTORE", ("push", 64), ("push", 128), ("push", 32), "PUSH0"]
            if kindc == "CALL":
                items += [("push", r.choice([0, 0, 1]))]
            items += [("push", 192), "MLOAD", ("push", 100000), kindc, ("push", 224), "MSTORE"]
        if twice:
            # the very same creation again: the address is taken if (and only if) the first one succeeded
            items += again + [("push", 64), "MSTORE", "RETURNDATASIZE", ("push", 32), "MSTORE"]
        if r.random() < 0.3:
            # a CREATE afterwards gets the first address of the CREATE scheme: CREATE2 does not consume the counter
            tiny = assemble([("push", 0xFE), "PUSH0", "MSTORE8", ("push", 1), "PUSH0", "RETURN"])
            items += place_code(tiny, 256) + [("push", len(tiny)), ("push", 256), "PUSH0", "CREATE", "PUSH0", "MSTORE"]
        return items

    def symjump_tail(self):
        """JUMP to a destination computed from an input (--symbolic-jump): a table of landing pads,
        each returning its own marker; the selector mixes valid destinations, offsets and raw input"""
        r = self.r
        n = r.randrange(1, 4)
        pads = [self.lab() for _ in range(n)]
        c = r.random()
        if c < 0.35:
            sel = self.arg()                                               # raw input word
        elif c < 0.7:
            sel = self.arg() + [("push", 1), "AND", ("ref", pads[0]), "ADD"]   # pad0 or pad0+1 (invalid)
        else:
            sel = self.arg() + [("push", 3), "AND", ("push", 10), "MUL", ("ref", pads[0]), "ADD"]   # pad k (10 bytes each) or past the last one
        items = sel + ["JUMP"]
        for k, l in enumerate(pads):
            items += [("label", l), ("push", 0xD0 + k), ("push", 64), "MSTORE", ("push", 96), "PUSH0", "RETURN"]
        return items

    def program(self, nstmts=3, depth=2, epilogue=True):
        items = []
        for _ in range(nstmts):
            items += self.stmt(depth)
        if self.self_guard:
            g = self.lab()
            items = ["CALLDATASIZE", ("ref", g), "JUMPI", "STOP", ("label", g)] + items
        if "symjump" in self.f:
            return items + self.symjump_tail()
        if epilogue:
            c = self.r.random()
            if c < 0.75:
                sizes = [224, 256, 256] if ("call" in self.f or "create" in self.f or "create2" in self.f) else [32, 64, 96, 224]
                items += [("push", self.r.choice(sizes)), "PUSH0", "RETURN"]
            elif c < 0.85:
                items += ["STOP"]
            elif c < 0.95:
                items += [("push", 32), "PUSH0", "REVERT"]
            else:
                items += []
        return items


# ---------------------------------------------------------------- CREATE2
# runtime codes (at most 32 bytes) a constructor deploys
C2_RUNTIMES = [
    ["CALLER", "PUSH0", "MSTORE", "ADDRESS", ("push", 32), "MSTORE", ("push", 64), "PUSH0", "RETURN"],
    [("push", 7), "PUSH0", "SSTORE", "CALLVALUE", ("push", 1), "SSTORE", "STOP"],
    ["PUSH0", "CALLDATALOAD", ("push", 1), "SSTORE", ("push", 1), "SLOAD", "PUSH0", "MSTORE", ("push", 32), "PUSH0", "RETURN"],
    ["PUSH0", "CALLDATALOAD", "PUSH0", "MSTORE", ("push", 32), "PUSH0", "REVERT"],
    ["STOP"],
]


def place_code(code, base):
    """items that store `code` at mem[base ...], word by word (the last word zero padded)"""
    items = []
    for i in range(0, len(code), 32):
        items += [("pushn", 32, int.from_bytes(code[i:i + 32].ljust(32, b"\0"), "big")), ("push", base + i), "MSTORE"]
    return items


def c2_ctor(rng, tag, kind, rt):
    """init code; `tag` (1..255) makes it unlike every other init code of the program.
    kind: ok | jump | revert_data | invalid | ctx | args (reads the 32-byte constructor argument that
    follows the code, jumps over a trap and branches on the argument)"""
    assert 1 <= tag <= 255 and len(rt) <= 32
    head = [("pushn", 1, tag), "POP"]

    def deploy(code):
        return [("pushn", 32, int.from_bytes(code.ljust(32, b"\0"), "big")), "PUSH0", "MSTORE", ("push", len(code)), "PUSH0", "RETURN"]

    if kind == "ok":
        return assemble(head + deploy(rt))
    if kind == "jump":
        # an unconditional jump over a trap, then a decided JUMPI
        return assemble(head + [("ref", "A"), "JUMP", "INVALID", ("label", "A"), ("push", 1), ("ref", "B"), "JUMPI", "INVALID", ("label", "B")] + deploy(rt))
    if kind == "revert_data":
        return assemble(head + [("push", rng.choice([0xAB, 0xCD00, 1])), "PUSH0", "MSTORE", ("push", 7), ("push", 1), "SSTORE", ("push", rng.choice([32, 33, 1, 0])), "PUSH0", "REVERT"])
    if kind == "invalid":
        return assemble(head + [("push", 5), "PUSH0", "SSTORE", "INVALID"])
    if kind == "ctx":
        return assemble(head + ["CALLDATASIZE", "PUSH0", "MSTORE", "CALLER", ("push", 32), "MSTORE", rng.choice(["ADDRESS", "CALLVALUE", "CODESIZE", "SELFBALANCE"]), ("push", 64), "MSTORE",
                                ("push", 96), "PUSH0", "RETURN"])
    assert kind == "args"
    test = rng.choice([[], ["ISZERO"], [("push", rng.choice([1, 5, 7])), "LT"], [("push", rng.choice([0, 5, 7])), "EQ"], [("push", 5), "GT"], [("push", 1), "AND"]])

    def ending():
        e = rng.choice(["deploy", "deploy", "deploy_other", "revert", "revert_arg", "immutable", "store_deploy"])
        if e == "deploy":
            return deploy(rt)
        if e == "deploy_other":
            return deploy(assemble([("push", 0xEE), "PUSH0", "MSTORE", ("push", 32), "PUSH0", "RETURN"]))
        if e == "revert":
            return ["PUSH0", "PUSH0", "REVERT"]
        if e == "revert_arg":
            return [("push", 32), "PUSH0", "REVERT"]                 # mem[0:32] holds the argument
        if e == "store_deploy":
            return ["PUSH0", "MLOAD", ("push", 3), "SSTORE"] + deploy(rt)   # constructor writes its argument to the new account's storage
        # the argument becomes an immutable of the deployed code:  PUSH32 <arg> PUSH0 MSTORE PUSH1 32 PUSH0 RETURN
        tail = assemble(["PUSH0", "MSTORE", ("push", 32), "PUSH0", "RETURN"])
        return ["PUSH0", "MLOAD", ("push", 32), "MSTORE", ("push", 0x7F), ("push", 31), "MSTORE8",
                ("pushn", 32, int.from_bytes(tail.ljust(32, b"\0"), "big")), ("push", 64), "MSTORE", ("push", 33 + len(tail)), ("push", 31), "RETURN"]

    def build(n):
        return assemble(head + [("push", 32), ("pushn", 1, n), "PUSH0", "CODECOPY", ("ref", "A"), "JUMP", "INVALID", ("label", "A"),
                                "PUSH0", "MLOAD"] + test + [("ref", "B"), "JUMPI"] + e1 + [("label", "B")] + e2)

    e1, e2 = ending(), ending()
    n = len(build(0))
    assert n < 256
    return build(n)


def c2_callee(rng, idx):
    """a callee that CREATE2s (its own address -- or, under DELEGATECALL / CALLCODE, its caller's -- is the
    sender) and reports the result; salts are constants: the spelling of (sender, salt, init) is the same on
    every call"""
    rt = assemble(rng.choice(C2_RUNTIMES))
    kind = rng.choice(["ok", "jump", "args", "args", "revert_data"])
    init = c2_ctor(rng, 0x80 + idx, kind, rt)
    n = len(init)
    items = place_code(init, 256)
    if kind == "args":
        items += ["PUSH0", "CALLDATALOAD", ("push", 256 + n), "MSTORE"]
        n += 32
    items += [("push", rng.choice([0, 1, 5])), ("push", n), ("push", 256), rng.choice([[("push", 0)], [("push", 0)], ["CALLVALUE"]])[0], "CREATE2"]
    items += ["DUP1", "PUSH0", "MSTORE", rng.choice(["EXTCODESIZE", "EXTCODEHASH"]), ("push", 32), "MSTORE"]
    if rng.random() < 0.4:
        items += ["PUSH0", "MLOAD", ("push", 2), "SSTORE"]
    end = rng.choice(["return", "return", "return", "revert", "invalid"])
    if end == "return":
        return items + [("push", 64), "PUSH0", "RETURN"]
    if end == "revert":
        return items + [("push", 64), "PUSH0", "REVERT"]       # the creation is rolled back with the frame
    return items + ["INVALID"]


def branchy_callee(rng):
    """callee with 2-3 paths selected by its argument / value / caller; each path has its own
    effect and its own ending (return / revert / invalid / stop)"""
    lab = [0]

    def ending(tag):
        e = rng.choice(["return", "revert", "revert", "invalid", "stop"])
        pre = [("push", 0x10 + tag), ("push", rng.choice([0, 1, 2])), rng.choice(["SSTORE", "SSTORE", "TSTORE"])] if rng.random() < 0.8 else []
        pre += [("push", 0xA0 + tag), "PUSH0", "MSTORE"]
        if e == "return":
            return pre + [("push", 32), "PUSH0", "RETURN"]
        if e == "revert":
            return pre + [("push", rng.choice([0, 32])), "PUSH0", "REVERT"]
        if e == "invalid":
            return pre + ["INVALID"]
        return pre + ["STOP"]

    def cond():
        c = rng.random()
        if c < 0.6:
            return ["PUSH0", "CALLDATALOAD", ("push", rng.choice([0, 1, 5, 7, 1 << 255])), rng.choice(["LT", "GT", "EQ", "SLT"])]
        if c < 0.8:
            return ["CALLVALUE", "ISZERO"]
        if c < 0.9:
            return ["CALLER", ("push", rng.choice([0x1000, 0xBEEF])), "EQ"]
        return ["PUSH0", "SLOAD", "PUSH0", "CALLDATALOAD", "LT"]

    items = cond() + [("ref", "B1"), "JUMPI"]
    if rng.random() < 0.5:
        items += cond() + [("ref", "B2"), "JUMPI"] + ending(1) + [("label", "B2")] + ending(2)
    else:
        items += ending(1)
    items += [("label", "B1")] + ending(3)
    return items


def callee_pool(rng, n=3, branchy=0.0):
    """small callee contracts that observe their context and have effects"""
    out = []
    for i in range(n):
        if branchy and rng.random() < branchy:
            out.append(assemble(branchy_callee(rng)))
            continue
        k = rng.choice(["store_arg", "echo_ctx", "revert_after_store", "invalid_after_store", "bump", "ret_long"])
        if k == "store_arg":
            items = ["PUSH0", "CALLDATALOAD", ("push", 1), "SSTORE", "CALLER", "PUSH0", "MSTORE", ("push", 32), "PUSH0", "RETURN"]
        elif k == "echo_ctx":
            items = ["CALLER", "PUSH0", "MSTORE", "CALLVALUE", ("push", 32), "MSTORE", ("push", 64), "PUSH0", "RETURN"]
        elif k == "revert_after_store":
            items = [("push", 9), ("push", 2), "SSTORE", "CALLVALUE", "PUSH0", "MSTORE", ("push", 32), "PUSH0", "REVERT"]
        elif k == "invalid_after_store":
            items = [("push", 9), ("push", 2), "SSTORE", "INVALID"]
        elif k == "bump":
            items = ["PUSH0", "SLOAD", ("push", 1), "ADD", "DUP1", "PUSH0", "SSTORE", "ADDRESS", "SELFBALANCE", "ADD", "PUSH0", "MSTORE", ("push", 32), "PUSH0", "RETURN"]
        else:
            items = ["ADDRESS", "PUSH0", "MSTORE", "ORIGIN", ("push", 32), "MSTORE", "CALLDATASIZE", ("push", 64), "MSTORE", ("push", 96), "PUSH0", "RETURN"]
        out.append(assemble(items))
    return out


DIRTY = [0x17F, 0x100, 0x1FF, 0x8000, 0x18000, 0x7FFF, 0xFF80, (1 << 160) + 5, (1 << 255) | 0x7F, (1 << 256) - 0x81, 0x80, 0x7F, 0xFE, 2, 4,
         (1 << 64) - 1, (1 << 64) + 1, (1 << 127), (1 << 128) - 1, (1 << 248), (1 << 248) - 1, 0xFF << 248, 0x0102030405060708090A0B0C0D0E0F101112131415161718191A1B1C1D1E1F20]


def opgrid_program(rng, nargs=2, nops=6):
    """`nops` single operations over mixes of concrete (boundary / dirty), symbolic and
    Bool-typed operands; each result is stored to memory and everything is returned, so every
    concrete fast path of the word type is compared with the reference on its edge cases."""
    def operand():
        c = rng.random()
        if c < 0.38:
            return [("push", rng.choice(BOUNDARY))]
        if c < 0.62:
            return [("push", rng.choice(DIRTY))]
        if c < 0.7:
            return [("push", rng.randrange(0, 300))]
        if c < 0.85:
            return [("push", 4 + 32 * rng.randrange(nargs)), "CALLDATALOAD"]
        if c < 0.93:   # Bool-typed word: concrete or symbolic comparison
            x = [("push", rng.choice([0, 1, 5]))] if rng.random() < 0.5 else [("push", 4), "CALLDATALOAD"]
            return x + [("push", rng.choice([0, 3, 5])), rng.choice(["LT", "GT", "EQ", "SLT"])] if rng.random() < 0.7 else x + ["ISZERO"]
        return [rng.choice(["CALLER", "CALLVALUE", "ADDRESS"])]

    items = []
    for i in range(nops):
        c = rng.random()
        if c < 0.12:
            items += operand() + [rng.choice(UN)]
        elif c < 0.22:
            items += operand() + operand() + operand() + [rng.choice(TERN)]
        else:
            op = rng.choice(BIN)
            force_pw = rng.random() < 0.15
            if force_pw:
                op = rng.choice(["DIV", "SDIV", "SDIV", "MOD", "SMOD", "SMOD", "MUL"])
            a, b = operand(), operand()
            if op in ("BYTE", "SHL", "SHR", "SAR", "SIGNEXTEND") and rng.random() < 0.8:
                b = [("push", rng.choice([0, 1, 2, 7, 8, 15, 16, 30, 31, 32, 33, 127, 128, 255, 256, 257]))]
            if op in ("DIV", "SDIV", "MOD", "SMOD", "MUL") and (force_pw or rng.random() < 0.35):
                # a symbolic operand against a power of two (incl. 1 and 2^255 = the most negative word): the shapes a
                # strength reduction (shift / mask instead of the division) would pick
                sym = [("push", 4 + 32 * rng.randrange(nargs)), "CALLDATALOAD"]
                pw = [("push", 1 << rng.choice([0, 1, 2, 3, 7, 8, 64, 128, 254, 255]))]
                a, b = (pw, sym) if rng.random() < 0.7 else (sym, pw)
            if op == "EXP":
                b = [("push", rng.choice([0, 1, 2, 3, 10, 255, 256]))]
                if rng.random() < 0.5:
                    a = [("push", rng.choice([0, 1, 2, 3, 8, 77, (1 << 128) + 1]))]
            items += a + b + [op]
        items += [("push", 32 * i), "MSTORE"]
    return items + [("push", 32 * nops), "PUSH0", "RETURN"]
