"""L2 driver: run the real halmos SEVM on hand-assembled programs with symbolic inputs and
turn every reported path into something that can be evaluated under concrete inputs and
compared with the reference interpreter (harness/refevm.py).

A *scenario* is a dict:
  accounts : {addr: {"code": bytes}}         contracts that exist (this included)
  this     : int                             address executing at top level
  calldata : list of ("c", bytes) | ("s", name, nbytes)   symbolic layout
  static   : bool
  options  : dict of halmos config overrides (loop, depth, width, storage_layout, ...)
Symbolic inputs: msg_sender (160), tx_origin (160), msg_value (256), the calldata
symbols, and the initial balance array `balance_0`.
"""
import contextlib
import io
import os

import z3

from harness import zeval

CALLER_NAME, ORIGIN_NAME, VALUE_NAME, BALANCE_NAME = "msg_sender", "tx_origin", "msg_value", "balance_0"


def make_options(overrides=None):
    from halmos.config import default_config

    cfg = default_config()
    ov = dict(overrides or {})
    if ov:
        from halmos.config import ConfigSource

        cfg = cfg.with_overrides(ConfigSource.command_line, **ov)
    return cfg


def build_exec(scn, sevm, solver):
    from halmos.__main__ import mk_block
    from halmos.bytevec import ByteVec
    from halmos.sevm import CallContext, Contract, Message, Path
    from halmos.utils import EVM, con_addr

    code = {}
    storage = {}
    transient = {}
    for a, acc in scn["accounts"].items():
        ca = con_addr(a)
        code[ca] = Contract(bytes(acc["code"]))
        storage[ca] = sevm.mk_storagedata()
        if scn.get("symbolic_storage"):
            storage[ca].symbolic = True      # what svm.enableSymbolicStorage(addr) does
        transient[ca] = sevm.mk_storagedata()
    segs = []
    for seg in scn["calldata"]:
        if seg[0] == "c":
            if seg[1]:
                segs.append(bytes(seg[1]))
        else:
            segs.append(z3.BitVec(seg[1], 8 * seg[2]))
    this = con_addr(scn["this"])
    message = Message(
        target=this,
        caller=z3.BitVec(CALLER_NAME, 160),
        origin=z3.BitVec(ORIGIN_NAME, 160),
        value=z3.BitVec(VALUE_NAME, 256),
        data=ByteVec(segs),
        call_scheme=EVM.CALL,
        is_static=bool(scn.get("static")),
    )
    balance = z3.Array(BALANCE_NAME, z3.BitVecSort(160), z3.BitVecSort(256))
    return sevm.mk_exec(
        code=code,
        storage=storage,
        transient_storage=transient,
        balance=balance,
        block=mk_block(),
        context=CallContext(message),
        pgm=code[this],
        path=Path(solver),
    )


def outcome_kind(ex):
    out = ex.context.output
    err = out.error
    from halmos.exceptions import FailCheatcode, HalmosException, Revert

    if out.data is None or isinstance(err, HalmosException):
        return "stuck:" + type(err).__name__ + ":" + str(err)[:80]
    if err is None:
        return "ok"
    if isinstance(err, Revert):
        return "revert"
    if isinstance(err, FailCheatcode):
        return "fail"
    return "halt:" + type(err).__name__


def create2_names(ex):
    """halmos' convention for CREATE2 addresses: the keccak of an 85-byte preimage whose first byte is the
    constant 0xff is not kept as a hash term but NAMED create2_magic_address + (registration number of the hash
    term on the path) (Exec.sha3_data).  -> [(name, preimage term)] in registration order."""
    from halmos.sevm import create2_magic_address

    out = []
    for expr in ex.sha3s:
        if not (z3.is_app(expr) and expr.num_args() == 1 and z3.is_bv(expr.arg(0)) and expr.arg(0).size() == 680):
            continue
        pre = expr.arg(0)
        first = z3.simplify(z3.Extract(679, 672, pre))
        if z3.is_bv_value(first) and first.as_long() == 0xFF:
            out.append((create2_magic_address + ex.sha3s.get_id(expr), pre))
    return sorted(out, key=lambda t: t[0])


class PathRecord:
    """Everything needed about one reported path, detached from the worklist."""

    def __init__(self, ex, sevm, scn):
        self.ex = ex
        self.sevm = sevm
        self.kind = outcome_kind(ex)
        self.conditions = list(ex.path.conditions.keys())
        data = ex.context.output.data
        self.ret_len = len(data) if data is not None else 0
        self.ret = data.unwrap() if data is not None and len(data) else b""
        self.readback = []   # (addr int, loc term, value term, transient)
        self.balance = ex.balance
        self.code = {}
        self.logs = []       # (address, [topics], data, nbytes) of the frames whose effects persist, in order
        self.c2 = create2_names(ex)
        if self.kind == "ok":
            self._read_back(scn)
            self._collect_logs(ex.context)

    def _collect_logs(self, ctx):
        """event logs in execution order; a frame that failed takes its logs (and those of its
        sub-frames) with it, like every other effect"""
        from halmos.sevm import CallContext, EventLog

        for t in ctx.trace:
            if isinstance(t, EventLog):
                data = t.data
                n = len(data) if data is not None else 0
                raw = (data.unwrap() if hasattr(data, "unwrap") else data) if n else b""
                self.logs.append((t.address, list(t.topics), raw, n))
            elif isinstance(t, CallContext) and t.output.error is None and t.output.data is not None:
                self._collect_logs(t)

    def _writes(self, ctx, out):
        from halmos.sevm import CallContext, StorageWrite

        for t in ctx.trace:
            if isinstance(t, StorageWrite):
                out.append(t)
            elif isinstance(t, CallContext):
                self._writes(t, out)

    def _read_back(self, scn):
        """Read the final storage back through halmos' own sload, at the moment the path is
        reported (the shared solver still holds this path's constraints): once per
        location term that was ever written (original spelling) and for slots 0..2 of
        every account as constants."""
        from halmos.bitvec import HalmosBitVec as BV
        from halmos.utils import con_addr

        ex, sevm = self.ex, self.sevm
        writes = []
        self._writes(ex.context, writes)
        seen = set()
        todo = []
        for w in writes:
            a = w.address.as_long() if hasattr(w.address, "as_long") else int(w.address)
            key = (a, w.slot.get_id(), w.transient)
            if key not in seen:
                seen.add(key)
                todo.append((a, w.slot, w.transient))
        for ca in list(ex.storage.keys()):
            for k in range(3):
                todo.append((ca.as_long(), z3.BitVecVal(k, 256), False))
        for a, loc, transient in todo:
            ca = con_addr(a)
            store = ex.transient_storage if transient else ex.storage
            if ca not in store:
                continue
            try:
                with contextlib.redirect_stdout(io.StringIO()):
                    v = sevm.sload(ex, ca, BV(loc, size=256), transient)
                v = v.as_z3() if hasattr(v, "as_z3") else v
                self.readback.append((a, loc, v, transient))
            except Exception as e:  # noqa: BLE001
                self.readback.append((a, loc, e, transient))
        self.all_conditions = list(ex.path.conditions.keys())
        for ca, contract in ex.code.items():
            self.code[ca.as_long()] = (contract._code.unwrap(), len(contract))

    def evaluator(self, inp):
        env = {CALLER_NAME: inp["caller"], ORIGIN_NAME: inp["origin"], VALUE_NAME: inp["value"],
               BALANCE_NAME: (dict(inp.get("balances", {})), 0)}
        env.update(inp.get("args", {}))
        # initial contents of symbolic storage: halmos' names for the initial scalar words and one-level mappings
        for a, sc in (inp.get("init_scalars") or {}).items():
            for slot, v in sc.items():
                env[f"storage_0x{a:040x}_{slot}_0_0_00"] = v
        for a, entries in (inp.get("init_maps") or {}).items():
            by_slot = {}
            for slot, key, v in entries:
                by_slot.setdefault(slot, {})[key] = v
            # m[k] at keccak(k . slot): halmos' solidity layout keeps it as the array <slot>_2_512 indexed by Concat(k, 0)
            for slot, d in by_slot.items():
                env[f"storage_0x{a:040x}_{slot}_2_512_00"] = ({k << 256: v for k, v in d.items()}, 0)
        ev = zeval.Evaluator(env)
        return ev

    def holds(self, inp):
        """True / False / None (cannot be evaluated: unknown symbol)"""
        ev = self.evaluator(inp)
        try:
            rest = ev.define_arrays(self.conditions)
            for c in rest:
                if not ev.holds(c):
                    return False, ev
            return True, ev
        except zeval.Unknown as e:
            return None, str(e)

    def c2names(self, ev):
        """{EVM address: halmos' name for it} of this path under a valuation: each registered CREATE2 preimage is
        evaluated and hashed with the real Keccak-256; when two names denote the same address the older one wins
        (the reference then sees ONE account, as the EVM does)"""
        out = {}
        for name, pre in self.c2:
            data = ev.ev(pre).to_bytes(85, "big")
            real = int.from_bytes(zeval.keccak(data)[12:], "big")
            out.setdefault(real, name)
        return out

    def ret_bytes(self, ev):
        if isinstance(self.ret, bytes):
            return self.ret
        v = ev.ev(self.ret)
        return v.to_bytes(self.ret_len, "big")

    def observe(self, ev, addrs):
        """end state under the valuation"""
        ev.define_arrays(self.all_conditions[len(self.conditions):])
        obs = {"storage": [], "balance": {}, "code": {}}

        def val(x):
            x = x.as_z3() if hasattr(x, "as_z3") else x
            return x if isinstance(x, int) else ev.ev(x)

        obs["logs"] = [(val(a), tuple(val(t) for t in topics), raw if isinstance(raw, bytes) else val(raw).to_bytes(n, "big"))
                       for a, topics, raw, n in self.logs]
        # documented modelling assumption of halmos' storage (hash range): a location `keccak(..) + offset` does not
        # wrap around 2^256.  An input that makes a written location wrap is outside the claim.
        obs["hash_offset_wraps"] = any(_wraps(ev, loc) for _a, loc, _v, _t in self.readback)
        for a, loc, v, transient in self.readback:
            flat = ev.ev(loc)
            val = ev.ev(v) if not isinstance(v, Exception) else f"EXC {type(v).__name__}: {v}"
            obs["storage"].append((a, flat, val, transient, str(loc)[:80]))
        bal = ev.ev(self.balance)
        for a in addrs:
            obs["balance"][a] = bal[0].get(a, bal[1])
        for a, (code, n) in self.code.items():
            obs["code"][a] = code if isinstance(code, bytes) else ev.ev(code).to_bytes(n, "big")
        return obs


_HC = None


def _hash_consts():
    global _HC
    if _HC is None:
        from eth_hash.auto import keccak

        _HC = {int.from_bytes(keccak(i.to_bytes(32, "big")), "big") for i in range(256)}
    return _HC


def _wraps(ev, term, depth=0):
    """does evaluating the location term involve an addition that leaves [0, 2^256) and has a keccak summand?"""
    if depth > 6 or not z3.is_app(term):
        return False
    kids = term.children()

    def hashy(k):
        if z3.is_bv_value(k):
            return k.as_long() in _hash_consts()      # halmos computes keccak of a small concrete slot concretely
        return "sha3" in str(k.decl().name()) or (z3.is_app(k) and any("sha3" in str(g.decl().name()) for g in k.children()))

    if term.decl().kind() == z3.Z3_OP_BADD and any(hashy(k) for k in kids):
        if sum(ev.ev(k) for k in kids) >= (1 << term.size()):
            return True
    return any(_wraps(ev, k, depth + 1) for k in kids)


def run_scenario(scn):
    """-> (paths: [PathRecord], flags: dict)"""
    from halmos.__main__ import mk_solver
    from halmos.calldata import FunctionInfo
    from halmos.sevm import SEVM

    from halmos.mapper import BuildOut

    if BuildOut()._build_out_map is None:
        BuildOut().set_build_out({})   # no forge artifacts at L2: contract names stay unknown
    opts = make_options(scn.get("options"))
    sevm = SEVM(opts, FunctionInfo("T", "test", "test()", "f8a8fd6d"))
    solver = mk_solver(opts)
    ex0 = build_exec(scn, sevm, solver)
    paths = []
    buf = io.StringIO()
    crashed = None
    with contextlib.redirect_stdout(buf), contextlib.redirect_stderr(buf):
        try:
            for ex in sevm.run(ex0):
                paths.append(PathRecord(ex, sevm, scn))
        except Exception as e:  # noqa: BLE001  an exception escaping SEVM.run aborts the whole test (ERROR status)
            import traceback

            crashed = f"{type(e).__name__}: {e} @ " + traceback.format_exc().strip().splitlines()[-3].strip()[:160]
    flags = {"bounded_loops": len(sevm.logs.bounded_loops), "output": buf.getvalue()[-2000:], "crashed": crashed}
    flags["depth_cut"] = "--depth" in flags["output"]
    return paths, flags


def model_inputs(path, extra=None, seed_vals=None):
    """A concrete input satisfying the path's conditions, from z3 (None if unsat/unknown).
    extra: additional z3 constraints (e.g. to exclude a previous model)."""
    s = z3.Solver()
    s.set("timeout", 3000)
    for c in path.conditions:
        s.add(c)
    for c in extra or []:
        s.add(c)
    if s.check() != z3.sat:
        return None
    return s.model()
