"""C09 library: call-tree scripts (the language of coq/Spec/CallSpec.v), their compilation
into a pool of dispatcher contracts with harness/asm.py, the flat encoding understood by
the extracted model / spec (coq/Extract/ExC09.v), and the per-scenario worker comparing

  (a) the REAL halmos SEVM run on the compiled contracts (engine.run_scenario),
  (b) the extracted halmos call model  (c09_model: list of result paths),
  (c) the extracted call-tree spec     (c09_spec),
  (d) the extracted reference EVM interpreter on the compiled bytecode (refevm),

input-wise (every concrete input derived from the reported paths + boundary/random ones).

Script (JSON-able):
  ["end", "stop"|"return"|"revert"|"invalid", tag]
  ["sstore", kexpr, vexpr, rest] ["tstore", kexpr, vexpr, rest] ["log", rest]
  ["observe", k, rest] ["retcopy", off, size, rest]
  ["call", kind, to, vexpr, rsz, callee, rest]       kind in CALL CALLCODE DELEGATECALL STATICCALL
  ["create", vexpr, init, rest]
  ["if", expr, s1, s2]                               JUMPI on a word: s1 if it is non-zero, else s2
  ["extcode", addr, off, rest]                       EXTCODESIZE addr; EXTCODECOPY of 32 bytes from off over 0xff..ff memory
expr: ["c", n] | ["a", i] | ["v"]   (constant | i-th 32-byte calldata argument of the transaction | CALLVALUE of the frame)
"""
import copy
import random

from harness import asm, common, engine, l2tie, refevm, scenarios

THIS = scenarios.THIS
POOL = [0x1000, 0x2000, 0x3000]
NOACC = 0x5000                    # an address without account
RET_BASE, OB, INIT_AT = 0x80, 0xA0, 0x4000
KINDS = {"CALL": 0, "CALLCODE": 1, "DELEGATECALL": 2, "STATICCALL": 3}
ENDS = {"stop": 0, "return": 1, "revert": 2, "invalid": 3}
CREATE_BASE = 0xAAAA0000 + 1
NARGS = 2
CALLDATA = [("c", bytes(32))] + [("s", f"arg{i}", 32) for i in range(NARGS)]
MARKERS = {}      # the specification marks no situation any more (every known deviation has been repaired)


# ------------------------------------------------------------------ work-around for harness/zeval.py
# zeval.Evaluator memoises by z3 AST id without keeping the AST alive: once a temporary term
# (e.g. ByteVec.unwrap() of a sub-context's output) is garbage-collected its id is reused and
# the memo answers with the value of the dead term.  zeval.py is a shared file: patch the
# method here (the memo keeps a reference to the term, so its id cannot be recycled).
from harness import zeval as _zeval


def _ev_keepalive(self, t):
    if isinstance(t, (int, bool)):
        return t
    key = t.get_id()
    hit = self.memo.get(key)
    if hit is not None:
        return hit[1]
    v = self._ev(t)
    self.memo[key] = (t, v)
    return v


_zeval.Evaluator.ev = _ev_keepalive

# ------------------------------------------------------------------ compilation

def _ex(e):
    if e[0] == "c":
        return [("push", e[1])]
    if e[0] == "v":
        return ["CALLVALUE"]
    return [("push", 0x20 + 32 * e[1]), "CALLDATALOAD"]


PROLOGUE = [("push", 0x40), ("push", 0x20), ("push", 0x20), "CALLDATACOPY"]


class _Unit:
    """one code blob: label counter + init-code blobs appended after the code"""

    def __init__(self):
        self.n = 0
        self.blobs = []

    def label(self, p):
        self.n += 1
        return f"{p}{self.n}"


def _mstore_at(off):
    return [("push", off), "MSTORE"]


def _gen(s, pos, unit):
    k = s[0]
    if k == "end":
        ek, tag = s[1], s[2]
        if ek == "stop":
            return ["STOP"]
        if ek == "invalid":
            return ["INVALID"]
        return [("push", tag)] + _mstore_at(RET_BASE) + [("push", 32 + pos), ("push", RET_BASE), "RETURN" if ek == "return" else "REVERT"]
    if k == "sstore":
        return _ex(s[2]) + _ex(s[1]) + ["SSTORE"] + _gen(s[3], pos, unit)
    if k == "tstore":
        return _ex(s[2]) + _ex(s[1]) + ["TSTORE"] + _gen(s[3], pos, unit)
    if k == "log":
        return ["PUSH0", "PUSH0", "LOG0"] + _gen(s[1], pos, unit)
    if k == "observe":
        items, off = [], OB + pos
        for op in ("CALLER", "CALLVALUE", "ADDRESS", "ORIGIN", "CODESIZE"):
            items += [op] + _mstore_at(off)
            off += 32
        items += [("push", s[1]), "SLOAD"] + _mstore_at(off)
        items += [("push", s[1]), "TLOAD"] + _mstore_at(off + 32)
        items += ["SELFBALANCE"] + _mstore_at(off + 64)
        return items + _gen(s[2], pos + 256, unit)
    if k == "retcopy":
        off, size = s[1], s[2]
        return [("push", size), ("push", off), ("push", OB + pos), "RETURNDATACOPY"] + _gen(s[3], pos + size, unit)
    if k == "extcode":
        a, off = s[1], s[2]
        items = [("push", a), "EXTCODESIZE"] + _mstore_at(OB + pos) + [("push", (1 << 256) - 1)] + _mstore_at(OB + pos + 32)
        items += [("push", 32), ("push", off), ("push", OB + pos + 32), ("push", a), "EXTCODECOPY"]
        return items + _gen(s[3], pos + 64, unit)
    if k == "if":
        lbl = unit.label("J")
        return _ex(s[1]) + [("ref", lbl), "JUMPI"] + _gen(s[3], pos, unit) + [("label", lbl)] + _gen(s[2], pos, unit)
    if k == "call":
        _, kind, to, v, rsz, callee, rest, idx = s
        items = [("push", idx), "PUSH0", "MSTORE", ("push", rsz), ("push", OB + pos + 64), ("push", 0x60), "PUSH0"]
        if kind in ("CALL", "CALLCODE"):
            items += _ex(v)
        items += [("push", to), ("push", 100000), kind] + _mstore_at(OB + pos) + ["RETURNDATASIZE"] + _mstore_at(OB + pos + 32)
        return items + _gen(rest, pos + 64 + rsz, unit)
    if k == "create":
        _, v, init, rest, codehex = s
        code = bytes.fromhex(codehex)
        lbl = unit.label("I")
        unit.blobs.append((lbl, code))
        items = [("push", len(code)), ("ref", lbl), ("push", 1), "ADD", ("push", INIT_AT), "CODECOPY",
                 ("push", len(code)), ("push", INIT_AT)] + _ex(v) + ["CREATE"] + _mstore_at(OB + pos) + ["RETURNDATASIZE"] + _mstore_at(OB + pos + 32)
        return items + _gen(rest, pos + 64, unit)
    raise ValueError(k)


def _finish(items, unit):
    for lbl, code in unit.blobs:
        items += [("label", lbl), ("raw", code)]
    return asm.assemble(items)


def _assign(s, scripts, existing):
    """phase 1: give every call node an index into the target's dispatcher; compile init
    scripts bottom-up (their code is needed by the creator).  Mutates s."""
    k = s[0]
    if k == "end":
        return
    if k == "if":
        _assign(s[2], scripts, existing)
        _assign(s[3], scripts, existing)
        return
    if k == "call":
        _, kind, to, v, rsz, callee, rest = s[:7]
        if to in existing:
            scripts.setdefault(to, []).append(callee)
            idx = len(scripts[to]) - 1
            _assign(callee, scripts, existing)
        else:
            idx = 0
        del s[7:]
        s.append(idx)
        _assign(rest, scripts, existing)
        return
    if k == "create":
        _, v, init, rest = s[:4]
        _assign(init, scripts, existing)
        unit = _Unit()
        code = _finish(list(PROLOGUE) + _gen(init, 0, unit), unit)
        del s[4:]
        s.append(code.hex())
        _assign(rest, scripts, existing)
        return
    _assign(s[-1], scripts, existing)


def compile_tree(tree):
    """-> (annotated tree, {addr: code bytes})"""
    t = copy.deepcopy(tree)
    existing = set(POOL) | {THIS}
    scripts = {THIS: [t]}
    # init scripts are compiled inside _assign, which needs indices of the calls they contain:
    # indices are assigned in traversal order, which is deterministic
    _assign(t, scripts, existing)
    accounts = {}
    for a in [THIS] + POOL:
        ss = scripts.get(a, [])
        unit = _Unit()
        items = list(PROLOGUE) + ["PUSH0", "CALLDATALOAD"]
        for i in range(len(ss)):
            items += ["DUP1", ("push", i), "EQ", ("ref", f"S{i}"), "JUMPI"]
        items += ["STOP"]
        for i, sc in enumerate(ss):
            items += [("label", f"S{i}"), "POP"] + _gen(sc, 0, unit)
        accounts[a] = _finish(items, unit)
    return t, accounts


# ------------------------------------------------------------------ encoding for the extracted model / spec

def _val(e, args, cv):
    if e[0] == "v":
        return cv
    return e[1] if e[0] == "c" else args[e[1]]


def enc_script(s, args, cv):
    """flat encoding of a script under the valuation `args`; cv = CALLVALUE of the frame the
    script runs in (the scripts of the Coq side carry concrete words)"""
    k = s[0]
    if k == "end":
        return [0, ENDS[s[1]], s[2]]
    if k == "sstore":
        return [1, _val(s[1], args, cv), _val(s[2], args, cv)] + enc_script(s[3], args, cv)
    if k == "tstore":
        return [2, _val(s[1], args, cv), _val(s[2], args, cv)] + enc_script(s[3], args, cv)
    if k == "log":
        return [3] + enc_script(s[1], args, cv)
    if k == "observe":
        return [4, s[1]] + enc_script(s[2], args, cv)
    if k == "retcopy":
        return [5, s[1], s[2]] + enc_script(s[3], args, cv)
    if k == "extcode":
        return [9, s[1], s[2]] + enc_script(s[3], args, cv)
    if k == "call":
        _, kind, to, v, rsz, callee, rest, idx = s
        vv = _val(v, args, cv) if kind in ("CALL", "CALLCODE") else 0
        sub_cv = cv if kind == "DELEGATECALL" else vv
        return [6, KINDS[kind], to, vv, rsz] + enc_script(callee, args, sub_cv) + enc_script(rest, args, cv)
    if k == "if":
        return [8, _val(s[1], args, cv)] + enc_script(s[2], args, cv) + enc_script(s[3], args, cv)
    if k == "create":
        _, v, init, rest, codehex = s
        code = bytes.fromhex(codehex)
        zero = [0] * len(args)      # creation frames have no calldata: every argument reads 0
        vv = _val(v, args, cv)
        return [7, vv, len(code)] + list(code) + enc_script(init, zero, vv) + enc_script(rest, args, cv)
    raise ValueError(k)


def enc_input(t, accounts, scn, inp):
    args = [inp["args"][f"arg{i}"] for i in range(NARGS)]
    code = accounts[THIS]
    out = [THIS, inp["caller"], inp["origin"], inp["value"], 1 if scn.get("static") else 0, 1, 0, len(code)] + list(code)
    bal = inp.get("balances", {})
    addrs = list(accounts) + [a for a in bal if a not in accounts]
    out.append(len(addrs))
    for a in addrs:
        c = accounts.get(a)
        out += [a, bal.get(a, 0), 0 if c is None else 1, len(c or b"")] + list(c or b"") + [0]
    return out + enc_script(t, args, inp["value"])


class _Rd(refevm._Rd):
    pass


def _dec_world(r):
    code = {}
    for _ in range(r.one()):
        a = r.one()
        b = r.bytes_()
        code.setdefault(a, b)
    storage, transient = {}, {}
    for m in (storage, transient):
        for _ in range(r.one()):
            a = r.one()
            ps = r.pairs()
            if a not in m:
                m[a] = ps
    balance = r.pairs()
    return {"code": code, "storage": storage, "transient": transient, "balance": balance}


def _dec_fres(r):
    k = r.one()
    data = r.bytes_()
    return ["ok", "revert", "halt"][k], data


def _dec_log(r):
    out = []
    for _ in range(r.one()):
        k = r.one()
        if k == 0:
            this, caller, origin, value, codelen, static, depth = r.many(7)
            out.append(("frame", this, caller, origin, value, static, depth, codelen))
        elif k == 1:
            kind, data = _dec_fres(r)
            out.append(("end", kind, data if kind != "halt" else b""))
        elif k == 2:
            out.append(("event", r.one()))
        else:
            out.append(("marker", MARKERS.get(k, f"marker-{k}")))
    return out


def dec_results(res):
    r = _Rd(res)
    out = []
    for _ in range(r.one()):
        kind, ret = _dec_fres(r)
        ctr = r.one()
        w = _dec_world(r)
        out.append({"kind": kind, "ret": ret, "ctr": ctr, "world": w, "log": _dec_log(r)})
    return out


# ------------------------------------------------------------------ generator

def _expr(r, lo=False):
    c = r.random()
    if c < 0.3 and not lo:      # storage keys stay concrete: a symbolic base slot is outside halmos' storage model (C08)
        return ["a", r.randrange(NARGS)]
    if c < 0.36 and not lo:
        return ["v"]
    return ["c", r.choice([0, 0, 1, 5, 1000, 10 ** 18] if not lo else [0, 1, 2, 3])]


def gen_script(r, depth, in_init=False, after_call=False):
    tag = r.randrange(1, 1 << 16)
    n = r.choice([0, 1, 1, 2, 2, 3])
    return _gen_items(r, depth, n, in_init, after_call, tag)


def _const_only(e):
    return e if e[0] in ("c", "v") else ["c", 7]


def _gen_items(r, depth, n, in_init, after_call, tag):
    if n == 0:
        ek = r.choice(["return", "return", "return", "revert", "revert", "invalid", "stop"])
        return ["end", ek, tag]
    if r.random() < 0.1:
        # a fork on a symbolic word of the input (inside init code: the value sent along): halmos explores both sides
        cond = ["v"] if in_init or r.random() < 0.2 else ["a", r.randrange(NARGS)]
        return ["if", cond, _gen_items(r, depth, n - 1, in_init, after_call, tag),
                _gen_items(r, depth, n - 1, in_init, after_call, tag ^ 0x5555)]
    choices = ["sstore", "sstore", "tstore", "observe", "observe", "extcode"]
    if depth > 0:
        choices += ["call", "call", "call", "create"]
    if after_call:
        choices += ["retcopy"]
    if r.random() < 0.08:
        choices = ["log"]
    k = r.choice(choices)
    fix = _const_only if in_init else (lambda e: e)
    if k == "sstore":
        return ["sstore", fix(_expr(r, lo=True)), fix(_expr(r)), _gen_items(r, depth, n - 1, in_init, after_call, tag)]
    if k == "tstore":
        return ["tstore", fix(_expr(r, lo=True)), fix(_expr(r)), _gen_items(r, depth, n - 1, in_init, after_call, tag)]
    if k == "log":
        return ["log", _gen_items(r, depth, n - 1, in_init, after_call, tag)]
    if k == "observe":
        return ["observe", r.choice([0, 1, 2]), _gen_items(r, depth, n - 1, in_init, after_call, tag)]
    if k == "retcopy":
        return ["retcopy", r.choice([0, 0, 32, 1, 64]), r.choice([0, 32, 32, 33, 64]), _gen_items(r, depth, n - 1, in_init, after_call, tag)]
    if k == "extcode":
        # an account with code, the executing one, one without account, one that a CREATE of the tree may have produced
        a = r.choice(POOL + [THIS, NOACC, NOACC, CREATE_BASE + 1])
        return ["extcode", a, r.choice([0, 0, 5, 31, 40, 1000]), _gen_items(r, depth, n - 1, in_init, after_call, tag)]
    if k == "call":
        kind = r.choice(["CALL", "CALL", "CALLCODE", "DELEGATECALL", "STATICCALL"])
        to = r.choice(POOL + POOL + [THIS, NOACC])
        callee = gen_script(r, depth - 1, in_init) if to != NOACC else ["end", "stop", 0]
        v = fix(_expr(r))
        return ["call", kind, to, v, r.choice([0, 32, 40, 64, 320]), callee, _gen_items(r, depth, n - 1, in_init, True, tag)]
    if k == "create":
        init = gen_script(r, depth - 1, True)
        return ["create", fix(_expr(r)), init, _gen_items(r, depth, n - 1, in_init, True, tag)]
    raise ValueError(k)


def gen_callfail(r):
    """caller: [store;] call of a callee with >= 2 FAILING paths; observe; store; observe; ... --
    a failed frame must leave the world as it was on EVERY path of the callee, also while the
    caller goes on writing after the first of them has been explored"""
    def failing(tag):
        body = ["end", r.choice(["revert", "revert", "invalid"]), tag]
        for _ in range(r.choice([0, 1, 1, 2])):
            body = [r.choice(["sstore", "tstore"]), ["c", r.choice([0, 1, 2])], ["c", r.choice([5, 1000, 77])], body]
        return body

    def leaf(tag):
        if r.random() < 0.8:
            return failing(tag)
        return ["sstore", ["c", r.choice([0, 1])], ["c", 9], ["end", "return", tag]]

    def forked(tag):
        inner = ["if", ["a", r.randrange(NARGS)], leaf(tag + 1), failing(tag + 2)] if r.random() < 0.4 else failing(tag + 1)
        return ["if", ["a", r.randrange(NARGS)], failing(tag), inner]

    t0 = r.randrange(1, 1 << 15)
    kind = r.choice(["CALL", "CALL", "DELEGATECALL", "CALLCODE", "STATICCALL"])
    slot = r.choice([0, 1, 2])
    st = r.choice(["sstore", "sstore", "tstore"])
    rest = ["observe", slot, [st, ["c", slot], ["c", r.choice([7, 1000])], ["observe", slot, ["end", r.choice(["return", "return", "revert"]), t0 + 3]]]]
    if r.random() < 0.4:       # a second failing call: its rollback must keep the caller's own write
        rest = ["observe", slot, [st, ["c", slot], ["c", 7],
                ["call", r.choice(["CALL", "DELEGATECALL"]), r.choice(POOL), ["c", 0], 32, forked(t0 + 10),
                 ["observe", slot, [st, ["c", slot], ["c", 8], ["observe", slot, ["end", "return", t0 + 6]]]]]]]
    tree = ["call", kind, r.choice(POOL), ["c", 0] if r.random() < 0.7 else ["a", 0], r.choice([0, 32, 64]), forked(t0), rest]
    if r.random() < 0.5:
        tree = [st, ["c", slot], ["c", 3], tree]
    if r.random() < 0.25:
        # the failing frame is a creation whose init code forks on the value sent along
        init = ["if", ["v"], failing(t0 + 20), failing(t0 + 21)]
        tree = ["create", ["a", r.randrange(NARGS)], init, rest]
        if r.random() < 0.5:
            tree = [st, ["c", slot], ["c", 3], tree]
    if r.random() < 0.3:       # the whole thing one frame down
        tree = ["call", r.choice(["CALL", "DELEGATECALL"]), POOL[0], ["c", 0], 320, tree, ["observe", slot, ["end", "return", t0 + 7]]]
    return tree


def tree_stats(s, acc=None, depth=0):
    acc = acc if acc is not None else {"depth": 0, "calls": 0, "creates": 0, "kinds": set(), "ends": set(), "nodes": 0, "symbolic_value": False}
    acc["nodes"] += 1
    k = s[0]
    if k == "end":
        acc["ends"].add(s[1])
        return acc
    if k == "if":
        acc["forks"] = acc.get("forks", 0) + 1
        tree_stats(s[2], acc, depth)
        return tree_stats(s[3], acc, depth)
    if k == "call":
        acc["calls"] += 1
        acc["kinds"].add(s[1])
        acc["depth"] = max(acc["depth"], depth + 1)
        if s[3][0] == "a" and s[1] in ("CALL", "CALLCODE"):
            acc["symbolic_value"] = True
        tree_stats(s[5], acc, depth + 1)
        return tree_stats(s[6], acc, depth)
    if k == "create":
        acc["creates"] += 1
        acc["kinds"].add("CREATE")
        acc["depth"] = max(acc["depth"], depth + 1)
        if s[1][0] == "a":
            acc["symbolic_value"] = True
        tree_stats(s[2], acc, depth + 1)
        return tree_stats(s[3], acc, depth)
    if k == "extcode":
        acc["extcode"] = acc.get("extcode", 0) + 1
    idx = {"sstore": 3, "tstore": 3, "log": 1, "observe": 2, "retcopy": 3, "extcode": 3}[k]
    return tree_stats(s[idx], acc, depth)


# ------------------------------------------------------------------ halmos side: trace -> event sequence

def _term(x):
    if isinstance(x, int):
        return x
    if hasattr(x, "as_z3"):
        return x.as_z3()
    return x


def _evv(ev, x):
    x = _term(x)
    return x if isinstance(x, int) else ev.ev(x)


FULL_DATA = True     # inner frames' output data compared byte for byte (False: kind, length, first word)
SKIP_ERRORS = ("InsufficientFunds", "AddressCollision", "MessageDepthLimitError")


def trace_events(ctx, ev, codes, out):
    """frames / ends / events of a halmos CallContext tree in execution order"""
    from halmos.sevm import CallContext, EventLog

    msg = ctx.message
    err = ctx.output.error
    if type(err).__name__ in SKIP_ERRORS:
        return out
    this = _evv(ev, msg.target)
    out.append(("frame", this, _evv(ev, msg.caller), _evv(ev, msg.origin), _evv(ev, msg.value), 1 if msg.is_static else 0, ctx.depth))
    for t in ctx.trace:
        if isinstance(t, EventLog):
            out.append(("event", _evv(ev, t.address)))
        elif isinstance(t, CallContext):
            trace_events(t, ev, codes, out)
    data = ctx.output.data
    if data is None:
        out.append(("end", "stuck", b""))
        return out
    n = len(data)
    raw = data.unwrap() if n else b""
    bs = raw if isinstance(raw, bytes) else ev.ev(raw).to_bytes(n, "big")
    kind = "ok" if err is None else ("revert" if type(err).__name__ == "Revert" else "halt")
    bs = bs if kind != "halt" else b""
    out.append(("end", kind, bs if ctx.depth == 1 or FULL_DATA else (len(bs), bs[:32])))
    return out


def model_events(log):
    out, depth = [], []
    for it in log:
        if it[0] == "frame":
            out.append(it[:7])          # drop codelen (not part of halmos' Message)
            depth.append(it[6])
        elif it[0] == "end":
            d = depth.pop() if depth else 1
            out.append(it if d == 1 or FULL_DATA else ("end", it[1], (len(it[2]), it[2][:32])))
        elif it[0] != "marker":
            out.append(it)
    return out


def _lookup(m, a, k):
    return m.get(a, {}).get(k, 0)


def path_vs_model(p, ev, inp, scn, m, events):
    """None if halmos' path describes the model result m, else a description"""
    pk = p.kind if not p.kind.startswith("halt") else "halt"
    if pk != m["kind"]:
        return f"end kind {pk} vs {m['kind']}"
    if pk in ("ok", "revert") and p.ret_bytes(ev) != m["ret"]:
        return f"return data {p.ret_bytes(ev).hex()[:80]} vs {m['ret'].hex()[:80]}"
    if events != model_events(m["log"]):
        me = model_events(m["log"])
        for i, (a, b) in enumerate(zip(events + [None] * len(me), me + [None] * len(events))):
            if a != b:
                return f"trace item {i}: halmos {a} vs model {b}"
    if pk == "ok":
        w = m["world"]
        addrs = sorted(set(w["balance"]) | set(scn["accounts"]) | {inp["caller"]})
        obs = p.observe(ev, addrs)
        for a, flat, v, transient, spelling in obs["storage"]:
            mv = _lookup(w["transient"] if transient else w["storage"], a, flat)
            if v != mv:
                return f"{'transient ' if transient else ''}storage[{hex(a)}][{hex(flat)}] = {v} vs {mv}"
        for a in addrs:
            mv = w["balance"].get(a, 0)
            if obs["balance"][a] != mv:
                return f"balance[{hex(a)}] = {obs['balance'][a]} vs {mv}"
        for a in set(w["code"]) | set(obs["code"]):
            if obs["code"].get(a, b"") != w["code"].get(a, b""):
                return f"code[{hex(a)}] differs"
    return None


def spec_vs_ref(sp, ref):
    """extracted CallSpec result vs reference interpreter result on the compiled bytecode"""
    rk = l2tie.ref_kind(ref)
    rk = "halt" if rk.startswith("halt") else rk
    if sp["kind"] != rk:
        return f"end kind spec {sp['kind']} vs reference {rk}"
    if rk in ("ok", "revert") and sp["ret"] != ref["ret"]:
        return f"return data spec {sp['ret'].hex()[:80]} vs reference {ref['ret'].hex()[:80]}"
    if rk == "ok":
        w, rw = sp["world"], ref["world"]
        for key in ("storage", "transient"):
            for a in set(w[key]) | set(rw[key]):
                x = {k: v for k, v in w[key].get(a, {}).items() if v}
                y = {k: v for k, v in rw[key].get(a, {}).items() if v}
                if x != y:
                    return f"{key}[{hex(a)}] spec {x} vs reference {y}"
        for a in set(w["balance"]) | set(rw["balance"]):
            if w["balance"].get(a, 0) != rw["balance"].get(a, 0):
                return f"balance[{hex(a)}] spec {w['balance'].get(a, 0)} vs reference {rw['balance'].get(a, 0)}"
        if {a: c for a, c in w["code"].items()} != {a: c for a, c in rw["code"].items()}:
            return "code maps differ"
    return None


# ------------------------------------------------------------------ per-scenario worker

def make_scenario(tree, static=False, options=None):
    t, accounts = compile_tree(tree)
    scn = {"profile": "calltree", "accounts": {a: {"code": c} for a, c in accounts.items()}, "this": THIS,
           "calldata": CALLDATA, "static": static, "options": dict(options or {})}
    return t, accounts, scn


def _values(s, out):
    """value expressions of the calls / creates of a tree"""
    k = s[0]
    if k == "end":
        return out
    if k == "if":
        _values(s[2], out)
        return _values(s[3], out)
    if k == "call":
        if s[1] in ("CALL", "CALLCODE"):
            out.append(s[3])
        _values(s[5], out)
        return _values(s[6], out)
    if k == "create":
        out.append(s[1])
        _values(s[2], out)
        return _values(s[3], out)
    return _values(s[-1], out)


def boundary_inputs(tree, inputs, rng, limit=6):
    """balance boundaries: the paying account holds exactly the value, one less, one more
    (the top contract first, then a pool contract), for the first inputs whose value is usable"""
    vals = _values(tree, [])
    out, seen = [], set()
    for payer in (THIS, rng.choice(POOL)):
        for base in inputs:
            for e in vals[:3]:
                v = e[1] if e[0] == "c" else base["args"].get(f"arg{e[1]}", 0) if e[0] == "a" else base.get("value", 0)
                if not 0 < v <= (1 << 120) or (payer, v) in seen:
                    continue
                seen.add((payer, v))
                for b in (v, v - 1, v + 1):
                    i = copy.deepcopy(base)
                    i.setdefault("balances", {})[payer] = b
                    out.append(i)
                if len(out) >= limit:
                    return out[:limit]
    return out[:limit]


def shared_objects(paths):
    """mutable network-state objects (the dicts of code / storage / transient storage and the
    StorageData objects in them) that more than one reported path holds a reference to, looked at
    when the exploration is over.  Theorem C09_paths_separate: in the exploration model no two
    explored paths hold an object in common."""
    seen, out = {}, []
    for i, p in enumerate(paths):
        ex = p.ex
        objs = [("code", ex.code), ("storage", ex.storage), ("transient_storage", ex.transient_storage)]
        objs += [(f"storage[{_addr(k)}]", v) for k, v in ex.storage.items()]
        objs += [(f"transient_storage[{_addr(k)}]", v) for k, v in ex.transient_storage.items()]
        for name, o in objs:
            first = seen.setdefault(id(o), (i, name))
            if first[0] != i:
                out.append(f"path {first[0]} ({paths[first[0]].kind}) and path {i} ({p.kind}) both hold the object {first[1]}")
    return out


def _addr(k):
    try:
        return hex(k.as_long())
    except Exception:  # noqa: BLE001
        return str(k)[:24]


def check_tree(task):
    """task = (seed, tree, static, n_random) -> summary dict (picklable)"""
    seed, tree, static, n_random = task
    rng = random.Random(seed)
    t, accounts, scn = make_scenario(tree, static)
    paths, flags = engine.run_scenario(scn)
    inputs = l2tie.derive_inputs(scn, paths, rng, n_random)
    inputs += boundary_inputs(tree, inputs, rng)
    # documented modelling assumption: balances stay <= MAX_ETH = 2^128 (halmos constrains every
    # balance it reads); keep every initial balance <= 2^120 so that no sum in the tree exceeds it
    inputs = [i for i in inputs if not any(b > (1 << 120) for b in i.get("balances", {}).values())]
    refs = refevm.run_many([l2tie.ref_case(scn, i) for i in inputs]) if inputs else []
    m = common.Model(common.BUILD / "C09" / "driver")
    calls = []
    for i in inputs:
        e = enc_input(t, accounts, scn, i)
        calls += [("c09_model", e), ("c09_spec", e)]
    res = m.batch(calls) if calls else []
    out = {"n_paths": len(paths), "kinds": [p.kind for p in paths], "n_inputs": len(inputs), "flags": {k: v for k, v in flags.items() if k != "output"},
           "impl_vs_ref": [], "impl_vs_model": [], "spec_vs_ref": [], "evaluated": 0, "markers": {}, "model_paths": {}, "clean_inputs": 0,
           "shared_objects": shared_objects(paths)[:4]}
    stuck = [p.kind for p in paths if p.kind.startswith("stuck")]
    flagged = bool(stuck or flags["bounded_loops"] or flags["depth_cut"] or flags["crashed"])
    for k, (inp, ref) in enumerate(zip(inputs, refs)):
        if ref["status"] in ("fuel", "unsupported", "model-error") or res[2 * k] is None or res[2 * k + 1] is None:
            continue
        models = dec_results(res[2 * k])
        spec = dec_results(res[2 * k + 1])[0]
        marks = sorted({it[1] for it in spec["log"] if it[0] == "marker"})
        for mk in marks:
            out["markers"][mk] = out["markers"].get(mk, 0) + 1
        if not marks:
            out["clean_inputs"] += 1
        out["model_paths"][len(models)] = out["model_paths"].get(len(models), 0) + 1
        d = spec_vs_ref(spec, ref)
        if d:
            out["spec_vs_ref"].append({"input": inp, "what": d})
        matched = [False] * len(models)
        holders = 0
        for p in paths:
            ok, ev = p.holds(inp)
            if not ok or p.kind.startswith("stuck"):
                continue
            holders += 1
            out["evaluated"] += 1
            try:
                d = l2tie.compare_path(scn, p, ev, inp, ref)
            except Exception as e:  # noqa: BLE001
                d = {"what": f"evaluation error {type(e).__name__}: {e}"[:200]}
            if d is not None and str(d.get("halmos", "")).startswith("EXC NotConcreteError"):
                d = None        # read-back of a location halmos cannot decode (never written: the write raised): not an outcome claim
                out["readback_skipped"] = out.get("readback_skipped", 0) + 1
            if d is not None:
                out["impl_vs_ref"].append({"input": inp, "path_kind": p.kind, "markers": marks, **{k2: (v if isinstance(v, (int, str)) else str(v)) for k2, v in d.items()}})
            try:
                events = trace_events(p.ex.context, ev, accounts, [])
                ds = [path_vs_model(p, ev, inp, scn, mm, events) for mm in models]
            except Exception as e:  # noqa: BLE001
                ds = [f"evaluation error {type(e).__name__}: {e}"[:200]]
            hit = [i for i, x in enumerate(ds) if x is None]
            for i in hit:
                matched[i] = True
            if not hit:
                out["impl_vs_model"].append({"input": inp, "path_kind": p.kind, "what": "reported path matches no model result: " + "; ".join(str(x) for x in ds)[:1500]})
        if holders == 0 and not flagged:
            out["impl_vs_ref"].append({"input": inp, "path_kind": None, "markers": marks, "what": "input not covered by any reported path", "reference": l2tie.ref_kind(ref)})
        if holders and not flagged:
            for i, ok in enumerate(matched):
                if not ok:
                    out["impl_vs_model"].append({"input": inp, "path_kind": None, "what": f"model result {i} ({models[i]['kind']}) is not reported by halmos for this input"})
    return out
