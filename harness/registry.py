"""Registers every translator (name -> module, source file, generated file)."""
from harness import common

common.TRANSLATORS.clear()
common.register_translator("T-opcodes", "translate.t_opcodes", "contract.py", "GenOpcodes.v")
