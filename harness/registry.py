"""Registers every translator: each translate/t_*.py declares NAME, SRC (file under
src/halmos) and OUT (file under coq/Gen) next to translate()/selfcheck()."""
import importlib
from pathlib import Path

from harness import common

common.TRANSLATORS.clear()
for p in sorted((common.VERIF / "translate").glob("t_*.py")):
    mod = importlib.import_module(f"translate.{p.stem}")
    common.register_translator(mod.NAME, f"translate.{p.stem}", mod.SRC, mod.OUT)
