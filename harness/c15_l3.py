"""C15 end-to-end (L3) helper: fabricated forge projects for invariant tests.

No forge/solc in the sandbox: the test contract T and its target contracts are
hand-assembled from a small JSON-able description (a *case*):

  case = {
    "targets": [ {"name": "C0", "funcs": [func, ...]}, ... ],       # deployed by T.setUp() with CREATE
    "handlers": [func, ...],                                          # state-changing functions of T itself
    "filters": {"targetContracts": [addr..], "excludeContracts": [..], "targetSenders": [..],
                "excludeSenders": [..], "targetSelectors": [[addr, [sel4..]]..], "excludeSelectors": [...]},
    "invariant": inv,            # see INVARIANTS
    "depth": d,
  }
  func = {"name": str, "kind": str, "slot": s, "a": int, "b": int, "k": int, "payable": bool, "view": bool}

Every function kind is a tiny guarded transition on one storage slot of its contract;
`gen_func_code` is the only place where its meaning is written (as bytecode) -- both halmos
and the brute force on the reference interpreter run that same bytecode.
"""
import contextlib
import io
import json
import os
import re
import shutil
import stat
import subprocess
import sys
import tempfile

from eth_hash.auto import keccak

from harness import asm

TEST_ADDR = 0x7FA9385BE102AC3EAC297483DD6233D62B3E1496
CALLER = 0x1804C8AB1F12E6BBF3894D4083F33E07309D1F38
HEVM = 0x7109709ECFA91A80626FF3989D68F67F5B1DD12D
CREATE_BASE = 0xAAAA0002  # first CREATE of a fresh halmos run (magic_address + offset + counter)
TEST_BALANCE = 0xFFFFFFFFFFFFFFFFFFFFFFFF
PANIC_SEL = 0x4E487B71
MASK = (1 << 256) - 1

FILTER_GETTERS = ["targetSenders", "excludeSenders", "targetContracts", "excludeContracts", "targetSelectors", "excludeSelectors"]


def sel(sig):
    return keccak(sig.encode())[:4]


def sel_int(sig):
    return int.from_bytes(sel(sig), "big")


def target_addr(i):
    return CREATE_BASE + i


# ----------------------------------------------------------------------------- function bodies

def func_sig(f):
    return f["name"] + ("(uint256)" if f["kind"] in ARG_KINDS else "()")


ARG_KINDS = {"setv", "addv", "guard_arg", "assert_arg", "roll_arg", "warp_arg", "setv_br", "setv_rel"}
# functions that store a value of the transaction and then branch on it without changing the
# storage differently in the two arms: two successful end states with the same storage terms
# that differ only in the path condition on the stored symbol
BRANCH_KINDS = {"setv_br": [("push", 4), "CALLDATALOAD"], "caller_br": ["CALLER"], "value_br": ["CALLVALUE"]}


def _panic(code=1):
    return [("pushn", 32, PANIC_SEL << 224), "PUSH0", "MSTORE", ("push", code), ("push", 4), "MSTORE",
            ("push", 0x24), "PUSH0", "REVERT"]


def _revert():
    return ["PUSH0", "PUSH0", "REVERT"]


def _cheat(sig, arg_items, lab):
    """call hevm cheatcode `sig` with one word argument produced by arg_items"""
    return [("pushn", 32, sel_int(sig) << 224), "PUSH0", "MSTORE"] + arg_items + [("push", 4), "MSTORE",
            "PUSH0", "PUSH0", ("push", 0x24), "PUSH0", "PUSH0", ("pushn", 20, HEVM), ("pushn", 3, 0xFFFFFF), "CALL", "POP"]


def gen_func_code(f, lab):
    """items executed after the dispatcher jumped to the function (selector still on the stack)."""
    k, s, a, b, K = f["kind"], f.get("slot", 0), f.get("a", 0), f.get("b", 0), f.get("k", 0)
    it = ["POP"]
    ok, bad = lab + "_ok", lab + "_bad"
    if not f.get("payable") and f.get("checkvalue", True):
        it += ["CALLVALUE", "ISZERO", ("ref", lab + "_nv"), "JUMPI"] + _revert() + [("label", lab + "_nv")]

    def require(cond_items):  # cond_items leave a boolean; revert if zero
        n = len([x for x in it if isinstance(x, tuple) and x[0] == "label"])
        L = f"{lab}_r{n}"
        return cond_items + [("ref", L), "JUMPI"] + _revert() + [("label", L)]

    if k == "inc":                      # slot += 1
        it += [("push", s), "SLOAD", ("push", 1), "ADD", ("push", s), "SSTORE", "STOP"]
    elif k == "setv":                   # slot = arg
        it += [("push", 4), "CALLDATALOAD", ("push", s), "SSTORE", "STOP"]
    elif k == "addv":                   # slot += arg   (wrapping)
        it += [("push", 4), "CALLDATALOAD", ("push", s), "SLOAD", "ADD", ("push", s), "SSTORE", "STOP"]
    elif k == "step":                   # require(slot == a); slot = b
        it += require([("push", s), "SLOAD", ("push", a), "EQ"]) + [("push", b), ("push", s), "SSTORE", "STOP"]
    elif k == "guard_arg":              # require(arg == K); slot = b
        it += require([("push", 4), "CALLDATALOAD", ("push", K), "EQ"]) + [("push", b), ("push", s), "SSTORE", "STOP"]
    elif k == "only_sender":            # require(msg.sender == K); slot = b
        it += require(["CALLER", ("push", K), "EQ"]) + [("push", b), ("push", s), "SSTORE", "STOP"]
    elif k == "not_sender":             # require(msg.sender != K); slot = b
        it += require(["CALLER", ("push", K), "EQ", "ISZERO"]) + [("push", b), ("push", s), "SSTORE", "STOP"]
    elif k == "after_ts":               # require(block.timestamp >= K); slot = b
        it += require([("push", K), "TIMESTAMP", "LT", "ISZERO"]) + [("push", b), ("push", s), "SSTORE", "STOP"]
    elif k == "before_ts":              # require(block.timestamp < K); slot = b
        it += require([("push", K), "TIMESTAMP", "LT"]) + [("push", b), ("push", s), "SSTORE", "STOP"]
    elif k == "store_ts":               # slot = block.timestamp
        it += ["TIMESTAMP", ("push", s), "SSTORE", "STOP"]
    elif k == "ts_ge_slot":             # require(slot != 0 && block.timestamp >= slot + K) ; slot2 = b   (uses slot s and slot a)
        it += require([("push", s), "SLOAD", "ISZERO", "ISZERO"]) + require([("push", K), ("push", s), "SLOAD", "ADD", "TIMESTAMP", "LT", "ISZERO"]) + [("push", b), ("push", a), "SSTORE", "STOP"]
    elif k == "deposit":                # payable: slot += msg.value
        it += ["CALLVALUE", ("push", s), "SLOAD", "ADD", ("push", s), "SSTORE", "STOP"]
    elif k == "noop_payable":           # payable: nothing (only the balance changes)
        it += ["STOP"]
    elif k == "need_value":             # payable: require(msg.value == K); slot = b
        it += require(["CALLVALUE", ("push", K), "EQ"]) + [("push", b), ("push", s), "SSTORE", "STOP"]
    elif k == "assert_arg":             # if (slot == a && arg == K) Panic(1)
        it += [("push", s), "SLOAD", ("push", a), "EQ", ("push", 4), "CALLDATALOAD", ("push", K), "EQ", "AND",
               ("ref", bad), "JUMPI", "STOP", ("label", bad)] + _panic(1)
    elif k == "assert_state":           # if (slot == a) Panic(1)
        it += [("push", s), "SLOAD", ("push", a), "EQ", ("ref", bad), "JUMPI", "STOP", ("label", bad)] + _panic(1)
    elif k == "assert_stages":
        # if (slot == a) assert(block.timestamp != 0)  [or: >= 1];  if (slot == c) assert(false)
        # the first assertion can never fail (setUp runs at timestamp 1, timestamps do not decrease), but the
        # constraint `timestamp >= previous timestamp` is not a constraint on the state: while the target
        # transaction is explored the failing branch looks feasible and is refuted only by the full query
        it += [("push", s), "SLOAD", ("push", a), "EQ", ("ref", lab + "_ts"), "JUMPI"]
        if "c" in f:
            it += [("push", s), "SLOAD", ("push", f["c"]), "EQ", ("ref", bad), "JUMPI"]
        it += ["STOP", ("label", lab + "_ts")]
        it += (["TIMESTAMP"] if f.get("imp", "ts_nonzero") == "ts_nonzero" else [("push", 1), "TIMESTAMP", "LT", "ISZERO"])
        it += [("ref", ok), "JUMPI"] + _panic(1) + [("label", ok), "STOP", ("label", bad)] + _panic(1)
    elif k == "roll":                   # vm.roll(K)  -- no storage change
        it += _cheat("roll(uint256)", [("push", K)], lab) + ["STOP"]
    elif k == "roll_if":                # require(slot == a); vm.roll(K)
        it += require([("push", s), "SLOAD", ("push", a), "EQ"]) + _cheat("roll(uint256)", [("push", K)], lab) + ["STOP"]
    elif k == "roll_arg":               # vm.roll(arg)
        it += _cheat("roll(uint256)", [("push", 4), "CALLDATALOAD"], lab) + ["STOP"]
    elif k == "fee":                    # vm.fee(K)
        it += _cheat("fee(uint256)", [("push", K)], lab) + ["STOP"]
    elif k == "chainid":                # vm.chainId(K)
        it += _cheat("chainId(uint256)", [("push", K)], lab) + ["STOP"]
    elif k == "warp_arg":               # vm.warp(arg)
        it += _cheat("warp(uint256)", [("push", 4), "CALLDATALOAD"], lab) + ["STOP"]
    elif k == "need_number":            # require(block.number == K); slot = b
        it += require([("push", K), "NUMBER", "EQ"]) + [("push", b), ("push", s), "SSTORE", "STOP"]
    elif k == "need_fee":               # require(block.basefee == K); slot = b
        it += require([("push", K), "BASEFEE", "EQ"]) + [("push", b), ("push", s), "SSTORE", "STOP"]
    elif k == "need_chainid":           # require(block.chainid == K); slot = b
        it += require([("push", K), "CHAINID", "EQ"]) + [("push", b), ("push", s), "SSTORE", "STOP"]
    elif k in BRANCH_KINDS:
        # slot = v; if (v <cmp> K) {} else {}     with v = arg / msg.sender / msg.value
        #   "const": c   -> slot = c instead (the branch is then unrelated to the state)
        #   "late": True -> if (v <cmp> K) { slot = v } else { slot = v }   (store after the branch)
        src = BRANCH_KINDS[k]
        store = ([("push", f["const"])] if "const" in f else list(src)) + [("push", s), "SSTORE"]
        cmp_ = {"gt": [("push", K), "LT"], "lt": [("push", K), "GT"], "eq": [("push", K), "EQ"]}[f.get("cmp", "gt")]
        arm = ["STOP"] if not f.get("late") else store + ["STOP"]
        if "when" in f:
            #   "when": [t, a] -> require(slot[t] == a) first (the function is enabled by an earlier transaction)
            it += require([("push", f["when"][0]), "SLOAD", ("push", f["when"][1]), "EQ"])
        it += ([] if f.get("late") else store) + src + cmp_ + [("ref", ok), "JUMPI"] + arm + [("label", ok)] + arm
    elif k == "setv_rel":
        # payable: slot = arg; if (msg.value > K) {} else {}; require(arg == msg.value)
        # the branch condition constrains the stored symbol only THROUGH the later condition arg == msg.value
        def tail(sfx):
            return [("push", 4), "CALLDATALOAD", "CALLVALUE", "EQ", ("ref", f"{lab}_t{sfx}"), "JUMPI"] + _revert() + [("label", f"{lab}_t{sfx}"), "STOP"]

        if f.get("rel_first"):
            # slot = arg; require(arg == msg.value); if (msg.value > K) {} else {}
            # (the tying condition comes FIRST: the branch condition mentions msg.value only and is added later)
            it += [("push", 4), "CALLDATALOAD", ("push", s), "SSTORE",
                   ("push", 4), "CALLDATALOAD", "CALLVALUE", "EQ", ("ref", f"{lab}_eq"), "JUMPI"] + _revert() + [("label", f"{lab}_eq"),
                   "CALLVALUE", ("push", K), "LT", ("ref", ok), "JUMPI", "STOP", ("label", ok), "STOP"]
        else:
            it += [("push", 4), "CALLDATALOAD", ("push", s), "SSTORE", "CALLVALUE", ("push", K), "LT", ("ref", ok), "JUMPI"] + tail("a") + [("label", ok)] + tail("b")
    elif k == "xstep":                  # require(slot[s] == a); slot[t] = b
        it += require([("push", s), "SLOAD", ("push", a), "EQ"]) + [("push", b), ("push", f["t"]), "SSTORE", "STOP"]
    elif k == "xset_if":                # if (slot[s] == a) slot[t] = b
        it += [("push", s), "SLOAD", ("push", a), "EQ", ("ref", ok), "JUMPI", "STOP", ("label", ok),
               ("push", b), ("push", f["t"]), "SSTORE", "STOP"]
    elif k == "get":                    # view: return slot
        it += [("push", s), "SLOAD", "PUSH0", "MSTORE", ("push", 32), "PUSH0", "RETURN"]
    else:
        raise ValueError(k)
    return it


def dispatcher(entries):
    """entries: list of (sig, label)"""
    items = ["PUSH0", "CALLDATALOAD", ("push", 0xE0), "SHR"]
    for sig, lab in entries:
        items += ["DUP1", ("pushn", 4, sel_int(sig)), "EQ", ("ref", lab), "JUMPI"]
    return items + _revert()


def getter_funcs(nslots=2):
    return [{"name": f"get{i}", "kind": "get", "slot": i, "view": True, "checkvalue": False} for i in range(nslots)]


def build_target(t):
    funcs = list(t["funcs"]) + getter_funcs()
    entries = [(func_sig(f), f"F{i}") for i, f in enumerate(funcs)]
    items = dispatcher(entries)
    for i, f in enumerate(funcs):
        items += [("label", f"F{i}")] + gen_func_code(f, f"F{i}")
    rt = asm.assemble(items)
    return rt, funcs


# ----------------------------------------------------------------------------- ABI blobs for the filter getters

def word(v):
    return (v & MASK).to_bytes(32, "big")


def enc_address_array(addrs):
    return word(0x20) + word(len(addrs)) + b"".join(word(a) for a in addrs)


def enc_fuzz_selectors(items):
    """items: [(addr, [sel4 int, ...]), ...] -> abi.encode(FuzzSelector[]) ; FuzzSelector = (address, bytes4[])"""
    heads, tails = [], b""
    base = 32 * len(items)
    for addr, sels in items:
        heads.append(word(base + len(tails)))
        tails += word(addr) + word(0x40) + word(len(sels)) + b"".join(word(s << 224) for s in sels)
    return word(0x20) + word(len(items)) + b"".join(heads) + tails


def filter_blob(name, filters):
    v = filters.get(name, [])
    if name.endswith("Selectors"):
        return enc_fuzz_selectors([(a, list(s)) for a, s in v])
    return enc_address_array(list(v))


# ----------------------------------------------------------------------------- invariants (bodies in T)

def gen_invariant(inv, lab):
    """inv = {"kind": "slot_ne"|"slot_lt"|"bal_eq0"|"true"|"slot_eq_or", "target": i, "slot": s, "k": K}"""
    k = inv["kind"]
    it = ["POP"]
    bad = lab + "_bad"
    if k == "true":
        return it + ["STOP"]
    if k == "bal_zero":      # assert(address(target).balance == 0)
        return it + [("pushn", 20, inv["addr"]), "BALANCE", ("ref", bad), "JUMPI", "STOP", ("label", bad)] + _panic(1)
    # read target.s<slot>() through STATICCALL
    getter = sel_int(f"get{inv['slot']}()")
    it += [("pushn", 32, getter << 224), "PUSH0", "MSTORE",
           ("push", 32), ("push", 32), ("push", 4), "PUSH0", ("pushn", 20, inv["addr"]), ("pushn", 3, 0xFFFFFF), "STATICCALL", "POP",
           ("push", 32), "MLOAD"]                       # value
    if k == "slot_ne":       # assert(v != K)
        it += [("push", inv["k"]), "EQ"]
    elif k == "slot_lt":     # assert(v < K)
        it += [("push", inv["k"]), "SWAP1", "LT", "ISZERO"]
    elif k == "slot_le":     # assert(v <= K)
        it += [("push", inv["k"]), "SWAP1", "GT"]
    else:
        raise ValueError(k)
    return it + [("ref", bad), "JUMPI", "STOP", ("label", bad)] + _panic(1)


# ----------------------------------------------------------------------------- the test contract

def build_case(case):
    """-> dict(t_rt, t_cr, targets=[(name, rt, cr, funcs)], t_funcs(abi list), blobs)"""
    targets = []
    for t in case["targets"]:
        if "same_as" in t:
            # a further INSTANCE of an earlier target's contract: the same artifact deployed once more
            # (filters for selectors / contracts / senders are per address, the artifact is per contract)
            targets.append(targets[t["same_as"]])
            continue
        rt, funcs = build_target(t)
        targets.append((t["name"], rt, asm.creation_code(rt), funcs))
    filters = case.get("filters") or {}
    use_filters = case.get("forge_std", True)
    handlers = list(case.get("handlers", [])) + getter_funcs()
    blobs = {g: filter_blob(g, filters) for g in FILTER_GETTERS} if use_filters else {}
    invs = case.get("invariants") or [case["invariant"]]

    def items(offsets):
        entries = [("setUp()", "SETUP")] + [(f"invariant_{i}()", f"INV{i}") for i in range(len(invs))]
        entries += [(g + "()", "G_" + g) for g in blobs]
        entries += [(func_sig(f), f"H{i}") for i, f in enumerate(handlers)]
        it = dispatcher(entries)
        it += [("label", "SETUP"), "POP"]
        for i, (_, _, cr, _) in enumerate(targets):
            it += [("pushn", 2, len(cr)), ("pushn", 2, offsets.get(("cr", i), 0)), "PUSH0", "CODECOPY",
                   ("pushn", 2, len(cr)), "PUSH0", "PUSH0", "CREATE", "POP"]
        for s, v in (case.get("setup_store") or []):
            it += [("push", v), ("push", s), "SSTORE"]
        it += ["STOP"]
        for i, inv in enumerate(invs):
            it += [("label", f"INV{i}")] + gen_invariant(inv, f"INV{i}")
        for g, blob in blobs.items():
            it += [("label", "G_" + g), "POP", ("pushn", 2, len(blob)), ("pushn", 2, offsets.get(("blob", g), 0)), "PUSH0", "CODECOPY",
                   ("pushn", 2, len(blob)), "PUSH0", "RETURN"]
        for i, f in enumerate(handlers):
            it += [("label", f"H{i}")] + gen_func_code(f, f"H{i}")
        it += ["INVALID"]
        marks = {}
        for i, (_, _, cr, _) in enumerate(targets):
            marks[("cr", i)] = len(asm.assemble(it))
            it += [("raw", cr)]
        for g, blob in blobs.items():
            marks[("blob", g)] = len(asm.assemble(it))
            it += [("raw", blob)]
        return it, marks

    _, marks = items({})
    it, marks2 = items(marks)
    assert marks == marks2
    t_rt = asm.assemble(it)
    t_funcs = [("setUp()", "nonpayable")] + [(f"invariant_{i}()", "nonpayable") for i in range(len(invs))]
    t_funcs += [(g + "()", "view") for g in blobs]
    t_funcs += [(func_sig(f), _mut(f)) for f in handlers]
    return {"t_rt": t_rt, "t_cr": asm.creation_code(t_rt), "targets": targets, "t_funcs": t_funcs, "handlers": handlers}


def _mut(f):
    return "view" if f.get("view") else ("payable" if f.get("payable") else "nonpayable")


def artifact(name, funcs, cr, rt, path):
    """funcs: list of (sig, mutability)"""
    abi = []
    for sig, mut in funcs:
        n, rest = sig.split("(", 1)
        ins = [t for t in rest[:-1].split(",") if t]
        abi.append({"type": "function", "name": n,
                    "inputs": [{"name": f"a{i}", "type": t, "internalType": t} for i, t in enumerate(ins)],
                    "outputs": [], "stateMutability": mut})
    return {"abi": abi,
            "bytecode": {"object": "0x" + cr.hex(), "sourceMap": "", "linkReferences": {}},
            "deployedBytecode": {"object": "0x" + rt.hex(), "sourceMap": "", "linkReferences": {}},
            "methodIdentifiers": {sig: sel(sig).hex() for sig, _ in funcs},
            "metadata": {"compiler": {"version": "0.8.26"}, "output": {"devdoc": {"methods": {}}}},
            "ast": {"absolutePath": path, "id": 1, "nodeType": "SourceUnit",
                    "nodes": [{"nodeType": "ContractDefinition", "name": name, "contractKind": "contract", "abstract": False, "nodes": [], "id": 2}]},
            "id": 0}


def write_project(case, root):
    b = build_case(case)
    os.makedirs(os.path.join(root, "out", "T.sol"), exist_ok=True)
    with open(os.path.join(root, "out", "T.sol", "T.json"), "w") as f:
        json.dump(artifact("T", b["t_funcs"], b["t_cr"], b["t_rt"], "test/T.sol"), f)
    for name, rt, cr, funcs in b["targets"]:
        os.makedirs(os.path.join(root, "out", f"{name}.sol"), exist_ok=True)
        with open(os.path.join(root, "out", f"{name}.sol", f"{name}.json"), "w") as f:
            json.dump(artifact(name, [(func_sig(fn), _mut(fn)) for fn in funcs], cr, rt, f"src/{name}.sol"), f)
    bindir = os.path.join(root, "_bin")
    os.makedirs(bindir, exist_ok=True)
    forge = os.path.join(bindir, "forge")
    with open(forge, "w") as f:
        f.write("#!/bin/sh\nexit 0\n")
    os.chmod(forge, os.stat(forge).st_mode | stat.S_IEXEC)
    with open(os.path.join(root, "foundry.toml"), "w") as f:
        f.write("[profile.default]\n")
    return b


ANSI = re.compile(r"\x1b\[[0-9;]*m")


def run_halmos(case, timeout=120, extra=(), instrument=False):
    """Runs the real halmos end to end (subprocess) on the fabricated project.
    -> dict(exitcode, stdout, results={funsig: exitcode}, statuses={funsig: 'PASS'|'FAIL'|...}, cex=[...], ...)"""
    from harness import common

    root = tempfile.mkdtemp(prefix="c15_l3_")
    try:
        write_project(case, root)
        out_json = os.path.join(root, "res.json")
        env = dict(os.environ)
        env["PATH"] = os.path.join(root, "_bin") + os.pathsep + env.get("PATH", "")
        env["PYTHONPATH"] = str(common.REPO / "src")
        env["COLUMNS"] = "400"
        env["NO_COLOR"] = "1"
        trace_path = os.path.join(root, "trace.json")
        head = [common.PY, os.path.join(os.path.dirname(os.path.abspath(__file__)), "c15_inproc.py"), trace_path] if instrument else [common.PY, "-m", "halmos"]
        cmd = [*head, "--root", root, "--json-output", out_json, "--no-status",
               "--invariant-depth", str(case.get("depth", 2)), "--solver-timeout-assertion", "20s", *case.get("args", []), *extra]
        try:
            p = subprocess.run(cmd, capture_output=True, text=True, env=env, timeout=timeout, cwd=root)
        except subprocess.TimeoutExpired as e:
            return {"exitcode": None, "timeout": True, "stdout": (e.stdout or b"").decode(errors="replace")[-3000:] if isinstance(e.stdout, bytes) else str(e.stdout)[-3000:]}
        stdout = ANSI.sub("", p.stdout)
        res = {"exitcode": p.returncode, "stdout": stdout, "stderr": ANSI.sub("", p.stderr)[-3000:]}
        try:
            with open(out_json) as f:
                res["json"] = json.load(f)
        except Exception:  # noqa: BLE001
            res["json"] = None
        res.update(parse_output(stdout))
        if instrument:
            try:
                with open(trace_path) as f:
                    res["trace"] = json.load(f)
            except Exception as e:  # noqa: BLE001
                res["trace"] = None
                res["trace_error"] = repr(e)
        return res
    finally:
        shutil.rmtree(root, ignore_errors=True)


# (not anchored at the line start: the probe handler prints "Assertion failure detected in ..." from a solver thread,
#  which may land in front of the status line of the running test)
STATUS_RE = re.compile(r"\[(PASS|FAIL|ERROR|TIMEOUT)\]\s+(\S+)\s*(?:\(paths: (\d+))?")
PROBE_RE = re.compile(r"Assertion failure detected in (\S+?\))")


def parse_output(stdout):
    statuses = {}
    paths = {}
    for m in STATUS_RE.finditer(stdout):
        statuses[m.group(2)] = m.group(1)
        if m.group(3):
            paths[m.group(2)] = int(m.group(3))
    cexs = []
    # blocks: optional "Assertion failure detected in X.f(..)" line, "Counterexample: ..." lines, "Sequence:" + CALL lines
    lines = stdout.split("\n")
    i = 0
    while i < len(lines):
        ln = lines[i]
        if ln.startswith("Counterexample:") or ln.startswith("Counterexample (potentially invalid):"):
            probe = None
            for back in (1, 2, 3):  # the announcement is printed by a solver thread: other output may land behind it
                if i - back < 0:
                    break
                mm = PROBE_RE.search(lines[i - back]) if i - back >= 0 else None
                if mm:
                    probe = mm.group(1)
                    break
                if lines[i - back].strip() and not STATUS_RE.search(lines[i - back]) and not lines[i - back].startswith("Symbolic test result"):
                    break
            model = {}
            txt = ln.split(":", 1)[1]
            j = i + 1
            while j < len(lines) and re.match(r"^\s+\S+ = ", lines[j]):
                txt += "\n" + lines[j]
                j += 1
            for mm in re.finditer(r"(\S+) = (0x[0-9a-fA-F]+|\d+)", txt):
                model[mm.group(1)] = int(mm.group(2), 0)
            seq = []
            if j < len(lines) and lines[j].startswith("Sequence:"):
                j += 1
                while j < len(lines) and lines[j].startswith("    "):
                    if lines[j].startswith("    CALL "):
                        seq.append(lines[j].strip())
                    j += 1
            cexs.append({"probe": probe, "model": model, "sequence": seq, "valid": ln.startswith("Counterexample:")})
            i = j
            continue
        i += 1
    warnings = [ln for ln in lines if ln.startswith("WARNING") or "Warning" in ln[:40] or ln.startswith("ERROR")]
    return {"statuses": statuses, "paths": paths, "cexs": cexs, "warnings": warnings[:20]}
