"""C10 program families: counted loops (concrete / symbolic trip counts), step and path budgets, in a
regular test, in setUp and inside an invariant target.  Each case is a JSON-able dict

    {"family": ..., "params": {...}, "options": [halmos options]}

`build(case)` -> dict(contracts=[l3.Contract...], test=<signature>, truth=<list of reference scenarios>)
where a truth scenario is a list of transactions [(to, calldata hex)] run in order on the reference
interpreter from the deployed state; the LAST transaction is the test: if it ends in Panic(1) for
some scenario, halmos must not print a clean PASS for the test.
"""
from harness import l3
from harness.asm import assemble, creation_code

M = 1 << 256


def trip_items(trip):
    """items pushing the trip count (trip: ['const', n] | ['arg'] | ['and', m] | ['mod', m] | ['pinned', n])"""
    k = trip[0]
    if k == "const":
        return [("push", trip[1])]
    if k in ("arg", "pinned", "pinned_range"):
        return [("push", 4), "CALLDATALOAD"]
    if k == "and":
        return [("push", trip[1]), ("push", 4), "CALLDATALOAD", "AND"]
    if k == "mod":
        return [("push", trip[1]), ("push", 4), "CALLDATALOAD", "MOD"]
    raise ValueError(trip)


def trip_value(trip, x):
    k = trip[0]
    if k == "const":
        return trip[1]
    if k in ("arg", "pinned", "pinned_range"):
        return x
    if k == "and":
        return x & trip[1]
    return x % trip[1] if trip[1] else 0


def loop_items(trip, form, tag, body=()):
    """counted loop leaving the counter i on the stack (stack before: empty above the frame)"""
    L, B, E = f"LOOP{tag}", f"BODY{tag}", f"EXIT{tag}"
    inc = list(body) + [("push", 1), "ADD"]
    if form == "while":            # while (n > i) { body; i++ }
        return ["PUSH0", ("label", L), "DUP1"] + trip_items(trip) + ["GT", ("ref", B), "JUMPI", ("ref", E), "JUMP",
                ("label", B)] + inc + [("ref", L), "JUMP", ("label", E)]
    if form == "while_not":        # while (!(i >= n)) : exit branch is the JUMPI-taken side
        return ["PUSH0", ("label", L), "DUP1"] + trip_items(trip) + ["GT", "ISZERO", ("ref", E), "JUMPI"] + inc + [("ref", L), "JUMP", ("label", E)]
    if form == "countdown":        # j = n; i = 0; while (j != 0) { j--; i++ }   stack: i, j (j on top)
        return ["PUSH0"] + trip_items(trip) + [("label", L), "DUP1", "ISZERO", ("ref", E), "JUMPI", ("push", 1), "SWAP1", "SUB", "SWAP1"] + inc + ["SWAP1", ("ref", L), "JUMP", ("label", E), "POP"]
    raise ValueError(form)


def after_loop(K, tag):
    """stack: i.  if (i == K) Panic(1) else STOP"""
    P = f"PANIC{tag}"
    return [("push", K), "EQ", ("ref", P), "JUMPI", "STOP", ("label", P)] + l3.panic_items(1)


# ----------------------------------------------------------------------------- families

def build_regular(p):
    """check_loop(uint256 x): [require x == n] loop; if (i == K) Panic(1)"""
    sig = "check_loop(uint256)"
    items = l3.dispatcher([(sig, "F")]) + [("label", "F"), "POP"]
    if p["trip"][0] == "pinned":
        items += [("push", 4), "CALLDATALOAD", ("push", p["trip"][1]), "EQ", ("ref", "OKPIN"), "JUMPI", "PUSH0", "PUSH0", "REVERT", ("label", "OKPIN")]
    if p["trip"][0] == "pinned_range":
        # require(x < n + 1); require(x > n - 1): the value is fixed by the path but the loop condition stays a
        # symbolic term (no equality for halmos' concretization): the solver decides it (must_true / must_false)
        n = p["trip"][1]
        items += [("push", n + 1), ("push", 4), "CALLDATALOAD", "LT", ("ref", "OKHI"), "JUMPI", "PUSH0", "PUSH0", "REVERT", ("label", "OKHI")]
        if n > 0:
            items += [("push", n - 1), ("push", 4), "CALLDATALOAD", "GT", ("ref", "OKLO"), "JUMPI", "PUSH0", "PUSH0", "REVERT", ("label", "OKLO")]
    body = [("push", 1), "SLOAD", ("push", 1), "ADD", ("push", 1), "SSTORE"] if p.get("body") == "storage" else []
    items += loop_items(p["trip"], p["form"], "a", body) + after_loop(p["K"], "a")
    rt = assemble(items)
    c = l3.Contract("T", [("check_loop", ["uint256"])], rt)
    xs = sorted({0, 1, 2, 3, 4, 5, 7, 8, 9, p["K"], p["K"] + 8, p["K"] + 16, p["trip"][1] if len(p["trip"]) > 1 else 0, M - 1})
    truth = [[[l3.FOUNDRY_TEST, (l3.selector(sig) + x.to_bytes(32, "big")).hex()]] for x in xs]
    return {"contracts": [c], "test": sig, "truth": truth, "concrete_loop": p["trip"][0] in ("const", "pinned", "pinned_range")}


def build_depth(p):
    """shape "after": a concrete loop of n iterations, then if (x == 42) Panic(1);
    shapes "short_fallthrough" / "short_taken": if (x != 42) STOP (a short successful path) else the loop and
    then Panic(1) -- the two shapes differ in which side of the JUMPI is the short path, so that whatever the
    worklist order one of them completes the short path first.  With --depth below the step count the
    failure is beyond the cut while a successful path exists."""
    sig = "check_deep(uint256)"
    shape = p.get("shape", "after")
    items = l3.dispatcher([(sig, "F")]) + [("label", "F"), "POP"]
    loop = loop_items(["const", p["n"]], "while", "a")
    if shape == "after":
        items += loop + ["POP", ("push", 4), "CALLDATALOAD", ("push", 42), "EQ", ("ref", "P"), "JUMPI", "STOP", ("label", "P")] + l3.panic_items(1)
    elif shape == "short_fallthrough":
        items += [("push", 4), "CALLDATALOAD", ("push", 42), "EQ", ("ref", "LONG"), "JUMPI", "STOP", ("label", "LONG")] + loop + ["POP"] + l3.panic_items(1)
    else:
        items += [("push", 4), "CALLDATALOAD", ("push", 42), "EQ", "ISZERO", ("ref", "SHORT"), "JUMPI"] + loop + ["POP"] + l3.panic_items(1) + [("label", "SHORT"), "STOP"]
    rt = assemble(items)
    c = l3.Contract("T", [("check_deep", ["uint256"])], rt)
    truth = [[[l3.FOUNDRY_TEST, (l3.selector(sig) + x.to_bytes(32, "big")).hex()]] for x in (0, 41, 42, 43)]
    return {"contracts": [c], "test": sig, "truth": truth, "concrete_loop": True}


def build_width(p):
    """k independent symbolic branches (2^k paths); Panic(1) only when all k bits of x equal `pattern`"""
    sig = "check_wide(uint256)"
    k, pattern = p["k"], p["pattern"]
    items = l3.dispatcher([(sig, "F")]) + [("label", "F"), "POP", "PUSH0"]   # acc
    for b in range(k):
        # if (x >> b) & 1: acc |= 1 << b      (a real branch, not arithmetic)
        items += [("push", 4), "CALLDATALOAD", ("push", b), "SHR", ("push", 1), "AND", ("ref", f"S{b}"), "JUMPI", ("ref", f"N{b}"), "JUMP",
                  ("label", f"S{b}"), ("push", 1 << b), "OR", ("label", f"N{b}")]
    items += [("push", pattern), "EQ", ("ref", "P"), "JUMPI", "STOP", ("label", "P")] + l3.panic_items(1)
    rt = assemble(items)
    c = l3.Contract("T", [("check_wide", ["uint256"])], rt)
    truth = [[[l3.FOUNDRY_TEST, (l3.selector(sig) + x.to_bytes(32, "big")).hex()]] for x in range(1 << k)]
    return {"contracts": [c], "test": sig, "truth": truth, "concrete_loop": False}


def build_setup(p):
    """setUpSymbolic(uint256 n): if (n > 100) return; loop n times; require(i == K); slot0 = 1.
    check_flag(): if (slot0 == 1) Panic(1).   With --loop < K only the first setUp path is found."""
    ssig, tsig = "setUpSymbolic(uint256)", "check_flag()"
    items = l3.dispatcher([(ssig, "S"), (tsig, "F")])
    items += [("label", "S"), "POP", ("push", 100), ("push", 4), "CALLDATALOAD", "GT", ("ref", "SBIG"), "JUMPI"]
    items += loop_items(["arg"], p["form"], "s") + [("push", p["K"]), "EQ", ("ref", "SOK"), "JUMPI", "PUSH0", "PUSH0", "REVERT",
              ("label", "SOK"), ("push", 1), "PUSH0", "SSTORE", "STOP", ("label", "SBIG"), "STOP"]
    items += [("label", "F"), "POP", "PUSH0", "SLOAD", ("push", 1), "EQ", ("ref", "P"), "JUMPI", "STOP", ("label", "P")] + l3.panic_items(1)
    rt = assemble(items)
    c = l3.Contract("T", [("setUpSymbolic", ["uint256"]), ("check_flag", [])], rt)
    truth = [[[l3.FOUNDRY_TEST, (l3.selector(ssig) + n.to_bytes(32, "big")).hex()], [l3.FOUNDRY_TEST, l3.selector(tsig).hex()]] for n in (0, 1, p["K"], p["K"] + 1, 101, 1000)]
    return {"contracts": [c], "test": tsig, "truth": truth, "concrete_loop": False, "setup_in_truth": True}


def target_contract(K_unused=None):
    """C: bump(uint256 n) adds 1 to slot0 n times (a loop with a symbolic trip count); count() returns slot0"""
    items = l3.dispatcher([("bump(uint256)", "B"), ("count()", "G")])
    body = ["PUSH0", "SLOAD", ("push", 1), "ADD", "PUSH0", "SSTORE"]
    items += [("label", "B"), "POP"] + loop_items(["arg"], "while", "b", body) + ["POP", "STOP"]
    items += [("label", "G"), "POP", "PUSH0", "SLOAD", "PUSH0", "MSTORE", ("push", 32), "PUSH0", "RETURN"]
    rt = assemble(items)
    return rt, l3.Contract("C", [("bump", ["uint256"]), ("count", [])], rt, path="src/C.sol")


def build_invariant(p):
    """T.setUp() CREATEs C and keeps its address in slot0; invariant_count(): if (C.count() == K) Panic(1).
    `regular` variant: the same loop reached from a regular test check_bump(uint256 n) on T itself."""
    c_rt, c = target_contract()
    c_cr = creation_code(c_rt)
    K = p["K"]
    isig = "invariant_count()"

    def t_items(tail_off):
        it = l3.dispatcher([("setUp()", "S"), (isig, "I")])
        it += [("label", "S"), "POP", ("pushn", 2, len(c_cr)), ("pushn", 2, tail_off), "PUSH0", "CODECOPY",
               ("pushn", 2, len(c_cr)), "PUSH0", "PUSH0", "CREATE", "PUSH0", "SSTORE", "STOP"]
        # staticcall C.count(): mem[0..4] = selector; out at 0x20
        it += [("label", "I"), "POP", ("pushn", 32, l3.sel_int("count()") << 224), "PUSH0", "MSTORE",
               ("push", 32), ("push", 32), ("push", 4), "PUSH0", "PUSH0", "SLOAD", ("pushn", 3, 0xFFFFFF), "STATICCALL", "POP",
               ("push", 32), "MLOAD", ("push", K), "EQ", ("ref", "P"), "JUMPI", "STOP", ("label", "P")] + l3.panic_items(1)
        return it + [("raw", c_cr)]

    tmp = assemble(t_items(0))
    off = len(tmp) - len(c_cr)
    t_rt = assemble(t_items(off))
    assert t_rt[off:] == c_cr
    t = l3.Contract("T", [("setUp", []), ("invariant_count", [])], t_rt)
    return {"contracts": [t, c], "test": isig, "truth": "invariant", "K": K, "concrete_loop": False}


# ----------------------------------------------------------------------------- several tests in one run (per-test attribution)

def run_merged(project, options=(), timeout=120):
    """like l3.Project.run, but stderr (the 'halmos' logger) is merged INTO stdout, unbuffered, so that the
    order of warnings and result lines is the order in which halmos produced them -> l3.Result over the merged text"""
    import json
    import os
    import subprocess

    from harness import common

    js = project.dir / "result.json"
    if js.exists():
        js.unlink()
    argv = ["--root", str(project.dir), "--json-output", str(js), "--no-status", *map(str, options)]
    env = dict(os.environ)
    env["PATH"] = f"{project.dir / 'stubbin'}:/venv/bin:" + env.get("PATH", "")
    env.update(PYTHONPATH=str(common.REPO / "src"), PYTHONHASHSEED="0", COLUMNS="100000", NO_COLOR="1", TERM="dumb",
               HOME=str(project.dir), PYTHONUNBUFFERED="1")
    try:
        p = subprocess.run([common.PY, "-m", "halmos", *argv], cwd=project.dir, env=env, stdout=subprocess.PIPE, stderr=subprocess.STDOUT, text=True, timeout=timeout)
        rc, out = p.returncode, p.stdout
    except subprocess.TimeoutExpired as e:
        rc = -9
        out = ((e.stdout or b"").decode(errors="replace") if isinstance(e.stdout, bytes) else (e.stdout or "")) + "\nHARNESS-TIMEOUT"
    data = None
    if js.exists():
        try:
            data = json.loads(js.read_text())
        except Exception:  # noqa: BLE001
            data = None
    return l3.Result(rc, out, "", data, argv)


def attribute(text, contracts):
    """Which incompleteness reports concern which test?  (the SPEC side: independent of how halmos words them)
    `contracts`: {contract name: [test signatures]}.  A report line (l3.WARNING_KINDS needle) printed while
    contract C is being run belongs to test S of C when it names S (`S:` occurs in the line), or -- when it
    names no test of C -- when it was printed while S was running, i.e. after the result line of the
    previous test of C and before the result line of S.  Lines about setUp printed before the first test of C
    belong to every test of C.
    -> {"C:S": {"status": str|None, "paths": int|None, "warnings": [kinds]}}"""
    import re

    out = {f"{c}:{s}": {"status": None, "paths": None, "warnings": set()} for c, sigs in contracts.items() for s in sigs}
    cur = None            # contract being run
    pending = []          # anonymous report kinds since the last result line of `cur`
    started = False       # has a test of `cur` printed its result yet
    for ln in ANSI_RE.sub("", text).splitlines():
        m = re.search(r"Running \d+ tests? for \S*?:(\w+)\s*$", ln.strip())
        if m:
            cur, pending, started = m.group(1), [], False
            continue
        if cur not in contracts:
            continue
        ms = l3.STATUS_RE.match(ln.strip())
        if ms and f"{cur}:{ms.group(2)}" in out:
            u = out[f"{cur}:{ms.group(2)}"]
            u["status"], u["paths"] = ms.group(1), int(ms.group(3)) if ms.group(3) else None
            u["warnings"] |= set(pending)
            pending, started = [], True
            continue
        kinds = [k for k, needle in l3.WARNING_KINDS if needle in ln]
        if not kinds:
            continue
        named = [s for s in contracts[cur] if (s + ":") in ln]
        if named:
            for s in named:
                out[f"{cur}:{s}"]["warnings"] |= set(kinds)
        elif "setUp" in ln and not started:
            for s in contracts[cur]:
                out[f"{cur}:{s}"]["warnings"] |= set(kinds)
        else:
            pending += kinds
    return {k: {**v, "warnings": sorted(v["warnings"])} for k, v in out.items()}


ANSI_RE = l3.ANSI_RE


def sig_types(s):
    return [t for t in s.split("(")[1].rstrip(")").split(",") if t]


def short_long_body(n, tag, tail):
    """stack: empty.  if (x != 0) STOP;  a concrete loop of n iterations;  `tail`"""
    return [("push", 4), "CALLDATALOAD", "ISZERO", ("ref", f"LONG{tag}"), "JUMPI", "STOP", ("label", f"LONG{tag}")] + \
        loop_items(["const", n], "while", tag) + ["POP"] + tail


def build_depth_multi(p):
    """several tests with the SAME body (short successful path; long path cut by --depth, ending in Panic(1)):
    overloads of one name, a differently named control, and the same signature again in a second contract.
    Every one of them loses its failing path to the step limit: every one must carry its own report."""
    contracts, units = [], []
    for cname, sigs in p["layout"]:
        items = l3.dispatcher([(s, "F") for s in sigs])
        items += [("label", "F"), "POP"] + short_long_body(p["n"], "a", l3.panic_items(1))
        rt = assemble(items)
        contracts.append(l3.Contract(cname, [(s.split("(")[0], sig_types(s)) for s in sigs], rt, path=f"test/{cname}.sol"))
        for s in sigs:
            truth = [[[l3.FOUNDRY_TEST, (l3.selector(s) + x.to_bytes(32, "big") + b"\0" * (32 * (len(sig_types(s)) - 1))).hex()]] for x in (0, 1)]
            units.append({"contract": cname, "sig": s, "truth": truth, "runtime": rt.hex()})
    return {"contracts": contracts, "units": units, "test": units[0]["sig"], "truth": units[0]["truth"], "concrete_loop": True}


# an "unsupported feature": a memory access whose offset / size is a symbolic term (NotConcreteError, a
# HalmosException): halmos cannot continue the path, the reference interpreter just executes it
def unsupported_items(kind, get_x):
    if kind == "mstore_sym":      # mstore(x, 1)
        return [("push", 1)] + get_x + ["MSTORE"]
    if kind == "mload_sym":       # pop(mload(x))
        return get_x + ["MLOAD", "POP"]
    if kind == "sha3_sym":        # pop(keccak(0, x))  -- symbolic size
        return get_x + ["PUSH0", "SHA3", "POP"]
    # valid (Cancun) instructions halmos has no handler for; the reference interpreter answers `unsupported` when the
    # concrete execution reaches them, which proves that the path through them is real
    if kind == "op_selfdestruct":
        return ["PUSH0", "SELFDESTRUCT"]
    if kind == "op_blobhash":
        return ["PUSH0", ("raw", b"\x49"), "POP"]
    if kind == "op_blobbasefee":
        return [("raw", b"\x4a"), "POP"]
    raise ValueError(kind)


def build_stuck(p):
    """check_stuck(uint256 x): if (x == 77) STOP;  <unsupported feature, at call depth `where`>;  Panic(1).
    where: "top" (in the test body), "call" / "staticcall" / "delegatecall" (in a helper the test calls with its own
    calldata), "create" (in the constructor of a contract the test creates; x is appended to the init code).
    One path ends normally, the other is stopped by halmos' internal error before the planted failure:
    never a clean PASS."""
    sig = "check_stuck(uint256)"
    where, kind = p["where"], p["kind"]
    arg = [("push", 4), "CALLDATALOAD"]
    h_rt = assemble(unsupported_items(kind, arg) + ["STOP"])            # helper runtime: the feature, then STOP
    # constructor: x = the last 32 bytes of the init code
    ctor_x = [("push", 32), "DUP1", "CODESIZE", "SUB", "PUSH0", "CODECOPY", "PUSH0", "MLOAD"]
    blob = creation_code(h_rt) if where != "create" else assemble(unsupported_items(kind, ctor_x) + ["PUSH0", "PUSH0", "RETURN"])

    def t_items(off):
        it = l3.dispatcher([("setUp()", "S"), (sig, "F")])
        it += [("label", "S"), "POP"]
        if where in ("call", "staticcall", "delegatecall"):
            it += [("pushn", 2, len(blob)), ("pushn", 2, off), "PUSH0", "CODECOPY", ("pushn", 2, len(blob)), "PUSH0", "PUSH0", "CREATE", "PUSH0", "SSTORE"]
        it += ["STOP"]
        it += [("label", "F"), "POP", ("push", 4), "CALLDATALOAD", ("push", 77), "EQ", ("ref", "OUT"), "JUMPI"]
        if where == "top":
            it += unsupported_items(kind, arg)
        elif where == "create":
            it += [("pushn", 2, len(blob)), ("pushn", 2, off), "PUSH0", "CODECOPY", ("push", 4), "CALLDATALOAD", ("pushn", 2, len(blob)), "MSTORE",
                   ("pushn", 2, len(blob) + 32), "PUSH0", "PUSH0", "CREATE", "POP"]
        else:
            it += ["CALLDATASIZE", "PUSH0", "PUSH0", "CALLDATACOPY"]          # forward the calldata
            pre = ["PUSH0", "PUSH0", "CALLDATASIZE", "PUSH0"]                   # retSize retOff argSize argOff
            if where == "call":
                it += pre + ["PUSH0", "PUSH0", "SLOAD", ("pushn", 3, 0xFFFFFF), "CALL", "POP"]
            elif where == "staticcall":
                it += pre + ["PUSH0", "SLOAD", ("pushn", 3, 0xFFFFFF), "STATICCALL", "POP"]
            else:
                it += pre + ["PUSH0", "SLOAD", ("pushn", 3, 0xFFFFFF), "DELEGATECALL", "POP"]
        it += l3.panic_items(1) + [("label", "OUT"), "STOP"]
        return it + [("raw", blob)]

    tmp = assemble(t_items(0))
    off = len(tmp) - len(blob)
    t_rt = assemble(t_items(off))
    assert t_rt[off:] == blob
    t = l3.Contract("T", [("setUp", []), ("check_stuck", ["uint256"])], t_rt)
    truth = [[[l3.FOUNDRY_TEST, l3.selector("setUp()").hex()], [l3.FOUNDRY_TEST, (l3.selector(sig) + x.to_bytes(32, "big")).hex()]] for x in (0, 32, 77)]
    return {"contracts": [t], "test": sig, "truth": truth, "concrete_loop": False}


def build_stuck_setup(p):
    """setUpSymbolic(uint256 x): <unsupported feature: in the body ("top") or in a helper created and called here
    ("call")>; slot0 = 1.   check_flag(): if (slot0 == 1) Panic(1).
    Every concrete setUpSymbolic(x) (small x) completes and sets the flag, so check_flag() fails; halmos cannot
    continue the only path of setUp: no test of the contract may be a clean PASS."""
    ssig, tsig = "setUpSymbolic(uint256)", "check_flag()"
    where, kind = p["where"], p["kind"]
    arg = [("push", 4), "CALLDATALOAD"]
    blob = creation_code(assemble(unsupported_items(kind, arg) + ["STOP"]))

    def t_items(off):
        it = l3.dispatcher([(ssig, "S"), (tsig, "F")])
        it += [("label", "S"), "POP"]
        if where == "call":
            it += [("pushn", 2, len(blob)), ("pushn", 2, off), "PUSH0", "CODECOPY", ("pushn", 2, len(blob)), "PUSH0", "PUSH0", "CREATE"]   # helper address
            it += ["CALLDATASIZE", "PUSH0", "PUSH0", "CALLDATACOPY"]
            it += ["PUSH0", "PUSH0", "CALLDATASIZE", "PUSH0", "PUSH0", "DUP6", ("pushn", 3, 0xFFFFFF), "CALL", "POP", "POP"]
        else:
            it += unsupported_items(kind, arg)
        it += [("push", 1), "PUSH0", "SSTORE", "STOP"]
        it += [("label", "F"), "POP", "PUSH0", "SLOAD", ("push", 1), "EQ", ("ref", "P"), "JUMPI", "STOP", ("label", "P")] + l3.panic_items(1)
        return it + [("raw", blob)]

    tmp = assemble(t_items(0))
    off = len(tmp) - len(blob)
    rt = assemble(t_items(off))
    assert rt[off:] == blob
    t = l3.Contract("T", [("setUpSymbolic", ["uint256"]), ("check_flag", [])], rt)
    truth = [[[l3.FOUNDRY_TEST, (l3.selector(ssig) + x.to_bytes(32, "big")).hex()], [l3.FOUNDRY_TEST, l3.selector(tsig).hex()]] for x in (0, 32)]
    return {"contracts": [t], "test": tsig, "truth": truth, "concrete_loop": False}


def build_invariant_states(p):
    """C: setN(uint256 v) { n = v }, one() { n = 1 }, n() view.   T.setUp() creates C.
    invariant_ok(): for (i = 0; i < C.n(); i++) {}; if (i == K) Panic(1).
    The invariant transaction is executed (by ONE SEVM) on every frontier state: the post-setUp state (n = 0), the
    states after setN(v) (n symbolic: the loop is cut by --loop < K) and after one() (n = 1: nothing is cut).
    `order` = order of C's functions in the artifact = order of the frontier states.  setUp; C.setN(K); invariant_ok()
    ends in Panic(1): a PASS must carry the LOOP_BOUND warning whichever state was executed last."""
    K, order = p["K"], p["order"]
    bodies = {"setN(uint256)": [("push", 4), "CALLDATALOAD", "PUSH0", "SSTORE", "STOP"],
              "one()": [("push", 1), "PUSH0", "SSTORE", "STOP"],
              "n()": ["PUSH0", "SLOAD", "PUSH0", "MSTORE", ("push", 32), "PUSH0", "RETURN"]}
    sigs = list(order) + ["n()"]
    items = l3.dispatcher([(sg, f"L{k}") for k, sg in enumerate(sigs)])
    for k, sg in enumerate(sigs):
        items += [("label", f"L{k}"), "POP"] + bodies[sg]
    c_rt = assemble(items)
    c = l3.Contract("C", [(sg.split("(")[0], sig_types(sg)) for sg in sigs], c_rt, path="src/C.sol")
    c_cr = creation_code(c_rt)
    isig = "invariant_ok()"

    def t_items(off):
        it = l3.dispatcher([("setUp()", "S"), (isig, "I")])
        it += [("label", "S"), "POP", ("pushn", 2, len(c_cr)), ("pushn", 2, off), "PUSH0", "CODECOPY",
               ("pushn", 2, len(c_cr)), "PUSH0", "PUSH0", "CREATE", "PUSH0", "SSTORE", "STOP"]
        # n = C.n()  (staticcall, result at 0x20); i = 0; while (n > i) i++;   stack: n, i
        it += [("label", "I"), "POP", ("pushn", 32, l3.sel_int("n()") << 224), "PUSH0", "MSTORE",
               ("push", 32), ("push", 32), ("push", 4), "PUSH0", "PUSH0", "SLOAD", ("pushn", 3, 0xFFFFFF), "STATICCALL", "POP",
               ("push", 32), "MLOAD", "PUSH0",
               ("label", "LOOP"), "DUP1", "DUP3", "GT", ("ref", "BODY"), "JUMPI", ("ref", "EXIT"), "JUMP",
               ("label", "BODY"), ("push", 1), "ADD", ("ref", "LOOP"), "JUMP",
               ("label", "EXIT"), ("push", K), "EQ", ("ref", "P"), "JUMPI", "STOP", ("label", "P")] + l3.panic_items(1)
        return it + [("raw", c_cr)]

    tmp = assemble(t_items(0))
    off = len(tmp) - len(c_cr)
    t_rt = assemble(t_items(off))
    assert t_rt[off:] == c_cr
    t = l3.Contract("T", [("setUp", []), ("invariant_ok", [])], t_rt)
    return {"contracts": [t, c], "test": isig, "truth": "invariant", "K": K, "target_sig": "setN(uint256)", "concrete_loop": False}


def build_inv_stuck(p):
    """C: poke(uint256 x) { if (x == 77) { n++ } else { <unsupported feature>; flag = 1 } },  flag() view.
    T.setUp() creates C;  invariant_flag(): if (C.flag() == 1) Panic(1).
    where: "top" -- the feature is hit in the frame of the target function ITSELF (the call ends with a HalmosException
    of its own: output.error is set and there is no output); "call" -- in a helper that poke() creates and calls (the
    target call has no error of its own and no output).  The x == 77 path changes the state, so every depth has a new
    frontier state from which poke() is explored again.  On the other path halmos cannot continue: every concrete
    poke(x), x != 77 (small), sets the flag and breaks the invariant, so an invariant PASS must come with a report about
    the target transaction.  kind "revert_sym" = revert(0, x): a REVERT whose size is symbolic (the path reverts whatever
    x is, nothing is hidden; halmos still names it)."""
    where, kind = p["where"], p["kind"]
    arg = [("push", 4), "CALLDATALOAD"]
    feature = arg + ["PUSH0", "REVERT"] if kind == "revert_sym" else unsupported_items(kind, arg)
    blob = creation_code(assemble(feature + ["STOP"]))

    def c_items(off):
        it = l3.dispatcher([("poke(uint256)", "P"), ("flag()", "G")])
        it += [("label", "P"), "POP", ("push", 4), "CALLDATALOAD", ("push", 77), "EQ", ("ref", "OUT"), "JUMPI"]
        if where == "top":
            it += feature
        else:
            it += [("pushn", 2, len(blob)), ("pushn", 2, off), "PUSH0", "CODECOPY", ("pushn", 2, len(blob)), "PUSH0", "PUSH0", "CREATE"]   # helper address
            it += ["CALLDATASIZE", "PUSH0", "PUSH0", "CALLDATACOPY"]
            it += ["PUSH0", "PUSH0", "CALLDATASIZE", "PUSH0", "PUSH0", "DUP6", ("pushn", 3, 0xFFFFFF), "CALL", "POP", "POP"]
        it += [("push", 1), ("push", 1), "SSTORE", "STOP"]
        it += [("label", "OUT"), "PUSH0", "SLOAD", ("push", 1), "ADD", "PUSH0", "SSTORE", "STOP"]
        it += [("label", "G"), "POP", ("push", 1), "SLOAD", "PUSH0", "MSTORE", ("push", 32), "PUSH0", "RETURN"]
        return it + [("raw", blob)]

    off = len(assemble(c_items(0))) - len(blob)
    c_rt = assemble(c_items(off))
    assert c_rt[off:] == blob
    c = l3.Contract("C", [("poke", ["uint256"]), ("flag", [])], c_rt, path="src/C.sol")
    c_cr = creation_code(c_rt)
    isig = "invariant_flag()"

    def t_items(tail_off):
        it = l3.dispatcher([("setUp()", "S"), (isig, "I")])
        it += [("label", "S"), "POP", ("pushn", 2, len(c_cr)), ("pushn", 2, tail_off), "PUSH0", "CODECOPY",
               ("pushn", 2, len(c_cr)), "PUSH0", "PUSH0", "CREATE", "PUSH0", "SSTORE", "STOP"]
        it += [("label", "I"), "POP", ("pushn", 32, l3.sel_int("flag()") << 224), "PUSH0", "MSTORE",
               ("push", 32), ("push", 32), ("push", 4), "PUSH0", "PUSH0", "SLOAD", ("pushn", 3, 0xFFFFFF), "STATICCALL", "POP",
               ("push", 32), "MLOAD", ("push", 1), "EQ", ("ref", "PANIC"), "JUMPI", "STOP", ("label", "PANIC")] + l3.panic_items(1)
        return it + [("raw", c_cr)]

    toff = len(assemble(t_items(0))) - len(c_cr)
    t_rt = assemble(t_items(toff))
    assert t_rt[toff:] == c_cr
    t = l3.Contract("T", [("setUp", []), ("invariant_flag", [])], t_rt)
    return {"contracts": [t, c], "test": isig, "truth": "invariant", "K": 77, "target_sig": "poke(uint256)", "concrete_loop": False}


BUILDERS = {"inv_stuck": build_inv_stuck, "invariant_states": build_invariant_states, "stuck_setup": build_stuck_setup, "regular": build_regular, "depth": build_depth, "width": build_width, "setup": build_setup, "invariant": build_invariant,
            "depth_multi": build_depth_multi, "stuck": build_stuck}


def build(case):
    return BUILDERS[case["family"]](case["params"])


# ----------------------------------------------------------------------------- generator

def gen_cases(r, tier):
    cases = []
    loops = [1, 2, 4]
    forms = ["while", "while_not", "countdown"]
    # concrete trip counts: never cut, whatever --loop (every loop form with n above the bound)
    if tier == "quick":
        consts = [(0, 1, "while"), (1, 2, "while_not"), (3, 1, "while"), (3, 2, "countdown"), (9, 1, "countdown"), (9, 2, "while"), (3, 2, "while_not"), (1, 1, "countdown")]
    else:
        consts = [(n, L, f) for n in [0, 1, 2, 3, 5, 9, 17, 40] for L in loops for f in forms if (n + L + forms.index(f)) % 2 == 0 or n in (3, 9)]
    for n, L, form in consts:
        cases.append({"family": "regular", "params": {"trip": ["const", n], "form": form, "K": n, "body": r.choice(["none", "storage"])}, "options": ["--loop", str(L)]})
    for n in ([3, 6] if tier == "quick" else [1, 3, 6, 12]):
        cases.append({"family": "regular", "params": {"trip": ["pinned", n], "form": forms[n % 3], "K": n, "body": "none"}, "options": ["--loop", "1"]})
    # pinned by a range: the solver (not the syntax) makes the condition constant
    for n, L, form in ([(3, 1, "while"), (4, 2, "while_not"), (3, 2, "countdown")] if tier == "quick" else
                       [(n, L, f) for n in (0, 1, 3, 4, 7) for L in (1, 2) for f in forms]):
        cases.append({"family": "regular", "params": {"trip": ["pinned_range", n], "form": form, "K": n, "body": "none"}, "options": ["--loop", str(L)]})
    # symbolic trip counts: K below / at / above the bound
    trips = [["arg"], ["and", 7], ["mod", 6]]
    for L in loops:
        for K in sorted({0, L - 1, L, L + 1, L + 3} - {-1}):
            if tier == "quick" and K not in (L, L + 1):
                continue
            trip = trips[(L + K) % 3]
            if trip[0] == "and" and K > 7 or trip[0] == "mod" and K > 5:
                trip = ["arg"]
            cases.append({"family": "regular", "params": {"trip": trip, "form": forms[(K + L) % 3], "K": K, "body": "none"}, "options": ["--loop", str(L)]})
    # --depth
    for n, d in ([(20, 60), (20, 100000)] if tier == "quick" else [(20, 30), (20, 60), (20, 150), (20, 260), (20, 100000), (5, 80), (5, 40)]):
        cases.append({"family": "depth", "params": {"n": n, "shape": "after"}, "options": ["--depth", str(d), "--loop", "2"]})
    for shape in ("short_fallthrough", "short_taken"):
        for d in ([60] if tier == "quick" else [40, 60, 120, 100000]):
            cases.append({"family": "depth", "params": {"n": 20, "shape": shape}, "options": ["--depth", str(d)]})
    # --width
    for k, w in ([(3, 3), (3, 0)] if tier == "quick" else [(3, 1), (3, 3), (3, 7), (3, 8), (3, 0), (2, 2), (2, 4), (4, 5)]):
        for pattern in ([0, (1 << k) - 1] if tier != "quick" else [(1 << k) - 1]):
            cases.append({"family": "width", "params": {"k": k, "pattern": pattern}, "options": ["--width", str(w)]})
    # setUp
    for K, L in ([(3, 2), (2, 4)] if tier == "quick" else [(3, 1), (3, 2), (5, 4), (2, 4), (1, 4)]):
        cases.append({"family": "setup", "params": {"K": K, "form": "while"}, "options": ["--loop", str(L)]})
    # invariant target
    for K, L in ([(7, 2)] if tier == "quick" else [(7, 2), (5, 1), (2, 2), (9, 4)]):
        cases.append({"family": "invariant", "params": {"K": K}, "options": ["--loop", str(L), "--invariant-depth", "2"]})
    # several tests in one run under --depth (per-test reports): overloads, a control, the same signature in a second contract
    layouts = [[["T", ["check_walk(uint256)", "check_walk(uint256,uint256)", "check_other(uint256)"]], ["U", ["check_walk(uint256)"]]]]
    if tier != "quick":
        layouts += [[["T", ["check_a(uint256)", "check_a(uint256,uint256)", "check_a(uint256,uint256,uint256)"]]],
                    [["A", ["check_x(uint256)"]], ["B", ["check_x(uint256)"]], ["C", ["check_x(uint256,uint256)"]]]]
    for lay in layouts:
        for d in ([200] if tier == "quick" else [200, 100000]):
            cases.append({"family": "depth_multi", "params": {"n": 60, "layout": lay}, "options": ["--depth", str(d)]})
    # a path stopped by an unsupported feature, at every call depth
    stuck = [("top", "mstore_sym"), ("call", "mstore_sym"), ("staticcall", "mload_sym"), ("delegatecall", "sha3_sym"), ("create", "mstore_sym")]
    if tier != "quick":
        stuck = [(w, k) for w in ("top", "call", "staticcall", "delegatecall", "create") for k in ("mstore_sym", "mload_sym", "sha3_sym")]
    stuck += [("top", "op_selfdestruct"), ("call", "op_blobhash")] if tier == "quick" else [(w, k) for w in ("top", "call", "staticcall", "delegatecall", "create") for k in ("op_selfdestruct", "op_blobhash", "op_blobbasefee")]
    for w, k in stuck:
        cases.append({"family": "stuck", "params": {"where": w, "kind": k}, "options": []})
    # the invariant's own loop is cut on some frontier states only (one SEVM over all of them)
    for order, d, L in ([(["setN(uint256)", "one()"], 1, 2), (["one()", "setN(uint256)"], 1, 2)] if tier == "quick" else
                        [(o, d, L) for o in (["setN(uint256)", "one()"], ["one()", "setN(uint256)"]) for d in (1, 2) for L in (2, 3)]):
        cases.append({"family": "invariant_states", "params": {"K": 5, "order": order}, "options": ["--loop", str(L), "--invariant-depth", str(d)]})
    # ... and in setUp
    for w, k in ([("call", "mstore_sym"), ("top", "mstore_sym")] if tier == "quick" else [(w, k) for w in ("call", "top") for k in ("mstore_sym", "mload_sym", "sha3_sym")]):
        cases.append({"family": "stuck_setup", "params": {"where": w, "kind": k}, "options": []})
    # invariant testing: a target transaction stopped by an unsupported feature in the target's OWN frame / in a nested call,
    # at depth 1 and 2
    inv_stuck = [("top", "op_selfdestruct", 1), ("top", "mstore_sym", 2), ("top", "revert_sym", 1), ("call", "mstore_sym", 2)]
    if tier != "quick":
        inv_stuck = [(w, k, d) for w in ("top", "call") for k in ("op_selfdestruct", "op_blobhash", "mstore_sym", "mload_sym", "sha3_sym", "revert_sym") for d in (1, 2)]
    for w, k, d in inv_stuck:
        cases.append({"family": "inv_stuck", "params": {"where": w, "kind": k}, "options": ["--invariant-depth", str(d)]})
    return cases
