"""C10 program families: counted loops (concrete / symbolic trip counts), step and path budgets, in a
regular test, in setUp and inside an invariant target.  Each case is a JSON-able dict

    {"family": ..., "params": {...}, "options": [halmos options]}

`build(case)` -> dict(contracts=[l3.Contract...], test=<signature>, truth=<list of reference scenarios>)
where a truth scenario is a list of transactions [(to, calldata hex)] run in order on the reference
interpreter from the deployed state; the LAST transaction is the test: if it ends in Panic(1) for
some scenario, halmos must not print a clean PASS for the test.
"""
from harness import l3
from harness.asm import assemble, creation_code

M = 1 << 256


def trip_items(trip):
    """items pushing the trip count (trip: ['const', n] | ['arg'] | ['and', m] | ['mod', m] | ['pinned', n])"""
    k = trip[0]
    if k == "const":
        return [("push", trip[1])]
    if k in ("arg", "pinned", "pinned_range"):
        return [("push", 4), "CALLDATALOAD"]
    if k == "and":
        return [("push", trip[1]), ("push", 4), "CALLDATALOAD", "AND"]
    if k == "mod":
        return [("push", trip[1]), ("push", 4), "CALLDATALOAD", "MOD"]
    raise ValueError(trip)


def trip_value(trip, x):
    k = trip[0]
    if k == "const":
        return trip[1]
    if k in ("arg", "pinned", "pinned_range"):
        return x
    if k == "and":
        return x & trip[1]
    return x % trip[1] if trip[1] else 0


def loop_items(trip, form, tag, body=()):
    """counted loop leaving the counter i on the stack (stack before: empty above the frame)"""
    L, B, E = f"LOOP{tag}", f"BODY{tag}", f"EXIT{tag}"
    inc = list(body) + [("push", 1), "ADD"]
    if form == "while":            # while (n > i) { body; i++ }
        return ["PUSH0", ("label", L), "DUP1"] + trip_items(trip) + ["GT", ("ref", B), "JUMPI", ("ref", E), "JUMP",
                ("label", B)] + inc + [("ref", L), "JUMP", ("label", E)]
    if form == "while_not":        # while (!(i >= n)) : exit branch is the JUMPI-taken side
        return ["PUSH0", ("label", L), "DUP1"] + trip_items(trip) + ["GT", "ISZERO", ("ref", E), "JUMPI"] + inc + [("ref", L), "JUMP", ("label", E)]
    if form == "countdown":        # j = n; i = 0; while (j != 0) { j--; i++ }   stack: i, j (j on top)
        return ["PUSH0"] + trip_items(trip) + [("label", L), "DUP1", "ISZERO", ("ref", E), "JUMPI", ("push", 1), "SWAP1", "SUB", "SWAP1"] + inc + ["SWAP1", ("ref", L), "JUMP", ("label", E), "POP"]
    raise ValueError(form)


def after_loop(K, tag):
    """stack: i.  if (i == K) Panic(1) else STOP"""
    P = f"PANIC{tag}"
    return [("push", K), "EQ", ("ref", P), "JUMPI", "STOP", ("label", P)] + l3.panic_items(1)


# ----------------------------------------------------------------------------- families

def build_regular(p):
    """check_loop(uint256 x): [require x == n] loop; if (i == K) Panic(1)"""
    sig = "check_loop(uint256)"
    items = l3.dispatcher([(sig, "F")]) + [("label", "F"), "POP"]
    if p["trip"][0] == "pinned":
        items += [("push", 4), "CALLDATALOAD", ("push", p["trip"][1]), "EQ", ("ref", "OKPIN"), "JUMPI", "PUSH0", "PUSH0", "REVERT", ("label", "OKPIN")]
    if p["trip"][0] == "pinned_range":
        # require(x < n + 1); require(x > n - 1): the value is fixed by the path but the loop condition stays a
        # symbolic term (no equality for halmos' concretization): the solver decides it (must_true / must_false)
        n = p["trip"][1]
        items += [("push", n + 1), ("push", 4), "CALLDATALOAD", "LT", ("ref", "OKHI"), "JUMPI", "PUSH0", "PUSH0", "REVERT", ("label", "OKHI")]
        if n > 0:
            items += [("push", n - 1), ("push", 4), "CALLDATALOAD", "GT", ("ref", "OKLO"), "JUMPI", "PUSH0", "PUSH0", "REVERT", ("label", "OKLO")]
    body = [("push", 1), "SLOAD", ("push", 1), "ADD", ("push", 1), "SSTORE"] if p.get("body") == "storage" else []
    items += loop_items(p["trip"], p["form"], "a", body) + after_loop(p["K"], "a")
    rt = assemble(items)
    c = l3.Contract("T", [("check_loop", ["uint256"])], rt)
    xs = sorted({0, 1, 2, 3, 4, 5, 7, 8, 9, p["K"], p["K"] + 8, p["K"] + 16, p["trip"][1] if len(p["trip"]) > 1 else 0, M - 1})
    truth = [[[l3.FOUNDRY_TEST, (l3.selector(sig) + x.to_bytes(32, "big")).hex()]] for x in xs]
    return {"contracts": [c], "test": sig, "truth": truth, "concrete_loop": p["trip"][0] in ("const", "pinned", "pinned_range")}


def build_depth(p):
    """shape "after": a concrete loop of n iterations, then if (x == 42) Panic(1);
    shapes "short_fallthrough" / "short_taken": if (x != 42) STOP (a short successful path) else the loop and
    then Panic(1) -- the two shapes differ in which side of the JUMPI is the short path, so that whatever the
    worklist order one of them completes the short path first.  With --depth below the step count the
    failure is beyond the cut while a successful path exists."""
    sig = "check_deep(uint256)"
    shape = p.get("shape", "after")
    items = l3.dispatcher([(sig, "F")]) + [("label", "F"), "POP"]
    loop = loop_items(["const", p["n"]], "while", "a")
    if shape == "after":
        items += loop + ["POP", ("push", 4), "CALLDATALOAD", ("push", 42), "EQ", ("ref", "P"), "JUMPI", "STOP", ("label", "P")] + l3.panic_items(1)
    elif shape == "short_fallthrough":
        items += [("push", 4), "CALLDATALOAD", ("push", 42), "EQ", ("ref", "LONG"), "JUMPI", "STOP", ("label", "LONG")] + loop + ["POP"] + l3.panic_items(1)
    else:
        items += [("push", 4), "CALLDATALOAD", ("push", 42), "EQ", "ISZERO", ("ref", "SHORT"), "JUMPI"] + loop + ["POP"] + l3.panic_items(1) + [("label", "SHORT"), "STOP"]
    rt = assemble(items)
    c = l3.Contract("T", [("check_deep", ["uint256"])], rt)
    truth = [[[l3.FOUNDRY_TEST, (l3.selector(sig) + x.to_bytes(32, "big")).hex()]] for x in (0, 41, 42, 43)]
    return {"contracts": [c], "test": sig, "truth": truth, "concrete_loop": True}


def build_width(p):
    """k independent symbolic branches (2^k paths); Panic(1) only when all k bits of x equal `pattern`"""
    sig = "check_wide(uint256)"
    k, pattern = p["k"], p["pattern"]
    items = l3.dispatcher([(sig, "F")]) + [("label", "F"), "POP", "PUSH0"]   # acc
    for b in range(k):
        # if (x >> b) & 1: acc |= 1 << b      (a real branch, not arithmetic)
        items += [("push", 4), "CALLDATALOAD", ("push", b), "SHR", ("push", 1), "AND", ("ref", f"S{b}"), "JUMPI", ("ref", f"N{b}"), "JUMP",
                  ("label", f"S{b}"), ("push", 1 << b), "OR", ("label", f"N{b}")]
    items += [("push", pattern), "EQ", ("ref", "P"), "JUMPI", "STOP", ("label", "P")] + l3.panic_items(1)
    rt = assemble(items)
    c = l3.Contract("T", [("check_wide", ["uint256"])], rt)
    truth = [[[l3.FOUNDRY_TEST, (l3.selector(sig) + x.to_bytes(32, "big")).hex()]] for x in range(1 << k)]
    return {"contracts": [c], "test": sig, "truth": truth, "concrete_loop": False}


def build_setup(p):
    """setUpSymbolic(uint256 n): if (n > 100) return; loop n times; require(i == K); slot0 = 1.
    check_flag(): if (slot0 == 1) Panic(1).   With --loop < K only the first setUp path is found."""
    ssig, tsig = "setUpSymbolic(uint256)", "check_flag()"
    items = l3.dispatcher([(ssig, "S"), (tsig, "F")])
    items += [("label", "S"), "POP", ("push", 100), ("push", 4), "CALLDATALOAD", "GT", ("ref", "SBIG"), "JUMPI"]
    items += loop_items(["arg"], p["form"], "s") + [("push", p["K"]), "EQ", ("ref", "SOK"), "JUMPI", "PUSH0", "PUSH0", "REVERT",
              ("label", "SOK"), ("push", 1), "PUSH0", "SSTORE", "STOP", ("label", "SBIG"), "STOP"]
    items += [("label", "F"), "POP", "PUSH0", "SLOAD", ("push", 1), "EQ", ("ref", "P"), "JUMPI", "STOP", ("label", "P")] + l3.panic_items(1)
    rt = assemble(items)
    c = l3.Contract("T", [("setUpSymbolic", ["uint256"]), ("check_flag", [])], rt)
    truth = [[[l3.FOUNDRY_TEST, (l3.selector(ssig) + n.to_bytes(32, "big")).hex()], [l3.FOUNDRY_TEST, l3.selector(tsig).hex()]] for n in (0, 1, p["K"], p["K"] + 1, 101, 1000)]
    return {"contracts": [c], "test": tsig, "truth": truth, "concrete_loop": False, "setup_in_truth": True}


def target_contract(K_unused=None):
    """C: bump(uint256 n) adds 1 to slot0 n times (a loop with a symbolic trip count); count() returns slot0"""
    items = l3.dispatcher([("bump(uint256)", "B"), ("count()", "G")])
    body = ["PUSH0", "SLOAD", ("push", 1), "ADD", "PUSH0", "SSTORE"]
    items += [("label", "B"), "POP"] + loop_items(["arg"], "while", "b", body) + ["POP", "STOP"]
    items += [("label", "G"), "POP", "PUSH0", "SLOAD", "PUSH0", "MSTORE", ("push", 32), "PUSH0", "RETURN"]
    rt = assemble(items)
    return rt, l3.Contract("C", [("bump", ["uint256"]), ("count", [])], rt, path="src/C.sol")


def build_invariant(p):
    """T.setUp() CREATEs C and keeps its address in slot0; invariant_count(): if (C.count() == K) Panic(1).
    `regular` variant: the same loop reached from a regular test check_bump(uint256 n) on T itself."""
    c_rt, c = target_contract()
    c_cr = creation_code(c_rt)
    K = p["K"]
    isig = "invariant_count()"

    def t_items(tail_off):
        it = l3.dispatcher([("setUp()", "S"), (isig, "I")])
        it += [("label", "S"), "POP", ("pushn", 2, len(c_cr)), ("pushn", 2, tail_off), "PUSH0", "CODECOPY",
               ("pushn", 2, len(c_cr)), "PUSH0", "PUSH0", "CREATE", "PUSH0", "SSTORE", "STOP"]
        # staticcall C.count(): mem[0..4] = selector; out at 0x20
        it += [("label", "I"), "POP", ("pushn", 32, l3.sel_int("count()") << 224), "PUSH0", "MSTORE",
               ("push", 32), ("push", 32), ("push", 4), "PUSH0", "PUSH0", "SLOAD", ("pushn", 3, 0xFFFFFF), "STATICCALL", "POP",
               ("push", 32), "MLOAD", ("push", K), "EQ", ("ref", "P"), "JUMPI", "STOP", ("label", "P")] + l3.panic_items(1)
        return it + [("raw", c_cr)]

    tmp = assemble(t_items(0))
    off = len(tmp) - len(c_cr)
    t_rt = assemble(t_items(off))
    assert t_rt[off:] == c_cr
    t = l3.Contract("T", [("setUp", []), ("invariant_count", [])], t_rt)
    return {"contracts": [t, c], "test": isig, "truth": "invariant", "K": K, "concrete_loop": False}


BUILDERS = {"regular": build_regular, "depth": build_depth, "width": build_width, "setup": build_setup, "invariant": build_invariant}


def build(case):
    return BUILDERS[case["family"]](case["params"])


# ----------------------------------------------------------------------------- generator

def gen_cases(r, tier):
    cases = []
    loops = [1, 2, 4]
    forms = ["while", "while_not", "countdown"]
    # concrete trip counts: never cut, whatever --loop (every loop form with n above the bound)
    if tier == "quick":
        consts = [(0, 1, "while"), (1, 2, "while_not"), (3, 1, "while"), (3, 2, "countdown"), (9, 1, "countdown"), (9, 2, "while"), (3, 2, "while_not"), (1, 1, "countdown")]
    else:
        consts = [(n, L, f) for n in [0, 1, 2, 3, 5, 9, 17, 40] for L in loops for f in forms if (n + L + forms.index(f)) % 2 == 0 or n in (3, 9)]
    for n, L, form in consts:
        cases.append({"family": "regular", "params": {"trip": ["const", n], "form": form, "K": n, "body": r.choice(["none", "storage"])}, "options": ["--loop", str(L)]})
    for n in ([3, 6] if tier == "quick" else [1, 3, 6, 12]):
        cases.append({"family": "regular", "params": {"trip": ["pinned", n], "form": forms[n % 3], "K": n, "body": "none"}, "options": ["--loop", "1"]})
    # pinned by a range: the solver (not the syntax) makes the condition constant
    for n, L, form in ([(3, 1, "while"), (4, 2, "while_not"), (3, 2, "countdown")] if tier == "quick" else
                       [(n, L, f) for n in (0, 1, 3, 4, 7) for L in (1, 2) for f in forms]):
        cases.append({"family": "regular", "params": {"trip": ["pinned_range", n], "form": form, "K": n, "body": "none"}, "options": ["--loop", str(L)]})
    # symbolic trip counts: K below / at / above the bound
    trips = [["arg"], ["and", 7], ["mod", 6]]
    for L in loops:
        for K in sorted({0, L - 1, L, L + 1, L + 3} - {-1}):
            if tier == "quick" and K not in (L, L + 1):
                continue
            trip = trips[(L + K) % 3]
            if trip[0] == "and" and K > 7 or trip[0] == "mod" and K > 5:
                trip = ["arg"]
            cases.append({"family": "regular", "params": {"trip": trip, "form": forms[(K + L) % 3], "K": K, "body": "none"}, "options": ["--loop", str(L)]})
    # --depth
    for n, d in ([(20, 60), (20, 100000)] if tier == "quick" else [(20, 30), (20, 60), (20, 150), (20, 260), (20, 100000), (5, 80), (5, 40)]):
        cases.append({"family": "depth", "params": {"n": n, "shape": "after"}, "options": ["--depth", str(d), "--loop", "2"]})
    for shape in ("short_fallthrough", "short_taken"):
        for d in ([60] if tier == "quick" else [40, 60, 120, 100000]):
            cases.append({"family": "depth", "params": {"n": 20, "shape": shape}, "options": ["--depth", str(d)]})
    # --width
    for k, w in ([(3, 3), (3, 0)] if tier == "quick" else [(3, 1), (3, 3), (3, 7), (3, 8), (3, 0), (2, 2), (2, 4), (4, 5)]):
        for pattern in ([0, (1 << k) - 1] if tier != "quick" else [(1 << k) - 1]):
            cases.append({"family": "width", "params": {"k": k, "pattern": pattern}, "options": ["--width", str(w)]})
    # setUp
    for K, L in ([(3, 2)] if tier == "quick" else [(3, 1), (3, 2), (5, 4), (2, 4)]):
        cases.append({"family": "setup", "params": {"K": K, "form": "while"}, "options": ["--loop", str(L)]})
    # invariant target
    for K, L in ([(7, 2)] if tier == "quick" else [(7, 2), (5, 1), (2, 2), (9, 4)]):
        cases.append({"family": "invariant", "params": {"K": K}, "options": ["--loop", str(L), "--invariant-depth", "2"]})
    return cases
