"""Scenario corpus for the L2 ties: assembled programs + symbolic input layout + options."""
from harness import asm, progen

THIS = 0x7FA9385BE102AC3EAC297483DD6233D62B3E1496
POOL_ADDRS = [0x1000, 0x2000, 0x3000]

PROFILES = {
    "straight": dict(features={"arith", "env"}, nstmts=(1, 3), depth=1),
    "branch": dict(features={"arith", "env", "branch", "mem"}, nstmts=(1, 3), depth=2),
    "memory": dict(features={"arith", "mem", "branch"}, nstmts=(2, 4), depth=1),
    "storage": dict(features={"arith", "storage", "branch"}, nstmts=(2, 4), depth=1),
    "hash": dict(features={"arith", "storage", "sha3", "mem"}, nstmts=(2, 4), depth=1),
    "log": dict(features={"arith", "log", "mem", "branch"}, nstmts=(1, 3), depth=1),
    "loop": dict(features={"arith", "loop", "storage", "mem"}, nstmts=(1, 2), depth=1),
    "call": dict(features={"arith", "call", "storage", "mem", "env"}, nstmts=(1, 3), depth=1),
    "create": dict(features={"arith", "create", "mem", "env"}, nstmts=(2, 4), depth=1),
    # profiles added after the seeded-change campaign (see DESIGN.md, section 11)
    "opgrid": dict(features=set(), nstmts=(5, 8), depth=0),
    "symtarget": dict(features={"arith", "symcall", "call", "mem"}, nstmts=(1, 3), depth=1, branchy=0.3),
    "valuecall": dict(features={"arith", "valuecall", "call", "branch", "mem"}, nstmts=(1, 3), depth=1, branchy=0.3),
    "corr": dict(features={"arith", "corr", "mem", "storage"}, nstmts=(1, 3), depth=1),
    "stackops": dict(features={"arith", "stackops", "mem", "env"}, nstmts=(1, 3), depth=0),
    "hashcond": dict(features={"arith", "sha3", "hashcond", "branch", "mem", "storage"}, nstmts=(1, 3), depth=2),
    # every account's storage is symbolic (svm.enableSymbolicStorage): scalar slots and one-level mappings only
    "symstore": dict(features={"arith", "storage", "sha3", "branch", "mem", "call", "noarrayslot"}, nstmts=(2, 4), depth=2, branchy=0.5, symbolic_storage=True),
    "symloop": dict(features={"arith", "loop", "symloop", "storage", "mem"}, nstmts=(1, 2), depth=1),
    "symjump": dict(features={"arith", "symjump", "mem"}, nstmts=(1, 2), depth=0),
    "callfail": dict(features={"arith", "callfail", "call", "storage"}, nstmts=(1, 3), depth=1, branchy=0.8),
    # CREATE2 (DESIGN.md 10.2.x): creations by the executing account and by callees that create (sender = callee, or the
    # caller under DELEGATECALL / CALLCODE; a creating callee reached by STATICCALL halts)
    "create2": dict(features={"arith", "create2", "mem", "env"}, nstmts=(1, 3), depth=1, c2pool=True),
}


def make(rng, profile, options=None, nargs=2):
    prof = PROFILES[profile]
    if prof.get("c2pool"):
        pool_codes = [asm.assemble(progen.c2_callee(rng, i)) for i in range(len(POOL_ADDRS))]
    elif "branchy" in prof:
        pool_codes = progen.callee_pool(rng, len(POOL_ADDRS), branchy=prof["branchy"])
    else:
        pool_codes = progen.callee_pool(rng, len(POOL_ADDRS)) if "call" in prof["features"] else []
    g = progen.Gen(rng, nargs=nargs, features=prof["features"], pool=POOL_ADDRS if pool_codes else [])
    if profile == "opgrid":
        items = progen.opgrid_program(rng, nargs=nargs, nops=rng.randrange(*prof["nstmts"]))
    else:
        items = g.program(nstmts=rng.randrange(*prof["nstmts"]) if prof["nstmts"][0] < prof["nstmts"][1] else prof["nstmts"][0], depth=prof["depth"])
    code = asm.assemble(items)
    accounts = {THIS: {"code": code}}
    for a, c in zip(POOL_ADDRS, pool_codes):
        accounts[a] = {"code": c}
    calldata = [("c", b"\x12\x34\x56\x78")] + [("s", f"arg{i}", 32) for i in range(nargs)]
    return {"profile": profile, "accounts": accounts, "this": THIS, "calldata": calldata,
            "static": False, "options": dict(options or {}), "symbolic_storage": bool(prof.get("symbolic_storage"))}


def describe(scn):
    return {"profile": scn["profile"], "code": scn["accounts"][scn["this"]]["code"].hex(),
            "callees": {hex(a): acc["code"].hex() for a, acc in scn["accounts"].items() if a != scn["this"]},
            "options": scn["options"], "static": scn.get("static", False), "symbolic_storage": bool(scn.get("symbolic_storage"))}


def from_description(d):
    accounts = {THIS: {"code": bytes.fromhex(d["code"])}}
    for a, c in d.get("callees", {}).items():
        accounts[int(a, 16)] = {"code": bytes.fromhex(c)}
    nargs = d.get("nargs", 2)
    return {"profile": d.get("profile", "replay"), "accounts": accounts, "this": THIS,
            "calldata": [("c", b"\x12\x34\x56\x78")] + [("s", f"arg{i}", 32) for i in range(nargs)],
            "static": d.get("static", False), "options": d.get("options", {}), "symbolic_storage": bool(d.get("symbolic_storage")),
            "extra_args": d.get("extra_args", [])}     # argument valuations a corpus entry insists on (l2tie.derive_inputs)


BOOL_OPS = {0x10, 0x11, 0x12, 0x13, 0x14, 0x15}


def static_features(code: bytes):
    """syntactic features of a program, used as signatures of known findings"""
    feats = set()
    pc, prev = 0, None
    while pc < len(code):
        op = code[pc]
        if prev in BOOL_OPS and op == 0x19:
            feats.add("NOT-after-boolean-op")
        if op == 0x59:
            feats.add("MSIZE")
        if op == 0x3C:
            feats.add("EXTCODECOPY")
        if op == 0x3E:
            feats.add("RETURNDATACOPY")
        prev = op
        pc += (op - 0x5F + 1) if 0x60 <= op <= 0x7F else 1
    return sorted(feats)
