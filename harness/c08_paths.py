"""C08 helpers about the *path side* of the storage machinery.

halmos does not give the initial (`storage_..._00`) arrays of a non-symbolic account a
value: they are uninterpreted SMT arrays, and a load's zero default comes only from the
per-index emptiness axioms `Select(<initial array>, key) == 0` that load() appends to the
path (plus select()'s short cut when the chain is walked down to the initial array).
So "a never-written location reads as zero" is a statement about EVERY model of the path
condition, not about the all-zero interpretation of the initial arrays.

  * interpretations(): evaluate a reported path under interpretations of the initial arrays
    that are only as constrained as the path makes them (a non-zero default everywhere
    except at the indices an emptiness axiom mentions);
  * classify_conditions(): the storage axioms a path contains (array definitions, emptiness
    axioms) in a form comparable with the extracted model's `path` list.
"""
import re

import z3

from harness import zeval

EMPTY_RE = re.compile(r"^storage_.+_00$")
SENTINELS = (0x5EED5EED5EED5EED5EED5EED5EED5EED5EED5EED5EED5EED5EED5EED5EED5EED, 1)


def is_initial_array(t):
    return (z3.is_array(t) and z3.is_const(t) and t.decl().kind() == z3.Z3_OP_UNINTERPRETED
            and EMPTY_RE.match(t.decl().name()) is not None)


def split_empty_axiom(c):
    """c is `Select(A_00, k) == 0` (either orientation) -> (A_00, k) else None"""
    if not z3.is_eq(c):
        return None
    for a, b in ((c.arg(0), c.arg(1)), (c.arg(1), c.arg(0))):
        if z3.is_select(a) and is_initial_array(a.arg(0)) and z3.is_bv_value(b) and b.as_long() == 0:
            return a.arg(0), a.arg(1)
    return None


def split_array_def(c):
    """c is `ArrayVar == Store(base, k, v)` -> (var, base, k, v) else None"""
    if not (z3.is_eq(c) and z3.is_array(c.arg(0))):
        return None
    for a, b in ((c.arg(0), c.arg(1)), (c.arg(1), c.arg(0))):
        if z3.is_const(a) and a.decl().kind() == z3.Z3_OP_UNINTERPRETED and z3.is_store(b):
            return a, b.arg(0), b.arg(1), b.arg(2)
    return None


def initial_arrays(terms):
    """names of the initial arrays mentioned anywhere in the terms"""
    out, seen = {}, set()
    todo = [t for t in terms if isinstance(t, z3.ExprRef)]
    while todo:
        x = todo.pop()
        if x.get_id() in seen:
            continue
        seen.add(x.get_id())
        if is_initial_array(x):
            out[x.decl().name()] = x
        elif z3.is_app(x):
            todo.extend(x.children())
    return out


def evaluator_under(p, inp, default):
    """Evaluator for PathRecord p under input inp in which every initial storage array is
    `default` everywhere except at the (evaluated) indices of the path's emptiness axioms,
    where it is 0.  default = 0 is the interpretation zeval assumes by itself."""
    ev = p.evaluator(inp)
    if default == 0:
        return ev
    plain = p.evaluator(inp)     # indices of emptiness axioms never depend on the arrays themselves
    arrays = {name: {} for name in initial_arrays(list(p.conditions) + ([p.ret] if not isinstance(p.ret, bytes) else []))}
    for c in p.conditions:
        ax = split_empty_axiom(c)
        if ax is not None:
            arr, k = ax
            arrays.setdefault(arr.decl().name(), {})[plain.ev(k)] = 0
    for name, d in arrays.items():
        ev.env[name] = (d, default)
    return ev


def holds_under(p, inp, default):
    """like PathRecord.holds, under evaluator_under(default)"""
    try:
        ev = evaluator_under(p, inp, default)
        rest = ev.define_arrays(p.conditions)
        for c in rest:
            if not ev.holds(c):
                return False, ev
        return True, ev
    except zeval.Unknown as e:
        return None, str(e)
