"""C08 helpers about the *path side* of the storage machinery.

halmos does not give the initial (`storage_..._00`) arrays of a non-symbolic account a
value: they are uninterpreted SMT arrays, and a load's zero default comes only from the
per-index emptiness axioms `Select(<initial array>, key) == 0` that load() appends to the
path (plus select()'s short cut when the chain is walked down to the initial array).
So "a never-written location reads as zero" is a statement about EVERY model of the path
condition, not about the all-zero interpretation of the initial arrays.

  * interpretations(): evaluate a reported path under interpretations of the initial arrays
    that are only as constrained as the path makes them (a non-zero default everywhere
    except at the indices an emptiness axiom mentions);
  * classify_conditions(): the storage axioms a path contains (array definitions, emptiness
    axioms) in a form comparable with the extracted model's `path` list.
"""
import re

import z3

from harness import zeval

EMPTY_RE = re.compile(r"^storage_.+_00$")
SENTINELS = (0x5EED5EED5EED5EED5EED5EED5EED5EED5EED5EED5EED5EED5EED5EED5EED5EED, 1)


def is_initial_array(t):
    return (z3.is_array(t) and z3.is_const(t) and t.decl().kind() == z3.Z3_OP_UNINTERPRETED
            and EMPTY_RE.match(t.decl().name()) is not None)


def split_empty_axiom(c):
    """c is `Select(A_00, k) == 0` (either orientation) -> (A_00, k) else None"""
    if not z3.is_eq(c):
        return None
    for a, b in ((c.arg(0), c.arg(1)), (c.arg(1), c.arg(0))):
        if z3.is_select(a) and is_initial_array(a.arg(0)) and z3.is_bv_value(b) and b.as_long() == 0:
            return a.arg(0), a.arg(1)
    return None


def split_array_def(c):
    """c is `ArrayVar == Store(base, k, v)` -> (var, base, k, v) else None"""
    if not (z3.is_eq(c) and z3.is_array(c.arg(0))):
        return None
    for a, b in ((c.arg(0), c.arg(1)), (c.arg(1), c.arg(0))):
        if z3.is_const(a) and a.decl().kind() == z3.Z3_OP_UNINTERPRETED and z3.is_store(b):
            return a, b.arg(0), b.arg(1), b.arg(2)
    return None


def initial_arrays(terms):
    """names of the initial arrays mentioned anywhere in the terms"""
    out, seen = {}, set()
    todo = [t for t in terms if isinstance(t, z3.ExprRef)]
    while todo:
        x = todo.pop()
        if x.get_id() in seen:
            continue
        seen.add(x.get_id())
        if is_initial_array(x):
            out[x.decl().name()] = x
        elif z3.is_app(x):
            todo.extend(x.children())
    return out


def evaluator_under(p, inp, default):
    """Evaluator for PathRecord p under input inp in which every initial storage array is
    `default` everywhere except at the (evaluated) indices of the path's emptiness axioms,
    where it is 0.  default = 0 is the interpretation zeval assumes by itself."""
    ev = p.evaluator(inp)
    if default == 0:
        return ev
    plain = p.evaluator(inp)     # indices of emptiness axioms never depend on the arrays themselves
    arrays = {name: {} for name in initial_arrays(list(p.conditions) + ([p.ret] if not isinstance(p.ret, bytes) else []))}
    for c in p.conditions:
        ax = split_empty_axiom(c)
        if ax is not None:
            arr, k = ax
            arrays.setdefault(arr.decl().name(), {})[plain.ev(k)] = 0
    for name, d in arrays.items():
        ev.env[name] = (d, default)
    return ev


def holds_under(p, inp, default):
    """like PathRecord.holds, under evaluator_under(default)"""
    try:
        ev = evaluator_under(p, inp, default)
        rest = ev.define_arrays(p.conditions)
        for c in rest:
            if not ev.holds(c):
                return False, ev
        return True, ev
    except zeval.Unknown as e:
        return None, str(e)


# ----------------------------------------------------------------------------- L1d: the path side, real vs model
# Sequences of sstore/sload (or tstore/tload) issued directly on a real Exec through
# SEVM.sstore/SEVM.sload with the real solver, compared with the extracted path-side model
# (c08_pathrun) fed with (a) the decoded chunk of every location, (b) the semantic identity of
# every decoded key, (c) the oracle = what a complete decision procedure answers about two keys.
# Compared: the term every load returns (ZERO / stored value / Select over WHICH array at WHICH
# key / initial scalar) and the storage axioms found in ex.path afterwards, in order (array
# definitions with their number, base array, key, value; emptiness axioms with chunk and key).

PATH_KEYS = [("K", 0), ("K", 5), ("K", 7), ("V", 0), ("V", 1), ("Add", [("V", 0), ("K", 1)]), ("Add", [("K", 1), ("V", 0)])]
SPEC_ENVS = [[5, 7, 0], [0, 5, 5], [4, 6, 1], [6, 4, 9]]      # small, colliding with the constant keys; no wrap-around
FP_ENVS = [[3, 4, 9], [0x1234567, 5, (1 << 255) + 12345], [(1 << 256) - 1, 0, 77]]


def gen_path_case(r):
    def key():
        return r.choice(PATH_KEYS)

    def loc():
        c = r.random()
        if c < 0.4:
            return ("S512", key(), ("K", r.choice([1, 1, 2])))
        if c < 0.65:
            k = key()
            base = ("S256", ("K", 3))
            return base if k == ("K", 0) and r.random() < 0.5 else ("Add", [base, k])
        if c < 0.8:
            return ("S512", key(), ("S512", key(), ("K", 4)))
        return ("K", r.choice([0, 0, 9]))

    pool = [loc() for _ in range(r.randint(2, 4))]
    ops = []
    nv = 0
    for _ in range(r.randint(3, 8)):
        t = r.choice(pool) if r.random() < 0.85 else loc()
        if r.random() < 0.5:
            nv += 1
            ops.append(("store", t, 100 + nv))
        else:
            ops.append(("load", t))
    ops.append(("load", r.choice(pool)))
    return {"layout": r.choice(["solidity", "generic"]), "sym": r.random() < 0.25, "transient": r.random() < 0.25, "ops": ops}


def _arr_code(arr):
    name = arr.decl().name()
    f = name.split("_")
    if f[0] != "storage":
        return ["?arr", name, 0, 0]
    if f[-1] == "00":
        if len(f) == 6:
            return [0, int(f[2]), int(f[3]), int(f[4])]
        if len(f) == 4:
            return [0, -1, 1, int(f[2])]
        return ["?arr", name, 0, 0]
    return [1, name, 0, 0]      # renumbered by order of definition in the path (real_pathrun)


def real_pathrun(case, lib):
    """-> dict(model_input, results, path, other_conditions) from the real code; lib = harness.c08_lib"""
    import z3 as Z

    from halmos.__main__ import mk_solver
    from halmos.bitvec import HalmosBitVec as BV
    from halmos.calldata import FunctionInfo
    from halmos.mapper import BuildOut
    from halmos.sevm import SEVM, GenericStorage, SolidityStorage
    from halmos.utils import con_addr
    from halmos.utils import concat as hconcat

    from harness import engine, scenarios

    if BuildOut()._build_out_map is None:
        BuildOut().set_build_out({})
    scn = {"profile": "c08", "accounts": {scenarios.THIS: {"code": b"\x00"}}, "this": scenarios.THIS,
           "calldata": [("c", b"\x12\x34\x56\x78")], "static": False, "options": {"storage_layout": case["layout"]}}
    opts = engine.make_options(scn["options"])
    sevm = SEVM(opts, FunctionInfo("T", "test", "test()", "f8a8fd6d"))
    ex = engine.build_exec(scn, sevm, mk_solver(opts))
    this = con_addr(scenarios.THIS)
    transient = bool(case.get("transient"))
    store = ex.transient_storage if transient else ex.storage
    if case["sym"]:
        store[this].symbolic = True
    evs = [zeval.Evaluator(lib.z3_env(env)) for env in FP_ENVS]
    keep = []

    # ---- pre-pass: chunk and key of every location, through the real decoders
    fps, reps = {}, []

    def key_id(k):
        fp = (k.size(),) + tuple(ev.ev(k) for ev in evs)
        if fp not in fps:
            fps[fp] = len(reps)
            reps.append(k)
        return fps[fp]

    decoded = {}
    for op in case["ops"]:
        t = op[1]
        if repr(t) in decoded:
            continue
        z = BV(lib.to_z3(t), size=256).as_z3()     # the term SEVM.sload/sstore hand to the storage model
        keep.append(z)
        if case["layout"] == "solidity":
            slot, keys, n, sz = SolidityStorage.get_key_structure(ex, z)
            k = hconcat(keys) if n else None
            chunk = (slot, n, sz)
        else:
            k = GenericStorage.decode(ex, z)
            chunk = (-1, 1, k.size())
        keep.append(k)
        decoded[repr(t)] = (z, chunk, None if k is None else key_id(k), 0 if k is None else int(Z.is_bv_value(Z.simplify(k))), k)
    kterms = [decoded[repr(op[1])][4] for op in case["ops"]]
    n0 = len(reps)

    # ---- the oracle: what a complete procedure says about two keys (no path constraint
    # mentions the symbolic words, so the path cannot decide more)
    def orc(i, j):
        a, b = reps[i], reps[j]
        if a.size() != b.size():
            return 2
        if a.eq(b):
            return 0
        s = Z.Solver()
        s.add(a == b)
        if s.check() == Z.unsat:
            return 1
        s = Z.Solver()
        s.add(a != b)
        if s.check() == Z.unsat:
            return 0
        return 2

    # ---- run, recording what Exec.check answers inside Exec.select (under load the solver may
    # time out: the real oracle is sound but need not be complete, nor constant over time)
    rec, cur = {}, [None]
    orig_check = ex.check

    def recording_check(cond):
        res = orig_check(cond)
        if cur[0] is not None:
            neg = Z.is_not(cond) or Z.is_distinct(cond)
            inner = cond.arg(0) if Z.is_not(cond) else cond
            if (Z.is_eq(inner) or Z.is_distinct(inner)) and inner.num_args() == 2 and Z.is_bv(inner.arg(1)):
                # z3 orders the arguments of an equality itself (numerals first): key0 is the side
                # that is not the key being loaded
                a0, a1 = inner.arg(0), inner.arg(1)
                lk = kterms[cur[0]]
                k0 = key_id(a0 if (lk is not None and a1.eq(lk) and not a0.eq(lk)) else a1)
                d = rec.setdefault(cur[0], {})
                if res == Z.unsat:
                    d[k0] = 0 if neg else 1     # check(key != key0) unsat: MustEq; check(key == key0) unsat: MustNeq
                else:
                    d.setdefault(k0, 2)
        return res

    ex.check = recording_check
    results, loaded = [], []
    for t, op in enumerate(case["ops"]):
        cur[0] = t if op[0] == "load" else None
        z, chunk, kid, kv, _k = decoded[repr(op[1])]
        if op[0] == "store":
            sevm.sstore(ex, this, BV(z, size=256), BV(op[2], size=256), transient)
        else:
            v = sevm.sload(ex, this, BV(z, size=256), transient)
            v = v.as_z3() if hasattr(v, "as_z3") else v
            keep.append(v)
            loaded.append(v)
            if isinstance(v, int):
                results.append([0] if v == 0 else [1, v])
            elif Z.is_bv_value(v):
                results.append([0] if v.as_long() == 0 else [1, v.as_long()])
            elif Z.is_select(v):
                results.append([2] + _arr_code(v.arg(0)) + [key_id(v.arg(1))])
            elif Z.is_const(v) and v.decl().name().startswith("storage_") and v.decl().name().endswith("_00"):
                f = v.decl().name().split("_")
                results.append([3, int(f[2]), int(f[3]), int(f[4])])
            else:
                results.append(["?", str(v)[:80]])
    path, other = [], 0
    order = {}      # array variable name -> its rank among the definitions in the path (the names' own numbers are cosmetic)
    for c in ex.path.conditions:
        d = split_array_def(c)
        if d is not None:
            order.setdefault(d[0].decl().name(), len(order) + 1)

    def renum(code):
        return [order.get(x, -1) if isinstance(x, str) and x.startswith("storage_") else x for x in code]

    results = [renum(rr) for rr in results]
    for c in ex.path.conditions:
        d = split_array_def(c)
        if d is not None:
            var, base, k, v = d
            path.append(renum([10, _arr_code(var)[1]] + _arr_code(base) + [key_id(k), v.as_long() if Z.is_bv_value(v) else -1]))
            continue
        ea = split_empty_axiom(c)
        if ea is not None:
            path.append([11] + _arr_code(ea[0])[1:] + [key_id(ea[1])])
            continue
        other += 1
    # ---- spec leg (non-symbolic accounts): under valuations of the symbolic words AND an
    # interpretation of the initial arrays that is only as constrained as the path makes it,
    # every load must return what the EVM's flat zero-initialised array returns
    # symbolic accounts: the initial contents are unconstrained, so the path must hold, and the
    # loads must return the initial value of never-written slots, for an arbitrary initial state
    spec_fails = []
    conds = list(ex.path.conditions)
    if True:
        for env in SPEC_ENVS:
            for default in ((SENTINELS[0],) if case["sym"] else (0, SENTINELS[0])):
                plain = zeval.Evaluator(lib.z3_env(env))
                ev = zeval.Evaluator(lib.z3_env(env))
                if default:
                    arrays = {name: {} for name in initial_arrays(conds + loaded)}
                    for c in conds:
                        ax = split_empty_axiom(c)
                        if ax is not None and not case["sym"]:
                            arrays.setdefault(ax[0].decl().name(), {})[plain.ev(ax[1])] = 0
                    for name, d in arrays.items():
                        ev.env[name] = (d, default)
                    for name, t in zeval.free_consts(conds + [v for v in loaded if isinstance(v, Z.ExprRef)]).items():
                        if Z.is_bv(t) and EMPTY_RE.match(name):
                            ev.env[name] = default          # initial value of a scalar chunk (symbolic account)
                try:
                    rest = ev.define_arrays(conds)
                    if not all(ev.holds(c) for c in rest):
                        if case["sym"]:
                            bad = next(c for c in rest if not ev.holds(c))
                            spec_fails.append({"env": env, "error": f"the path of a SYMBOLIC account constrains its initial storage: condition {str(bad)[:160]} fails when every initial word is {hex(default)}"})
                        continue
                    got = [ev.ev(v) for v in loaded]
                except zeval.Unknown as e:
                    spec_fails.append({"env": env, "error": f"cannot evaluate: {e}"})
                    continue
                flat, expect = {}, []
                for op in case["ops"]:
                    a = lib.spec_eval(op[1], env)
                    if op[0] == "store":
                        flat[a] = op[2]
                    else:
                        expect.append(flat.get(a, default if case["sym"] else 0))
                if got != expect:
                    spec_fails.append({"env": env, "halmos": got, "flat": expect,
                                       "initial_arrays": "all zero" if not default else f"{hex(default)} everywhere (symbolic account)" if case["sym"] else f"{hex(default)} wherever the path has no emptiness axiom"})
    nk = len(reps)
    ops = case["ops"]
    dec = [decoded[repr(op[1])] for op in ops]

    def answer(t, s_):
        """what select was told when the load at op t met the store at op s_"""
        if not (ops[t][0] == "load" and ops[s_][0] == "store" and s_ < t) or dec[t][2] is None or dec[s_][2] is None:
            return 2
        if kterms[t].eq(kterms[s_]):
            return 0                                     # structural equality: no solver call
        if dec[s_][2] in rec.get(t, {}):
            return rec[t][dec[s_][2]]
        return orc(dec[t][2], dec[s_][2])               # never asked on the real side

    minp = [0 if case["layout"] == "solidity" else 1, int(bool(case["sym"])), len(ops)] + [answer(t, s_) for t in range(len(ops)) for s_ in range(len(ops))]
    for op in case["ops"]:
        z, chunk, kid, kv, _k = decoded[repr(op[1])]
        minp += [0 if op[0] == "store" else 1, chunk[0], chunk[1], chunk[2], kid or 0, kv] + ([op[2]] if op[0] == "store" else [])
    return {"model_input": minp, "results": results, "path": path, "other_conditions": other, "new_keys_at_runtime": nk - n0,
            "spec_fails": spec_fails, "oracle_record": {str(t): dict(d) for t, d in rec.items()}}


def parse_model_pathrun(out):
    """c08_pathrun output -> (results, path) in real_pathrun's shape (path deduplicated like Path.append does)"""
    if -1 not in out:
        return None, None
    i, results = 0, []
    while out[i] != -1:
        n = {0: 1, 1: 2, 2: 6, 3: 4}.get(out[i])
        if n is None:
            return None, None
        results.append(out[i:i + n])
        i += n
    i += 1
    path = []
    while i < len(out):
        n = {10: 8, 11: 5}.get(out[i])
        if n is None:
            return None, None
        ax = out[i:i + n]
        if ax not in path:
            path.append(ax)
        i += n
    return results, path
