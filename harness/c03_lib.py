"""C03 test-contract grammar: guarded assertion failures.

A test function is described by a JSON-able dict
    {"name": "check_t0", "params": [abi types], "clauses": [[cond, action], ...]}
meaning  `if (cond_0) action_0; if (cond_1) action_1; ...; STOP`  (every action ends the call).
A contract = {"setup": [[slot, value], ...], "tests": [test, ...]}: `setUp()` writes the slots.
Optional: contract["msetup"] = [[m, key, value], ...] -- setUp() also writes mapping_m[key] = value (in this order);
test["pre"] = [[m, keyexpr, valexpr], ...] -- the test first writes mapping_m[<key>] = <value> (symbolic keys allowed).

Expressions (256-bit words):
    ["arg", i]  static parameter i            ["len", i]  length word of dynamic parameter i
    ["elem", i, j]  j-th element of T[] i     ["word", i, j]  j-th 32-byte word of bytes i
    ["const", c]  ["sload", slot]  ["cdsize"]
    ["mapread", m, key]  the mapping at slot m read at <key>: SLOAD(keccak256(key . m))
    [op, a, b] for op in add sub mul div mod sdiv smod and or xor shl shr (shl/shr: value a, shift b)
    ["not", a]
Conditions:
    ["eq"|"lt"|"gt"|"slt"|"sgt", a, b]  ["iszero", a]  ["bit", a, k]  ["cand"|"cor", c, d]  ["cnot", c]
Actions:
    ["panic", k]            revert Panic(k) (36 bytes)
    ["panic_sym", i]        revert Panic(<static parameter i>)  -- symbolic panic code (hand-made only)
    ["panic_len", n, k]     revert with n bytes starting like Panic(k) (n != 36: not a Panic)
    ["error_sel", sel, k]   36 bytes with another selector
    ["revert_word", i]      revert with <static parameter i> ++ 00000000 (symbolic selector, hand-made only)
    ["fail"]                DSTest.fail() then STOP        ["revert"]  ["invalid"]  ["stop"]

Three renderings of the same description: EVM code (harness/asm.py items), z3 formula (oracle
search), and candidate inputs for the brute-force oracle.  Ground truth is always the extracted
reference interpreter on the canonical ABI encoding of the candidate.
"""
import itertools

from harness import l3
from harness.asm import assemble

M = 1 << 256
BINOPS = {"add": "ADD", "sub": "SUB", "mul": "MUL", "div": "DIV", "mod": "MOD", "sdiv": "SDIV", "smod": "SMOD",
          "and": "AND", "or": "OR", "xor": "XOR"}
CMPS = {"eq": "EQ", "lt": "LT", "gt": "GT", "slt": "SLT", "sgt": "SGT"}


def sig_of(test):
    return f"{test['name']}({','.join(test['params'])})"


# ----------------------------------------------------------------------------- EVM rendering

def head_off(i):
    return 4 + 32 * i


def map_slot_items(m):
    """[key] -> [keccak256(key . m)]  (memory 0..0x40 is scratch)"""
    return ["PUSH0", "MSTORE", ("push", m), ("push", 0x20), "MSTORE", ("push", 0x40), "PUSH0", "SHA3"]


def compile_expr(e):
    k = e[0]
    if k == "arg":
        return [("push", head_off(e[1])), "CALLDATALOAD"]
    if k == "len":
        return [("push", head_off(e[1])), "CALLDATALOAD", ("push", 4), "ADD", "CALLDATALOAD"]
    if k in ("elem", "word"):
        return [("push", head_off(e[1])), "CALLDATALOAD", ("push", 4 + 32 + 32 * e[2]), "ADD", "CALLDATALOAD"]
    if k == "const":
        return [("push", e[1] % M)]
    if k == "sload":
        return [("push", e[1]), "SLOAD"]
    if k == "cdsize":
        return ["CALLDATASIZE"]
    if k == "mapread":
        return compile_expr(e[2]) + map_slot_items(e[1]) + ["SLOAD"]
    if k in BINOPS:
        return compile_expr(e[2]) + compile_expr(e[1]) + [BINOPS[k]]
    if k in ("shl", "shr"):
        return compile_expr(e[1]) + compile_expr(e[2]) + [k.upper()]
    if k == "not":
        return compile_expr(e[1]) + ["NOT"]
    raise ValueError(e)


def compile_cond(c):
    """leaves 0 / 1 on the stack"""
    k = c[0]
    if k in CMPS:
        return compile_expr(c[2]) + compile_expr(c[1]) + [CMPS[k]]
    if k == "iszero":
        return compile_expr(c[1]) + ["ISZERO"]
    if k == "bit":
        return compile_expr(c[1]) + [("push", 1 << c[2]), "AND", "ISZERO", "ISZERO"]
    if k == "cand":
        return compile_cond(c[1]) + compile_cond(c[2]) + ["AND"]
    if k == "cor":
        return compile_cond(c[1]) + compile_cond(c[2]) + ["OR"]
    if k == "cnot":
        return compile_cond(c[1]) + ["ISZERO"]
    raise ValueError(c)


def compile_action(a):
    k = a[0]
    if k == "panic":
        return l3.panic_items(a[1])
    if k == "panic_sym":
        return l3.panic_items([("push", head_off(a[1])), "CALLDATALOAD"])
    if k == "panic_len":
        n, code = a[1], a[2]
        data = (l3.PANIC_SELECTOR.to_bytes(4, "big") + code.to_bytes(32, "big") + b"\0" * 64)[:n]
        return l3.revert_raw_items(data)
    if k == "error_sel":
        return l3.revert_raw_items(a[1].to_bytes(4, "big") + a[2].to_bytes(32, "big"))
    if k == "fail":
        return l3.hevm_fail_items() + ["STOP"]
    if k == "revert_word":
        # 36 bytes: the 32-byte parameter followed by 4 zero bytes (selector AND code symbolic)
        return [("push", head_off(a[1])), "CALLDATALOAD", "PUSH0", "MSTORE", ("push", 0x24), "PUSH0", "REVERT"]
    if k == "revert":
        return ["PUSH0", "PUSH0", "REVERT"]
    if k == "invalid":
        return ["INVALID"]
    if k == "stop":
        return ["STOP"]
    raise ValueError(a)


def compile_contract(desc):
    """-> (runtime bytes, l3.Contract)"""
    tests = desc["tests"]
    funcs = [("setUp()", "L_setup")] + [(sig_of(t), f"L_{t['name']}") for t in tests]
    items = l3.dispatcher(funcs)
    items += [("label", "L_setup"), "POP"]
    for slot, val in desc.get("setup", []):
        items += [("push", val % M), ("push", slot), "SSTORE"]
    for m, key, val in desc.get("msetup", []):
        items += [("push", val % M), ("push", key % M)] + map_slot_items(m) + ["SSTORE"]
    items += ["STOP"]
    for t in tests:
        items += [("label", f"L_{t['name']}"), "POP"]
        for m, ke, ve in t.get("pre", []):
            items += compile_expr(ve) + compile_expr(ke) + map_slot_items(m) + ["SSTORE"]
        for n, (cond, action) in enumerate(t["clauses"]):
            lab = f"N_{t['name']}_{n}"
            items += compile_cond(cond) + ["ISZERO", ("ref", lab), "JUMPI"] + compile_action(action) + [("label", lab)]
        items += ["STOP"]
    rt = assemble(items)
    # "pnames": the ABI names of the parameters (default a0, a1, ...; may be empty or equal: unnamed parameters)
    c = l3.Contract(desc.get("cname", "T"), [("setUp", [])] + [(t["name"], t["params"], t["pnames"]) if t.get("pnames") is not None else (t["name"], t["params"]) for t in tests], rt)
    return rt, c


# ----------------------------------------------------------------------------- concrete evaluation (python rendering of the SPEC)

def to_signed(x):
    return x - M if x >> 255 else x


def storage_of(desc, test=None):
    """{slot: value} plus {("map", m): [(keyexpr, valexpr), ...] oldest first} (setUp's writes, then the test's own)"""
    d = {sl: v % M for sl, v in desc.get("setup", [])}
    for m, key, val in desc.get("msetup", []):
        d.setdefault(("map", m), []).append((["const", key % M], ["const", val % M]))
    for m, ke, ve in (test or {}).get("pre", []):
        d.setdefault(("map", m), []).append((ke, ve))
    return d


def eval_expr(e, env):
    """env: {"args": [values], "storage": {slot: v}, "cdsize": n}; dynamic values are bytes / lists"""
    k = e[0]
    if k == "arg":
        return env["args"][e[1]] % M
    if k == "len":
        return len(env["args"][e[1]])
    if k == "elem":
        v = env["args"][e[1]]
        return v[e[2]] % M if e[2] < len(v) else None
    if k == "word":
        v = bytes(env["args"][e[1]])
        if 32 * (e[2] + 1) <= (len(v) + 31) // 32 * 32:
            return int.from_bytes(v[32 * e[2]:32 * e[2] + 32].ljust(32, b"\0"), "big")
        return None
    if k == "const":
        return e[1] % M
    if k == "sload":
        return env["storage"].get(e[1], 0)
    if k == "mapread":
        key = eval_expr(e[2], env)
        if key is None:
            return None
        out = 0
        for ke, ve in env["storage"].get(("map", e[1]), []):   # oldest first: the last matching write wins
            kk, vv = eval_expr(ke, env), eval_expr(ve, env)
            if kk is None or vv is None:
                return None
            if kk == key:
                out = vv
        return out
    if k == "cdsize":
        return env["cdsize"]
    if k == "not":
        a = eval_expr(e[1], env)
        return None if a is None else (M - 1) ^ a
    a, b = eval_expr(e[1], env), eval_expr(e[2], env)
    if a is None or b is None:
        return None
    if k == "add":
        return (a + b) % M
    if k == "sub":
        return (a - b) % M
    if k == "mul":
        return (a * b) % M
    if k == "div":
        return a // b if b else 0
    if k == "mod":
        return a % b if b else 0
    if k == "sdiv":
        if b == 0:
            return 0
        sa, sb = to_signed(a), to_signed(b)
        q = abs(sa) // abs(sb)
        return (q if (sa < 0) == (sb < 0) else -q) % M
    if k == "smod":
        if b == 0:
            return 0
        sa, sb = to_signed(a), to_signed(b)
        r = abs(sa) % abs(sb)
        return (-r if sa < 0 else r) % M
    if k == "and":
        return a & b
    if k == "or":
        return a | b
    if k == "xor":
        return a ^ b
    if k == "shl":
        return (a << b) % M if b < 256 else 0
    if k == "shr":
        return a >> b if b < 256 else 0
    raise ValueError(e)


def eval_cond(c, env):
    """True / False / None (depends on bytes outside the encoded value)"""
    k = c[0]
    if k in CMPS:
        a, b = eval_expr(c[1], env), eval_expr(c[2], env)
        if a is None or b is None:
            return None
        if k == "eq":
            return a == b
        if k == "lt":
            return a < b
        if k == "gt":
            return a > b
        if k == "slt":
            return to_signed(a) < to_signed(b)
        return to_signed(a) > to_signed(b)
    if k == "iszero":
        a = eval_expr(c[1], env)
        return None if a is None else a == 0
    if k == "bit":
        a = eval_expr(c[1], env)
        return None if a is None else bool(a >> c[2] & 1)
    if k == "cnot":
        a = eval_cond(c[1], env)
        return None if a is None else not a
    a, b = eval_cond(c[1], env), eval_cond(c[2], env)
    if k == "cand":
        if a is False or b is False:
            return False
        return None if a is None or b is None else True
    if k == "cor":
        if a is True or b is True:
            return True
        return None if a is None or b is None else False
    raise ValueError(c)


def action_violates(a, codes, env):
    """does the action make the test FAIL in the sense of C03 (codes: set, empty = any code)"""
    if a[0] == "panic":
        return not codes or a[1] in codes
    if a[0] == "panic_sym":
        v = env["args"][a[1]] % M
        return not codes or v in codes
    if a[0] == "revert_word":
        v = env["args"][a[1]] % M
        return v >> 224 == l3.PANIC_SELECTOR and (not codes or ((v & ((1 << 224) - 1)) << 32) in codes)
    return a[0] == "fail"


def spec_outcome(test, codes, env):
    """python rendering of the intended meaning -> 'violates' | 'ok' | None (undetermined)"""
    for cond, action in test["clauses"]:
        r = eval_cond(cond, env)
        if r is None:
            return None
        if r:
            return "violates" if action_violates(action, codes, env) else "ok"
    return "ok"


# ----------------------------------------------------------------------------- z3 rendering (search only)

def z3_vars(test, bounds):
    import z3

    vs = {}
    for i, t in enumerate(test["params"]):
        if l3.is_dynamic(t):
            vs[("len", i)] = z3.BitVec(f"len{i}", 256)
            mx = max(bounds[i])
            n = mx if t.endswith("[]") else (mx + 31) // 32
            for j in range(min(n, 40)):
                vs[("item", i, j)] = z3.BitVec(f"item{i}_{j}", 256)
        else:
            vs[("arg", i)] = z3.BitVec(f"arg{i}", 256)
    return vs


def z3_expr(e, vs, storage):
    import z3

    k = e[0]
    bv = lambda v: z3.BitVecVal(v % M, 256)  # noqa: E731
    if k == "arg":
        return vs[("arg", e[1])]
    if k == "len":
        return vs[("len", e[1])]
    if k in ("elem", "word"):
        return vs.get(("item", e[1], e[2]), bv(0))
    if k == "const":
        return bv(e[1])
    if k == "sload":
        return bv(storage.get(e[1], 0))
    if k == "mapread":
        key = z3_expr(e[2], vs, storage)
        out = bv(0)
        for ke, ve in storage.get(("map", e[1]), []):
            out = z3.If(z3_expr(ke, vs, storage) == key, z3_expr(ve, vs, storage), out)
        return out
    if k == "cdsize":
        return z3.BitVec("cdsize", 256)
    if k == "not":
        return ~z3_expr(e[1], vs, storage)
    a, b = z3_expr(e[1], vs, storage), z3_expr(e[2], vs, storage)
    zero = bv(0)
    if k == "add":
        return a + b
    if k == "sub":
        return a - b
    if k == "mul":
        return a * b
    if k == "div":
        return z3.If(b == zero, zero, z3.UDiv(a, b))
    if k == "mod":
        return z3.If(b == zero, zero, z3.URem(a, b))
    if k == "sdiv":
        return z3.If(b == zero, zero, a / b)
    if k == "smod":
        return z3.If(b == zero, zero, z3.SRem(a, b))
    if k == "and":
        return a & b
    if k == "or":
        return a | b
    if k == "xor":
        return a ^ b
    if k == "shl":
        return a << b
    if k == "shr":
        return z3.LShR(a, b)
    raise ValueError(e)


def z3_cond(c, vs, storage):
    import z3

    k = c[0]
    if k in CMPS:
        a, b = z3_expr(c[1], vs, storage), z3_expr(c[2], vs, storage)
        return {"eq": lambda: a == b, "lt": lambda: z3.ULT(a, b), "gt": lambda: z3.UGT(a, b),
                "slt": lambda: a < b, "sgt": lambda: a > b}[k]()
    if k == "iszero":
        return z3_expr(c[1], vs, storage) == z3.BitVecVal(0, 256)
    if k == "bit":
        return z3.Extract(c[2], c[2], z3_expr(c[1], vs, storage)) == z3.BitVecVal(1, 1)
    if k == "cand":
        return z3.And(z3_cond(c[1], vs, storage), z3_cond(c[2], vs, storage))
    if k == "cor":
        return z3.Or(z3_cond(c[1], vs, storage), z3_cond(c[2], vs, storage))
    if k == "cnot":
        return z3.Not(z3_cond(c[1], vs, storage))
    raise ValueError(c)


def z3_candidates(test, codes, bounds, storage, n_models=3, timeout_ms=2000):
    """inputs proposed by z3 for `some violating clause fires first` (list of arg-value lists)"""
    import z3

    vs = z3_vars(test, bounds)
    out = []
    earlier = []
    for cond, action in test["clauses"]:
        g = z3_cond(cond, vs, storage)
        viol = None
        if action[0] == "panic" and (not codes or action[1] in codes):
            viol = z3.BoolVal(True)
        elif action[0] == "fail":
            viol = z3.BoolVal(True)
        elif action[0] == "panic_sym":
            a = vs[("arg", action[1])]
            viol = z3.BoolVal(True) if not codes else z3.Or([a == z3.BitVecVal(k, 256) for k in sorted(codes)])
        if viol is not None:
            s = z3.Solver()
            s.set("timeout", timeout_ms)
            s.add(*[z3.Not(x) for x in earlier], g, viol)
            for i, t in enumerate(test["params"]):
                if l3.is_dynamic(t):
                    s.add(z3.Or([vs[("len", i)] == z3.BitVecVal(n, 256) for n in bounds[i]]))
            for _ in range(n_models):
                if s.check() != z3.sat:
                    break
                m = s.model()
                vals = []
                block = []
                for i, t in enumerate(test["params"]):
                    if l3.is_dynamic(t):
                        ln = m.eval(vs[("len", i)], model_completion=True).as_long()
                        if t.endswith("[]"):
                            vals.append([m.eval(vs[("item", i, j)], model_completion=True).as_long() if ("item", i, j) in vs else 0 for j in range(ln)])
                        else:
                            nw = (ln + 31) // 32
                            raw = b"".join((m.eval(vs[("item", i, j)], model_completion=True).as_long() if ("item", i, j) in vs else 0).to_bytes(32, "big") for j in range(nw))
                            vals.append(raw[:ln])
                        block.append(vs[("len", i)] != z3.BitVecVal(ln, 256))
                    else:
                        v = m.eval(vs[("arg", i)], model_completion=True).as_long()
                        vals.append(v)
                        block.append(vs[("arg", i)] != z3.BitVecVal(v, 256))
                out.append(vals)
                if not block:
                    break
                s.add(z3.Or(block))
        earlier.append(g)
    return out


# ----------------------------------------------------------------------------- boundary candidates

def consts_of(x, acc):
    if isinstance(x, list):
        if x and x[0] == "const":
            acc.add(x[1] % M)
        elif x and x[0] == "bit":
            acc.add(1 << x[2])
            consts_of(x[1], acc)
        else:
            for y in x[1:]:
                consts_of(y, acc)
    return acc


def type_range(t):
    if t == "bool":
        return 2
    if t == "address":
        return 1 << 160
    if t.startswith("uint") and t != "uint256" and t[4:].isdigit():
        return 1 << int(t[4:])
    return M


def boundary_candidates(test, bounds, storage, rng, limit=160):
    cs = set()
    for cond, _ in test["clauses"]:
        consts_of(cond, cs)
    for sk, sv in storage.items():
        if isinstance(sk, tuple):
            for ke, ve in sv:
                consts_of(ke, cs)
                consts_of(ve, cs)
        else:
            cs.add(sv)
    base = {0, 1, 2, M - 1, M - 2, 1 << 255, (1 << 255) - 1}
    for c in list(cs):
        base |= {c % M, (c + 1) % M, (c - 1) % M}
    per = []
    for i, t in enumerate(test["params"]):
        if l3.is_dynamic(t):
            opts = []
            for n in bounds[i]:
                if t.endswith("[]"):
                    opts.append([0] * n)
                    for c in sorted(cs)[:4]:
                        opts.append([c] * n)
                        if n:
                            opts.append([c] + [0] * (n - 1))
                else:
                    opts.append(b"\0" * n)
                    for c in sorted(cs)[:4]:
                        opts.append((c.to_bytes(32, "big") * ((n + 31) // 32))[:n])
            per.append(opts)
        else:
            r = type_range(t)
            per.append(sorted(v for v in base if v < r))
    total = 1
    for p in per:
        total *= max(1, len(p))
    if total <= limit:
        return [list(x) for x in itertools.product(*per)]
    return [[rng.choice(p) for p in per] for _ in range(limit)]


# ----------------------------------------------------------------------------- generator

PANIC_CODES = [0x01, 0x11, 0x12, 0x21, 0x32, 0x41, 0x51, 0x00, 0x31]
CODE_OPTIONS = [None, "0x01", "0x11,0x12", "0x01,0x32,0x41", "*", "0x11"]


def parse_codes(opt):
    """--panic-error-codes value -> set of ints (empty set = any)"""
    if opt is None:
        return {1}
    if opt.strip() == "*":
        return set()
    return {int(x, 0) for x in opt.split(",")}


def interesting_const(rng):
    return rng.choice([0, 1, 2, 3, 5, 42, 255, 256, 1000, 65535, 1 << 64, (1 << 128) - 1, 1 << 160, 1 << 255, M - 1, M - 2,
                       rng.getrandbits(8), rng.getrandbits(32), rng.getrandbits(200), rng.getrandbits(256)])


def gen_cond(rng, static_idx, dyn, slots, depth=0):
    """static_idx: indices of static params; dyn: {index: (type, bounds)}; slots: {slot: value}"""
    def atom():
        r = rng.random()
        if static_idx and r < 0.75:
            return ["arg", rng.choice(static_idx)]
        if slots and r < 0.85:
            return ["sload", rng.choice(sorted(slots))]
        if static_idx:
            return ["arg", rng.choice(static_idx)]
        return ["const", interesting_const(rng)]

    kind = rng.choice(["eq_const", "lt", "arith", "arith", "bit", "storage", "dynlen", "dynelem", "and", "or", "muldiv", "shift", "signed"])
    if kind in ("dynlen", "dynelem") and not dyn:
        kind = "eq_const"
    if kind == "storage" and not (slots and static_idx):
        kind = "eq_const"
    if kind in ("and", "or") and depth >= 1:
        kind = "lt"
    if kind == "eq_const":
        return ["eq", atom(), ["const", interesting_const(rng)]]
    if kind == "lt":
        c = ["const", interesting_const(rng)]
        return [rng.choice(["lt", "gt"]), atom(), c] if rng.random() < 0.6 else [rng.choice(["lt", "gt"]), atom(), atom()]
    if kind == "arith":
        op = rng.choice(["add", "sub", "mul", "xor", "and", "or"])
        return ["eq", [op, atom(), rng.choice([atom(), ["const", interesting_const(rng)]])], ["const", interesting_const(rng)]]
    if kind == "muldiv":
        op = rng.choice(["mul", "div", "mod", "sdiv", "smod", "div", "mod"])
        small = ["const", rng.choice([0, 1, 2, 3, 7, 10, 256, 1 << 128])]
        lhs = [op, atom(), rng.choice([small, atom()])]
        return [rng.choice(["eq", "eq", "gt"]), lhs, ["const", rng.choice([0, 1, 3, 5, 12, 1 << 127, interesting_const(rng)])]]
    if kind == "shift":
        return ["eq", [rng.choice(["shl", "shr"]), atom(), ["const", rng.choice([1, 8, 128, 255, 256])]], ["const", rng.choice([0, 1, 2, 256, 1 << 255])]]
    if kind == "signed":
        return [rng.choice(["slt", "sgt"]), atom(), ["const", rng.choice([0, 1, M - 1, 1 << 255, (1 << 255) - 1, 5])]]
    if kind == "bit":
        return ["bit", atom(), rng.choice([0, 1, 7, 8, 63, 128, 255])]
    if kind == "storage":
        s = rng.choice(sorted(slots))
        op = rng.choice(["eq", "lt", "gt"])
        lhs = ["arg", rng.choice(static_idx)]
        rhs = ["sload", s] if rng.random() < 0.6 else ["add", ["sload", s], ["const", rng.choice([0, 1, 2, M - 1])]]
        return [op, lhs, rhs]
    if kind == "dynlen":
        i = rng.choice(sorted(dyn))
        t, bnd = dyn[i]
        n = rng.choice(list(bnd) + [max(bnd) + 1, 3, 64, 66])
        return [rng.choice(["eq", "eq", "gt", "lt"]), ["len", i], ["const", n]]
    if kind == "dynelem":
        i = rng.choice(sorted(dyn))
        t, bnd = dyn[i]
        if t.endswith("[]"):
            j = rng.randrange(0, max(1, max(bnd)))
            need = ["gt", ["len", i], ["const", j]]
            body = ["eq", ["elem", i, j], ["const", interesting_const(rng)]]
        else:
            j = rng.choice([0, 1, 2])
            need = ["gt", ["len", i], ["const", 32 * (j + 1) - 1]]
            body = rng.choice([["eq", ["word", i, j], ["const", interesting_const(rng)]], ["bit", ["word", i, j], rng.choice([0, 255, 100])]])
        return ["cand", need, body]
    a, b = gen_cond(rng, static_idx, dyn, slots, depth + 1), gen_cond(rng, static_idx, dyn, slots, depth + 1)
    return ["cand" if kind == "and" else "cor", a, b]


def gen_action(rng, codes):
    r = rng.random()
    inside = sorted(codes) if codes else PANIC_CODES
    outside = [k for k in PANIC_CODES if codes and k not in codes]
    if r < 0.38:
        return ["panic", rng.choice(inside)]
    if r < 0.55 and outside:
        return ["panic", rng.choice(outside)]
    if r < 0.67:
        return ["fail"]
    if r < 0.75:
        return ["panic_len", rng.choice([35, 37, 4, 68, 32]), rng.choice(inside)]
    if r < 0.81:
        return ["error_sel", rng.choice([0x08C379A0, 0x4E487B70, 0x4E487B72, 0x4E487B71 ^ (1 << 31)]), rng.choice(inside)]
    if r < 0.88:
        return ["revert"]
    if r < 0.93:
        return ["invalid"]
    return ["panic", rng.choice(inside)]


PARAM_SHAPES = [
    ["uint256"], ["uint256", "uint256"], ["uint256", "uint256", "uint256"], ["uint256", "bytes"], ["bytes", "uint256"],
    ["uint256[]"], ["uint256[]", "uint256"], ["uint256", "uint256[]", "bytes"], ["bytes"], ["address", "uint256"],
    ["bool", "uint256"], ["uint8", "uint256"], ["uint256", "string"],
]


def gen_test(rng, name, codes, slots, bytes_bounds, array_bounds, params=None):
    params = params or rng.choice(PARAM_SHAPES)
    static_idx = [i for i, t in enumerate(params) if t == "uint256"]
    dyn = {i: (t, array_bounds if t.endswith("[]") else bytes_bounds) for i, t in enumerate(params) if l3.is_dynamic(t)}
    n = rng.choice([1, 1, 2, 2, 3])
    clauses = [[gen_cond(rng, static_idx, dyn, slots), gen_action(rng, codes)] for _ in range(n)]
    return {"name": name, "params": params, "clauses": clauses}


def gen_contract(rng, n_tests=4, code_opt=None):
    codes = parse_codes(code_opt)
    slots = {}
    for _ in range(rng.choice([0, 1, 2, 3])):
        slots[rng.choice([0, 1, 2, 7, 1 << 128, rng.getrandbits(256)])] = interesting_const(rng)
    bytes_bounds = [0, 65, 1024]
    array_bounds = [0, 1, 2]
    tests = [gen_test(rng, f"check_t{i}", codes, slots, bytes_bounds, array_bounds) for i in range(n_tests)]
    return {"cname": "T", "setup": [[s, v] for s, v in slots.items()], "tests": tests}


# ----------------------------------------------------------------------------- directed families
#
# Classes of tests in which a wrong PASS needs more than one well-behaved step of the pipeline:
#   reread    a calldata word is constrained by `== const` on one branch (which ends benignly) and is READ AGAIN
#             on the sibling branch, where the failure needs a different value          (per-path substitution state)
#   multidyn  several dynamic parameters; the failure needs a COMBINATION of lengths, each possibly different
#             from the first / last candidate explored                                  (per-path size candidates)
#   dynelem   the failure needs a given length AND a given value of the last element / word existing at that length,
#             under length candidates configured in any order (--default-array-lengths 2,1,0, --array-lengths a0={1,3,2})
#                                                                                       (room of the symbolic calldata)
#   identity  `if (!(identity(a, b))) fail` for identities of machine arithmetic that fail only at special points
#             ((a*b)/b == a, a % b < b, ...), narrow / wide operands               (term-level simplifications)
#   twin      two parameters of the same type whose ABI names are empty / equal; the failure needs them to differ
#                                                                                       (one z3 constant per parameter)
#   special   the failure sits at a point where an arithmetic operation has its special-case value (zero divisor,
#             MIN / -1, wrap-around), reached through a symbolic operand                (abstraction + refinement)

BENIGN = [["stop"], ["revert"], ["invalid"], ["panic_len", 35, 1], ["error_sel", 0x08C379A0, 1]]
SPECIAL_OPS = ["div", "mod", "sdiv", "smod", "mul", "mod", "smod"]


def _violating(rng, codes):
    return rng.choice([["panic", rng.choice(sorted(codes) if codes else PANIC_CODES)], ["panic", rng.choice(sorted(codes) if codes else PANIC_CODES)], ["fail"]])


def _benign(rng, codes):
    out = list(BENIGN)
    out += [["panic", k] for k in PANIC_CODES if codes and k not in codes][:2]
    return rng.choice(out)


def gen_reread(rng, name, codes):
    shape = rng.choice([["uint256"], ["uint256", "uint256"], ["uint256[]", "uint256"], ["uint256", "bytes"], ["uint256[]"]])
    statics = [i for i, t in enumerate(shape) if t == "uint256"]
    pre = None
    if statics and (rng.random() < 0.8 or "uint256[]" not in shape):
        atom = ["arg", rng.choice(statics)]
    else:
        i = shape.index("uint256[]")
        atom, pre = ["elem", i, 0], ["gt", ["len", i], ["const", 0]]
    c = rng.choice([1, 2, 5, 42, 255, 1000, 1 << 64, rng.getrandbits(16) + 1, rng.getrandbits(200) + 1])
    kind = rng.choice(["lt", "gt", "eq", "bit", "arith"])
    if kind == "lt":
        rel = ["lt", atom, ["const", rng.choice([c, max(1, c - 1), max(1, c // 2)])]]
    elif kind == "gt":
        rel = ["gt", atom, ["const", rng.choice([c, c + 1, c * 2])]]
    elif kind == "eq":
        rel = ["eq", atom, ["const", rng.choice([c + 1, c - 1, c ^ 0xFF, 0])]]
    elif kind == "bit":
        k = next(b for b in range(256) if not c >> b & 1)
        rel = ["bit", atom, k]
    else:
        d = rng.choice([1, 3, 1 << 128])
        rel = ["eq", ["add", atom, ["const", d]], ["const", (c + d + rng.choice([1, 2, 77])) % M]]
    first = ["eq", atom, ["const", c]]
    if pre:
        first, rel = ["cand", pre, first], ["cand", pre, rel]
    clauses = [[first, _benign(rng, codes)]]
    if rng.random() < 0.3:
        clauses.append([["eq", atom, ["const", (c + 7) % M]] if not pre else ["cand", pre, ["eq", atom, ["const", (c + 7) % M]]], _benign(rng, codes)])
    clauses.append([rel, _violating(rng, codes)])
    return {"name": name, "params": shape, "clauses": clauses}


DEFAULT_LENS = {"array": [0, 1, 2], "bytes": [0, 65, 1024], "by_name": {}}


def bounds_of(lens, i, t):
    """length candidates of dynamic parameter i (halmos names it a<i>): --array-lengths a<i>={...} if given, else the
    default list of its kind; the list is used in the order given"""
    return list((lens.get("by_name") or {}).get(f"a{i}") or (lens["array"] if t.endswith("[]") else lens["bytes"]))


def lens_options(lens):
    """halmos options configuring the candidates"""
    out = []
    if lens["array"] != DEFAULT_LENS["array"]:
        out += ["--default-array-lengths", ",".join(map(str, lens["array"]))]
    if lens["bytes"] != DEFAULT_LENS["bytes"]:
        out += ["--default-bytes-lengths", ",".join(map(str, lens["bytes"]))]
    if lens.get("by_name"):
        out += ["--array-lengths", ",".join(f"{k}={{{','.join(map(str, v))}}}" for k, v in sorted(lens["by_name"].items()))]
    return out


def gen_dynelem(rng, name, codes, lens, pick=None):
    """the failure needs parameter i to have length n (one of its candidates, n > 0) AND its LAST element / word (the
    one that only exists at that length) to have a given non-zero value: the symbolic content must be laid out for
    every candidate, whatever the order in which the candidates are configured"""
    kind = pick[0] if pick is not None else rng.choice(["array", "bytes"])      # pick = (kind of the parameter, index of the candidate)
    shape = rng.choice([["uint256[]"], ["uint256", "uint256[]"], ["uint256[]", "bytes"], ["uint256[]", "uint256"]] if kind == "array" else
                       [["bytes"], ["string"], ["bytes", "uint256"], ["uint256", "string"], ["bytes", "uint256[]"]])
    i = next(k for k, t in enumerate(shape) if l3.is_dynamic(t) and t.endswith("[]") == (kind == "array"))
    t = shape[i]
    cands = [n for n in bounds_of(lens, i, t) if n > 0]
    n = cands[(pick[1] if pick is not None else rng.randrange(len(cands))) % len(cands)]
    if t.endswith("[]"):
        c = rng.choice([42, 1, M - 1, rng.getrandbits(256) | 1])
        body = ["eq", ["elem", i, n - 1], ["const", c]]
    else:
        j = (n - 1) // 32
        k = n - 32 * j                                   # bytes of the last word that belong to the value
        c = (rng.getrandbits(8 * k) | 1) << (8 * (32 - k))
        body = ["eq", ["word", i, j], ["const", c]]
    g = ["cand", ["eq", ["len", i], ["const", n]], body]
    clauses = [[g, _violating(rng, codes)]]
    if rng.random() < 0.3:
        clauses.insert(0, [["gt", ["len", i], ["const", max(bounds_of(lens, i, t))]], _benign(rng, codes)])
    return {"name": name, "params": shape, "clauses": clauses}


def gen_multidyn(rng, name, codes, bytes_bounds, array_bounds, combo=None, lens=None):
    shape = rng.choice([["uint256[]", "uint256[]"], ["bytes", "bytes"], ["uint256[]", "bytes"], ["bytes", "uint256[]"], ["uint256", "uint256[]", "bytes"],
                        ["uint256[]", "uint256", "uint256[]"], ["string", "uint256[]"], ["uint256[]", "uint256[]", "bytes"]])
    dyn = [(i, bounds_of(lens, i, t) if lens else (array_bounds if t.endswith("[]") else bytes_bounds)) for i, t in enumerate(shape) if l3.is_dynamic(t)]
    picks = [(i, (b[combo[k] % len(b)] if combo else rng.choice(b))) for k, (i, b) in enumerate(dyn)]
    conds = [["eq", ["len", i], ["const", n]] for i, n in picks]
    style = rng.choice(["and", "and", "seq", "ineq"])
    if style == "ineq":
        conds = [(["lt", ["len", i], ["const", n + 1]] if rng.random() < 0.5 else ["gt", ["len", i], ["const", n - 1]]) if n > 0 else ["iszero", ["len", i]] for i, n in picks]
    if style == "seq" and len(conds) >= 2:
        # if (len_a != n_a) benign; ...; if (len_last == n_last) fail
        clauses = [[["cnot", c], _benign(rng, codes)] for c in conds[:-1]] + [[conds[-1], _violating(rng, codes)]]
    else:
        g = conds[-1]
        for c in reversed(conds[:-1]):
            g = ["cand", c, g]
        clauses = [[g, _violating(rng, codes)]]
    return {"name": name, "params": shape, "clauses": clauses}


def gen_special(rng, name, codes, op=None):
    op = op or rng.choice(SPECIAL_OPS)
    a, b = ["arg", 0], ["arg", 1]
    MIN = 1 << 255
    if op == "mul":
        A, B = rng.choice([(MIN, 2), (M - 1, M - 1), ((1 << 128) + 1, 1 << 128), (3, (M - 1) // 3 + 1)])
    elif op in ("sdiv", "smod") and rng.random() < 0.35:
        A, B = MIN, M - 1
    else:
        A, B = rng.choice([7, 1, 255, 1 << 200, M - 1, rng.getrandbits(256) | 1]), 0
    val = eval_expr([op, ["const", A], ["const", B]], {})
    pin_b = ["iszero", b] if B == 0 and rng.random() < 0.5 else ["eq", b, ["const", B]]
    style = rng.choice(["pin", "pin", "range"])
    if style == "pin" or B != 0:
        g = ["cand", pin_b, ["cand", ["eq", a, ["const", A]], ["eq", [op, a, b], ["const", val]]]]
    else:
        # zero divisor: the result is 0 whatever the dividend
        g = ["cand", pin_b, ["cand", ["gt", a, ["const", rng.choice([0, 7, 1 << 64])]], rng.choice([["eq", [op, a, b], ["const", 0]], ["lt", [op, a, b], ["const", 1]], ["iszero", [op, a, b]]])]]
    clauses = [[g, _violating(rng, codes)]]
    if rng.random() < 0.4:
        clauses.insert(0, [["eq", [op, a, b], ["const", (val + 1) % M]], _benign(rng, codes)])
    return {"name": name, "params": ["uint256", "uint256"], "clauses": clauses}


MASKS = [(1 << 128) - 1, (1 << 64) - 1, (1 << 160) - 1, 255, None]

# identities of machine arithmetic that hold for all operand values EXCEPT at special points (a zero divisor, a wrapping
# product) -- a term-level simplification that is right "in general" makes the exceptional inputs disappear.  The last
# ones hold everywhere (controls: PASS is correct).  (template, needs narrow operands so that the product cannot wrap)
def _identities(a, b):
    return [
        (["eq", ["div", ["mul", a, b], b], a], True),                                  # (a*b)/b == a      fails: b = 0, a != 0
        (["eq", ["div", ["mul", a, b], a], b], True),                                  # (a*b)/a == b      fails: a = 0, b != 0
        (["eq", ["div", ["mul", b, a], b], a], True),
        (["eq", ["add", ["mul", ["div", a, b], b], ["mod", a, b]], a], False),          # (a/b)*b + a%b == a   fails: b = 0, a != 0
        (["lt", ["mod", a, b], b], False),                                             # a % b < b         fails: b = 0
        (["cnot", ["gt", ["div", a, b], a]], False),                                   # a / b <= a        holds everywhere
        (["eq", ["sub", ["add", a, b], b], a], False),                                 # (a+b)-b == a      holds everywhere
        (["eq", ["mul", ["sdiv", a, b], b], ["sub", a, ["smod", a, b]]], False),        # sdiv/smod         fails: b = 0, a != 0
    ]


def gen_identity(rng, name, codes, which=None):
    """check(uint256 x, uint256 y): a = x & mask, b = y & mask;  if (!(identity(a, b))) fail"""
    tmpl = _identities(["arg", 0], ["arg", 1])
    k = (which if which is not None else rng.randrange(len(tmpl))) % len(tmpl)
    need_narrow = tmpl[k][1]
    ma = rng.choice(MASKS[:2] if need_narrow else MASKS)
    mb = rng.choice([m for m in (MASKS[:4] if need_narrow else MASKS) if m is None or ma is None or (ma.bit_length() + m.bit_length() <= 256)] or [MASKS[1]])
    a = ["and", ["arg", 0], ["const", ma]] if ma is not None else ["arg", 0]
    b = ["and", ["arg", 1], ["const", mb]] if mb is not None else ["arg", 1]
    ident = _identities(a, b)[k][0]
    clauses = [[["cnot", ident], _violating(rng, codes)]]
    if rng.random() < 0.3:
        clauses.insert(0, [["gt", ["arg", 0], ["const", M - 2]], _benign(rng, codes)])
    return {"name": name, "params": ["uint256", "uint256"], "clauses": clauses}


def gen_twin(rng, name, codes, lens, kind=None, naming=None):
    """two parameters of the SAME type -- with the ABI names given by `naming`: "unnamed" (""), "same" ("x") or
    "distinct" -- and a failure that needs them to DIFFER (values, lengths or elements): the two must be independent symbols"""
    kind = kind or rng.choice(["static", "static", "array", "bytes"])
    naming = naming or rng.choice(["unnamed", "same"])
    if kind == "static":
        shape = rng.choice([["uint256", "uint256"], ["uint256", "uint256", "uint256"], ["address", "uint256", "uint256"]])
        i, j = [k for k, t in enumerate(shape) if t == "uint256"][:2]
        c = rng.choice([1, 2, 1 << 128, rng.getrandbits(64) + 1])
        g = rng.choice([["lt", ["arg", j], ["arg", i]], ["gt", ["arg", j], ["arg", i]], ["eq", ["add", ["arg", i], ["const", c]], ["arg", j]],
                        ["cand", ["eq", ["arg", i], ["const", c]], ["eq", ["arg", j], ["const", c + 1]]], ["cnot", ["eq", ["arg", i], ["arg", j]]]])
    else:
        t = "uint256[]" if kind == "array" else rng.choice(["bytes", "string"])
        shape = rng.choice([[t, t], ["uint256", t, t], [t, t, "uint256"]])
        i, j = [k for k, x in enumerate(shape) if x == t][:2]
        eff = lens if naming == "distinct" else {**lens, "by_name": {}}      # --array-lengths addresses parameters by name
        bi, bj = bounds_of(eff, i, t), bounds_of(eff, j, t)
        ni = rng.choice(bi)
        nj = rng.choice([n for n in bj if n != ni])
        g = ["cand", ["eq", ["len", i], ["const", ni]], ["eq", ["len", j], ["const", nj]]]
        common = [x for x in bi if x > 0 and x in bj]
        if common and rng.random() < 0.4:
            n = min(common)
            el = (lambda q: ["elem", q, 0]) if kind == "array" else (lambda q: ["word", q, 0])
            g = ["cand", ["cand", ["eq", ["len", i], ["const", n]], ["eq", ["len", j], ["const", n]]], ["cnot", ["eq", el(i), el(j)]]]
    test = {"name": name, "params": shape, "clauses": [[g, _violating(rng, codes)]]}
    if naming != "distinct":
        test["pnames"] = ["" if naming == "unnamed" else "x"] * len(shape)
    return test


def gen_rowmap_contract(rng, code_opt=None, n_tests=6):
    """read-over-write: setUp writes a few mapping entries; each test reads a mapping at a SYMBOLIC key (after, possibly,
    a write of its own at another symbolic key) and fails on the value read.  The failure needs the value read to be
    the one of the last write AT THAT KEY -- 0 where nothing was written -- whatever the branching solver answers to
    `key == key0` / `key != key0` (a timeout is an everyday answer)."""
    codes = parse_codes(code_opt)
    keys = rng.sample([0, 1, 3, 7, 1 << 160, M - 1, rng.getrandbits(256)], 3)
    vals = [rng.choice([1, 5, M - 1, rng.getrandbits(256) | 1]) for _ in keys]
    msetup = [[0, keys[0], vals[0]], [0, keys[1], vals[1]], [1, keys[2], vals[2]]]
    if rng.random() < 0.5:
        msetup.append([0, keys[0], (vals[0] + 1) % M or 2])    # overwritten entry
    last = {}
    for m, k, v in msetup:
        last[(m, k)] = v
    tests = []
    for n in range(n_tests):
        m = rng.choice([0, 0, 1])
        mine = [(k, v) for (mm, k), v in last.items() if mm == m]
        k0, v0 = rng.choice(mine)
        x, y = ["arg", 0], ["arg", 1]
        variant = n % 6
        pre = []
        if variant == 0:      # unwritten key reads 0 (fails for every x not written)
            cl = [[["iszero", ["mapread", m, x]], _violating(rng, codes)]]
        elif variant == 1:    # written key reads its value (fails only at x = k0): the newest stores must not be skipped
            cl = [[["eq", ["mapread", m, x], ["const", v0]], _violating(rng, codes)]]
        elif variant == 2:    # the test's own write at a symbolic key, read at another one
            w = rng.choice([2, 9, M - 2])
            pre = [[m, x, ["const", w]]]
            cl = [[["cnot", ["eq", ["mapread", m, y], ["const", w]]], _violating(rng, codes)]]
        elif variant == 3:    # own write, then the setUp value must still be visible at k0 unless overwritten
            w = rng.choice([2, 9, M - 2])
            pre = [[m, x, ["const", w]]]
            cl = [[["eq", ["mapread", m, y], ["const", v0]], _violating(rng, codes)]]
        elif variant == 4:    # value read through arithmetic, benign clause first
            cl = [[["eq", x, ["const", k0]], _benign(rng, codes)],
                  [["lt", ["mapread", m, x], ["const", 1]], _violating(rng, codes)]]
        else:                 # control: holds everywhere (m[x] is v0 or something else: tautology) -> PASS expected
            cl = [[["cand", ["eq", x, ["const", k0]], ["cnot", ["eq", ["mapread", m, x], ["const", v0]]]], _violating(rng, codes)]]
        t = {"name": f"check_row{n}", "params": ["uint256", "uint256"], "clauses": cl}
        if pre:
            t["pre"] = pre
        tests.append(t)
    return {"cname": "T", "setup": [], "msetup": msetup, "tests": tests}


def gen_directed_contract(rng, code_opt=None, n_each=2, combos=None, ops=None, lens=None, picks=None, idents=None, twins=None):
    codes = parse_codes(code_opt)
    lens = lens or DEFAULT_LENS
    bytes_bounds, array_bounds = list(lens["bytes"]), list(lens["array"])
    tests = []
    for k, pick in enumerate(picks if picks is not None else [None] * n_each):
        tests.append(gen_dynelem(rng, f"check_de{k}", codes, lens, pick))
    for k, which in enumerate(idents or []):
        tests.append(gen_identity(rng, f"check_id{k}", codes, which))
    for k, (kind, naming) in enumerate(twins or []):
        tests.append(gen_twin(rng, f"check_tw{k}", codes, lens, kind, naming))
    for k in range(n_each):
        tests.append(gen_reread(rng, f"check_rr{k}", codes))
    for k, op in enumerate(ops if ops is not None else [None] * n_each):
        tests.append(gen_special(rng, f"check_sp{k}", codes, op))
    for k, combo in enumerate(combos if combos is not None else [None] * n_each):
        tests.append(gen_multidyn(rng, f"check_md{k}", codes, bytes_bounds, array_bounds, combo, lens))
    return {"cname": "T", "setup": [], "tests": tests}


def expected_bounds(test, bytes_bounds=(0, 65, 1024), array_bounds=(0, 1, 2)):
    return {i: list(array_bounds if t.endswith("[]") else bytes_bounds) for i, t in enumerate(test["params"]) if l3.is_dynamic(t)}


def parse_bounds(text):
    """'a0=[0, 65, 1024], a1=[0, 1, 2]' -> {'a0': [0,65,1024], ...}"""
    import re

    return {m.group(1): [int(x) for x in m.group(2).split(",") if x.strip()] for m in re.finditer(r"(\w+)=\[([^\]]*)\]", text or "")}


# ----------------------------------------------------------------------------- predicted leaves (model side of the L3 tie)

ERR_NONE, ERR_REVERT, ERR_EVM, ERR_FAIL, ERR_HALMOS = 0, 1, 2, 3, 4


def action_leaf(a):
    """-> (err kind, data bytes | 'sym') of the path ending with this action"""
    k = a[0]
    if k == "panic":
        return ERR_REVERT, l3.PANIC_SELECTOR.to_bytes(4, "big") + a[1].to_bytes(32, "big")
    if k in ("panic_sym", "revert_word"):
        return ERR_REVERT, "sym"
    if k == "panic_len":
        return ERR_REVERT, (l3.PANIC_SELECTOR.to_bytes(4, "big") + a[2].to_bytes(32, "big") + b"\0" * 64)[:a[1]]
    if k == "error_sel":
        return ERR_REVERT, a[1].to_bytes(4, "big") + a[2].to_bytes(32, "big")
    if k == "fail":
        return ERR_FAIL, b""
    if k == "revert":
        return ERR_REVERT, b""
    if k == "invalid":
        return ERR_EVM, b""
    if k == "stop":
        return ERR_NONE, b""
    raise ValueError(a)


def clause_feasibility(test, bounds, storage, timeout_ms=3000):
    """for each clause (and the final STOP): is `no earlier clause fires and this one does` satisfiable
    under the length bounds?  -> list of 'sat' | 'unsat' | 'unknown' (len = clauses + 1)"""
    import z3

    vs = z3_vars(test, bounds)
    lens = []
    for i, t in enumerate(test["params"]):
        if l3.is_dynamic(t):
            lens.append(z3.Or([vs[("len", i)] == z3.BitVecVal(n, 256) for n in bounds[i]]))
    out, earlier = [], []
    for cond, _ in list(test["clauses"]) + [(None, None)]:
        s = z3.Solver()
        s.set("timeout", timeout_ms)
        s.add(*lens, *[z3.Not(x) for x in earlier])
        if cond is not None:
            g = z3_cond(cond, vs, storage)
            s.add(g)
            earlier.append(g)
        out.append(str(s.check()))
    return out
