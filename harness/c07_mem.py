"""C07, memory-instruction layer: the real SEVM on hand-assembled programs made of memory
instructions and message calls vs the extracted Model/MemOpsModel.v vs an independent Python
rendering of the EVM memory semantics (flat lists).

A case:
  calldata : [("c", [bytes]) | ("s", k, n)]        concrete bytes / symbol k of n bytes
  ext      : {"code": [bytes], "empty": bool}       accounts EXTCODECOPY reads (a third one has no account)
  ops      : list of
     ["mstore", loc, ["c", [32 bytes]] | ["cd", off]]      PUSH32 / CALLDATALOAD(off) ; MSTORE
     ["mstore8", loc, ["c", byte] | ["cd", off]]           PUSH1 / CALLDATALOAD(off) (low byte) ; MSTORE8
     ["copy", src, loc, off, size]     src: "cd" CALLDATACOPY | "code" CODECOPY | "none" | "ext" | "emptyacct" EXTCODECOPY
     ["retcopy", loc, off, size]       RETURNDATACOPY
     ["mcopy", dst, src, size]         MCOPY
     ["mloadstore", src, dst]          MLOAD src ; MSTORE dst
     ["mload", off] / ["msize"]        observations BETWEEN the writes (top-level frame only): MLOAD off / MSIZE, the result
                                       stays on the stack and is compared at the end of the path
     ["call", kind, aloc, asize, [basic ops], roff, rsize, oloc, osize, end]
                                       kind: STATICCALL | CALL | DELEGATECALL | CALLCODE; end: RETURN | REVERT
     ["create", kind, loc, [basic ops], roff, rsize, end]   (at most one per case) kind: CREATE | CREATE2; the init code
                                       (the basic ops, then RETURN / REVERT of mem[roff, roff + rsize)) is first written to
                                       memory at loc with MSTOREs (part of the instruction sequence), then run by CREATE
  fork     : optional {"at": k, "alt": [basic ops]}: after ops[:k] a JUMPI on CALLVALUE (symbolic, unrelated to any byte
             sequence) forks the path; one path continues with ops[k:], the other runs alt.  Each path's memory must be
             what its own instruction sequence gives (the fork copies the memory).
  end      : optional ["RETURN" | "REVERT", roff, rsize]: how the frame (every path of it) ends instead of STOP; the
             output data of the path must be memory[roff, roff + rsize) zero padded (State.ret = mslice).
The program of the executing account (whose bytes CODECOPY reads) is assembled from the ops.
"""
import hashlib

from harness import asm

SYM_BASE = 1000
NVAL = 2
THIS = 0xA0
EXT = 0xE0
EMPTY_ACCT = 0xE1
NONE_ACCT = 0xBEEF
CALLEE0 = 0xC0


def code(k, j):
    return SYM_BASE * (k + 1) + j


def valbyte(k, j, vi):
    return hashlib.sha256(f"val:{k}:{vi}:{j // 32}".encode()).digest()[j % 32]


def valuate(c, vi):
    if c < SYM_BASE:
        return c
    return valbyte(c // SYM_BASE - 1, c % SYM_BASE, vi)


def sym_value(k, n, vi):
    return bytes(valbyte(k, j, vi) for j in range(n))


# ----------------------------------------------------------------- byte codes of the sources

def calldata_codes(case):
    out = []
    for seg in case["calldata"]:
        if seg[0] == "c":
            out += list(seg[1])
        else:
            out += [code(seg[1], j) for j in range(seg[2])]
    return out


def read_padded(src, off, size):
    return [(src[i] if i < len(src) else 0) for i in range(off, off + size)]


def mem_write(mem, loc, data):
    if not data:
        return mem
    base = mem + [0] * (loc - len(mem))
    return base[:loc] + list(data) + mem[loc + len(data):]


# ----------------------------------------------------------------- programs

def _push(v):
    return ("push", v)


def basic_items(op):
    k = op[0]
    if k == "mstore":
        v = op[2]
        head = [("pushn", 32, int.from_bytes(bytes(v[1]), "big"))] if v[0] == "c" else [_push(v[1]), "CALLDATALOAD"]
        return head + [_push(op[1]), "MSTORE"]
    if k == "mstore8":
        v = op[2]
        head = [_push(v[1])] if v[0] == "c" else [_push(v[1]), "CALLDATALOAD"]
        return head + [_push(op[1]), "MSTORE8"]
    if k == "copy":
        _, src, loc, off, size = op
        if src == "cd":
            return [_push(size), _push(off), _push(loc), "CALLDATACOPY"]
        if src == "code":
            return [_push(size), _push(off), _push(loc), "CODECOPY"]
        addr = {"none": NONE_ACCT, "ext": EXT, "emptyacct": EMPTY_ACCT}[src]
        return [_push(size), _push(off), _push(loc), _push(addr), "EXTCODECOPY"]
    if k == "retcopy":
        return [_push(op[3]), _push(op[2]), _push(op[1]), "RETURNDATACOPY"]
    if k == "mcopy":
        return [_push(op[3]), _push(op[2]), _push(op[1]), "MCOPY"]
    if k == "mloadstore":
        return [_push(op[1]), "MLOAD", _push(op[2]), "MSTORE"]
    if k == "mload":
        return [_push(op[1]), "MLOAD"]
    if k == "msize":
        return ["MSIZE"]
    raise ValueError(k)


def init_code(op):
    _, kind, loc, body, roff, rsize, end = op
    items = []
    for b in body:
        items += basic_items(b)
    return asm.assemble(items + [_push(rsize), _push(roff), end])


def expand(op):
    """a create op -> the MSTOREs that put its init code into memory + the creation itself"""
    if op[0] != "create":
        return [op]
    _, kind, loc, body, roff, rsize, end = op
    ic = init_code(op)
    padded = ic + bytes(-len(ic) % 32)
    out = [["mstore", loc + k, ["c", list(padded[k:k + 32])]] for k in range(0, len(padded), 32)]
    return out + [["create_raw", kind, loc, len(ic), body, roff, rsize, end]]


def build(case):
    """-> (accounts {addr: bytes}, callee code per call op index)"""
    accounts = {EXT: bytes(case["ext"]["code"]), EMPTY_ACCT: b""}
    items = []
    callee_code = {}
    ncall = 0
    fork = case.get("fork")
    for i, op in enumerate(case["ops"]):
        if fork and fork["at"] == i:
            items += ["CALLVALUE", ("ref", "alt"), "JUMPI"]
        if op[0] == "create":
            for e in expand(op):
                if e[0] == "create_raw":
                    _, kind, loc, size, body, roff, rsize, end = e
                    items += ([_push(0x5A17)] if kind == "CREATE2" else []) + [_push(size), _push(loc), _push(0), kind, "POP"]
                else:
                    items += basic_items(e)
            continue
        if op[0] == "call":
            _, kind, aloc, asize, body, roff, rsize, oloc, osize, end = op
            addr = CALLEE0 + ncall
            ncall += 1
            citems = []
            for b in body:
                citems += basic_items(b)
            citems += [_push(rsize), _push(roff), end]
            ccode = asm.assemble(citems)
            accounts[addr] = ccode
            callee_code[i] = ccode
            args = [_push(osize), _push(oloc), _push(asize), _push(aloc)]
            if kind in ("CALL", "CALLCODE"):
                args.append(_push(0))
            items += args + [_push(addr), _push(100000), kind, "POP"]
        else:
            items += basic_items(op)
    if fork and fork["at"] >= len(case["ops"]):
        items += ["CALLVALUE", ("ref", "alt"), "JUMPI"]
    end = case.get("end")
    tail = ["MSIZE", "STOP"] if not end else ["MSIZE", _push(end[2]), _push(end[1]), end[0]]
    items += tail
    if fork:
        items.append(("label", "alt"))
        for b in fork["alt"]:
            items += basic_items(b)
        items += tail
    accounts[THIS] = asm.assemble(items)
    return accounts, callee_code


def variants(case):
    """the instruction sequences of the paths: [(index in case["ops"] or None, op)] (create ops expanded)"""
    main = [(i, e) for i, op in enumerate(case["ops"]) for e in expand(op)]
    if case.get("fork"):
        k = case["fork"]["at"]
        pre = [(i, e) for i, e in main if i < k]
        return [main, pre + [(None, b) for b in case["fork"]["alt"]]]
    return [main]


# ----------------------------------------------------------------- independent spec (EVM semantics, flat lists)

OBS = ("mload", "msize")


def word_of_int(n):
    return list(int(n).to_bytes(32, "big"))


def spec_obs(op, mem):
    return read_padded(mem, op[1], 32) if op[0] == "mload" else word_of_int((len(mem) + 31) // 32 * 32)


def spec_basic(op, mem, rd, cd, codeb, case):
    """-> (mem, halted)"""
    k = op[0]
    if k == "mstore":
        v = op[2]
        w = list(v[1]) if v[0] == "c" else read_padded(cd, v[1], 32)
        return mem_write(mem, op[1], w), False
    if k == "mstore8":
        v = op[2]
        x = v[1] if v[0] == "c" else read_padded(cd, v[1], 32)[31]
        return mem_write(mem, op[1], [x]), False
    if k == "copy":
        _, src, loc, off, size = op
        s = {"cd": cd, "code": codeb, "none": [], "ext": list(case["ext"]["code"]), "emptyacct": []}[src]
        return mem_write(mem, loc, read_padded(s, off, size)), False
    if k == "retcopy":
        _, loc, off, size = op
        if off + size > len(rd):
            return mem, True
        return mem_write(mem, loc, read_padded(rd, off, size)), False
    if k == "mcopy":
        return mem_write(mem, op[1], read_padded(mem, op[2], op[3])), False
    if k == "mloadstore":
        return mem_write(mem, op[2], read_padded(mem, op[1], 32)), False
    if k in OBS:
        return mem, False
    raise ValueError(k)


def spec_init_returns(op, mem, case):
    """what the init code returns / reverts with (None: it halts exceptionally); its calldata is EMPTY, its code is
    mem[loc, loc + size)"""
    _, kind, loc, size, body, roff, rsize, end = op
    initc = read_padded(mem, loc, size)
    cmem = []
    for b in body:
        cmem, halted = spec_basic(b, cmem, [], [], initc, case)
        if halted:
            return None
    return read_padded(cmem, roff, rsize)


def spec_created(case, accounts, callee_code):
    """-> None (no creation in the case) | ("deployed", bytes) | ("nothing",)"""
    mem, rd = [], []
    cd = calldata_codes(case)
    for i, op in variants(case)[0]:
        if op[0] == "create_raw":
            d = spec_init_returns(op, mem, case)
            return ("deployed", d) if (d is not None and op[7] == "RETURN") else ("nothing",)
        r = spec_run(case, accounts, callee_code, ops=[(i, op)], start=(mem, rd))
        if r[0] == "halt":
            return None
        mem, rd = r[1], r[2]
    return None


def spec_run(case, accounts, callee_code, ops=None, start=None):
    """-> ("ok", mem, rd) | ("halt",)"""
    cd = calldata_codes(case)
    mem, rd = start if start is not None else ([], [])
    this_code = list(accounts[THIS])
    obs = []
    for i, op in (ops if ops is not None else variants(case)[0]):
        if op[0] in OBS:
            obs.append(spec_obs(op, mem))
            continue
        if op[0] == "create_raw":
            d = spec_init_returns(op, mem, case)
            rd = d if (d is not None and op[7] == "REVERT") else []
            continue
        if op[0] == "call":
            _, kind, aloc, asize, body, roff, rsize, oloc, osize, end = op
            cmem, crd, halted = [], [], False
            ccd = read_padded(mem, aloc, asize)
            for b in body:
                cmem, halted = spec_basic(b, cmem, crd, ccd, list(callee_code[i]), case)
                if halted:
                    break
            rd = [] if halted else read_padded(cmem, roff, rsize)
            mem = mem_write(mem, oloc, rd[:min(osize, len(rd))])
        else:
            mem, halted = spec_basic(op, mem, rd, cd, this_code, case)
            if halted:
                return ("halt",)
    end = case.get("end")
    return ("ok", mem, rd, read_padded(mem, end[1], end[2]) if end else [], obs)


# ----------------------------------------------------------------- model side

def enc_leaf(sym, data, start, ln):
    return [1 if sym else 0, len(data)] + list(data) + [start, ln]


def enc_bytes_bvec(bs):
    return [1] + enc_leaf(False, list(bs), 0, len(bs)) if len(bs) else [0]


def word_leaf(v, cd):
    if v[0] == "c":
        return enc_leaf(False, list(v[1]), 0, 32)
    w = read_padded(cd, v[1], 32)
    return enc_leaf(any(c >= SYM_BASE for c in w), w, 0, 32)


def enc_basic(op, cd, case):
    k = op[0]
    if k == "mstore":
        return [0, op[1]] + word_leaf(op[2], cd)
    if k == "mstore8":
        v = op[2]
        x = v[1] if v[0] == "c" else read_padded(cd, v[1], 32)[31]
        return [1, op[1], 1 if x >= SYM_BASE else 0, x]
    if k == "copy":
        _, src, loc, off, size = op
        if src in ("cd", "code", "none"):
            return [2, {"cd": 0, "code": 1, "none": 2}[src], loc, off, size]
        return [2, 3, loc, off, size] + enc_bytes_bvec(case["ext"]["code"] if src == "ext" else [])
    if k == "retcopy":
        return [3, op[1], op[2], op[3]]
    if k == "mcopy":
        return [4, op[1], op[2], op[3]]
    if k == "mloadstore":
        return [5, op[1], op[2]]
    raise ValueError(k)


def enc_case(case, accounts, callee_code, ops=None):
    cd = calldata_codes(case)
    ops = [(i, op) for i, op in (list(ops) if ops is not None else variants(case)[0]) if op[0] not in OBS]
    segs = [s for s in case["calldata"] if (len(s[1]) if s[0] == "c" else s[2]) > 0]
    out = [len(segs)]
    for seg in segs:
        if seg[0] == "c":
            out += enc_leaf(False, list(seg[1]), 0, len(seg[1]))
        else:
            out += enc_leaf(True, [code(seg[1], j) for j in range(seg[2])], 0, seg[2])
    out += enc_bytes_bvec(accounts[THIS])
    out.append(len(ops))
    for i, op in ops:
        if op[0] == "create_raw":
            _, kind, loc, size, body, roff, rsize, end = op
            out += [7, loc, size, len(body)]
            for b in body:
                out += enc_basic(b, None, case)
            out += [roff, rsize, 1 if end == "REVERT" else 0]
        elif op[0] == "call":
            _, kind, aloc, asize, body, roff, rsize, oloc, osize, end = op
            out += [6] + enc_bytes_bvec(callee_code[i]) + [aloc, asize, len(body)]
            # inside the callee, calldata is the caller's memory window: its byte codes are only known by running
            # the spec; CALLDATALOAD-valued stores are therefore not generated inside callee bodies
            for b in body:
                out += enc_basic(b, None, case)
            out += [roff, rsize, oloc, osize]
        else:
            out += enc_basic(op, cd, case)
    if case.get("end"):
        out += [case["end"][1], case["end"][2]]
    return out


def enc_observations(case, accounts, callee_code, ops):
    """one model call per observation of the instruction sequence: the model run on the instructions before it, read
    with mslice(off, 32) (MLOAD) / msize"""
    c2 = dict(case)
    c2.pop("end", None)
    calls = []
    for j, (_, op) in enumerate(ops):
        if op[0] in OBS:
            calls.append(enc_case(c2, accounts, callee_code, ops[:j]) + [op[1] if op[0] == "mload" else 0, 32])
    return calls


def dec_observations(ops, results):
    """-> list of 32 byte code lists, or None if the model halted somewhere"""
    out = []
    kinds = [op[0] for _, op in ops if op[0] in OBS]
    for k, res in zip(kinds, results):
        m = dec_model(res)
        if m[0] != "ok":
            return None
        out.append(m[6] if k == "mload" else word_of_int(m[5]))
    return out


def enc_created(case, accounts, callee_code):
    """input of the c07_created entry: the instructions before the creation, then the creation (None: no creation)"""
    ops = variants(case)[0]
    k = next((j for j, (_, op) in enumerate(ops) if op[0] == "create_raw"), None)
    if k is None:
        return None
    c2 = dict(case)
    c2.pop("end", None)
    pre = enc_case(c2, accounts, callee_code, ops[:k])
    _, kind, loc, size, body, roff, rsize, end = ops[k][1]
    out = pre + [loc, size, len(body)]
    for b in body:
        out += enc_basic(b, None, case)
    return out + [roff, rsize]


def dec_created(case, res):
    """result of the c07_created entry -> ("deployed", codes) | ("nothing",) | ("exc", text); a REVERT of the init code
    deploys nothing (the model entry computes what the init code hands back)"""
    op = next(op for op in case["ops"] if op[0] == "create")
    if not res or res[0] not in (0, 1):
        return ("exc", f"model: {res}")
    if res[0] == 1 or op[6] == "REVERT":
        return ("nothing",)
    return ("deployed", res[2:2 + res[1]])


def dec_model(res):
    if not res:
        return ("exc", "model driver error")
    st = res[0]
    if st == 1:
        return ("halt",)
    if st != 0:
        return ("exc", f"model status {st}")
    it = iter(res[1:])
    ln = next(it)
    nl = next(it)
    lay = [next(it) for _ in range(nl)]
    nf = next(it)
    flat = [next(it) for _ in range(nf)]
    nr = next(it)
    rd = [next(it) for _ in range(nr)]
    msize = next(it)
    no = next(it)
    outd = [next(it) for _ in range(no)]
    return ("ok", ln, lay, flat, rd, msize, outd)


# ----------------------------------------------------------------- implementation side

def impl_run(case):
    """-> one result per reported path (a list when the case forks):
    ("ok", len, layout, flat items, rd items, msize) | ("halt", kind) | ("exc", text)"""
    import z3

    from halmos.bytevec import ByteVec, ConcreteChunk, SymbolicChunk

    from harness import engine

    accounts, _ = build(case)
    syms = {}
    segs = []
    for seg in case["calldata"]:
        if seg[0] == "c":
            segs.append(("c", bytes(seg[1])))
        else:
            segs.append(("s", f"s{seg[1]}", seg[2]))
            syms[seg[1]] = (z3.BitVec(f"s{seg[1]}", 8 * seg[2]), seg[2])
    scn = {"accounts": {a: {"code": c} for a, c in accounts.items()}, "this": THIS, "calldata": segs, "static": False, "options": {}}
    try:
        paths, flags = engine.run_scenario(scn)
    except Exception as e:  # noqa: BLE001
        return ("exc", f"{type(e).__name__}: {e}"[:200])
    if flags["crashed"]:
        return ("exc", "SEVM.run raised " + flags["crashed"][:200])
    want_paths = 2 if case.get("fork") else 1
    if len(paths) != want_paths:
        return ("exc", f"{len(paths)} paths where {want_paths} expected: {[p.kind for p in paths]}")

    def evalbv(e, vi):
        subs = [(s, z3.BitVecVal(int.from_bytes(sym_value(k, n, vi), "big"), 8 * n)) for k, (s, n) in syms.items()]
        r = z3.simplify(z3.substitute(e, *subs)) if subs else z3.simplify(e)
        if not z3.is_bv_value(r):
            raise RuntimeError(f"not closed: {r}")
        return list(int.to_bytes(r.as_long(), r.size() // 8, "big"))

    def bv_items(e):
        vals = [evalbv(e, vi) for vi in range(NVAL)]
        return [("v", [vals[vi][i] for vi in range(NVAL)]) for i in range(e.size() // 8)]

    def chunk_items(ch):
        if isinstance(ch, ConcreteChunk):
            return list(ch.data[ch.start:ch.start + ch.length])
        d = ch.data
        if z3.is_const(d) and d.decl().kind() == z3.Z3_OP_UNINTERPRETED:
            name = d.decl().name()
            if name.startswith("s") and name[1:].isdigit() and int(name[1:]) in syms:
                return [code(int(name[1:]), ch.start + j) for j in range(ch.length)]
        return bv_items(ch.unwrap())

    def layout(bv):
        out, flat = [], []
        for key, ch in bv.chunks.items():
            if isinstance(ch, ByteVec):
                sub, subflat = layout(ch)
                out += [key, len(ch), 2, len(ch.chunks), 0] + sub
                flat += subflat
            elif isinstance(ch, ConcreteChunk):
                out += [key, ch.length, 0, ch.start, ch.data_byte_length]
                flat += chunk_items(ch)
            elif isinstance(ch, SymbolicChunk):
                out += [key, ch.length, 1, ch.start, ch.data_byte_length]
                flat += chunk_items(ch)
            else:
                out += [key, -1, 9, 0, 0]
        return out, flat

    end = case.get("end")
    fine = "revert" if end and end[0] == "REVERT" else "ok"

    def observe(p):
        if p.kind != fine:
            return ("halt", p.kind)
        try:
            ex = p.ex
            mem = ex.st.memory
            lay, flat = layout(mem)
            rd = ex.returndata()
            rd_items = layout(rd)[1] if rd is not None else []
            stack_items = []
            for w in ex.st.stack[:-1]:
                if getattr(w, "is_concrete", False):
                    stack_items.append(word_of_int(w.value))
                else:
                    stack_items.append(bv_items(w.as_z3()))
            top = ex.st.stack[-1] if ex.st.stack else None
            msize = top.value if top is not None and getattr(top, "is_concrete", False) else (int(str(top)) if top is not None else None)
            od = ex.context.output.data
            out_items = layout(od)[1] if (end and od is not None) else []
            known = set(accounts)
            new = []
            for a, contract in ex.code.items():
                if not (z3.is_bv_value(a) and a.as_long() in known):
                    new.append(layout(contract._code)[1])
            return ("ok", len(mem), lay, flat, rd_items, msize, out_items, new, stack_items)
        except Exception as e:  # noqa: BLE001
            return ("exc", f"observation failed: {type(e).__name__}: {e}"[:200])

    res = [observe(p) for p in paths]
    return res if case.get("fork") else res[0]


def compare_created(impl, want, what):
    """impl: result of the main path; want: None | ("deployed", codes) | ("nothing",)"""
    results = impl if isinstance(impl, list) else [impl]
    if want is None or any(r[0] != "ok" for r in results):
        return None
    new = [c for r in results for c in r[7]]     # only the main sequence contains the creation
    if want[0] == "nothing":
        return None if not new else {"observable": "deployed-code", "implementation": str(new)[:200], what: "nothing deployed"}
    if len(new) != 1 or not same_items(want[1], new[0]):
        return {"observable": "deployed-code", "implementation": str(new)[:300], what: str(want[1])[:300]}
    return None


def same_items(ref_codes, items):
    if len(ref_codes) != len(items):
        return False
    for c, x in zip(ref_codes, items):
        if isinstance(x, int):
            if x != c:
                return False
        elif [valuate(c, vi) for vi in range(NVAL)] != list(x[1]):
            return False
    return True


def match_paths(results, expected, cmp):
    """results: what the reported paths gave; expected: one per instruction sequence; some assignment of paths to
    sequences must agree -> None, else the differences of the identity assignment"""
    if not isinstance(results, list):
        return cmp(results, expected[0])
    if len(results) != len(expected):
        return {"observable": "paths", "implementation": len(results), "expected": len(expected)}
    import itertools
    first = None
    for perm in itertools.permutations(range(len(expected))):
        ds = [cmp(results[i], expected[j]) for i, j in enumerate(perm)]
        if all(d is None for d in ds):
            return None
        if first is None:
            first = next(dict(d, path=i) for i, d in enumerate(ds) if d is not None)
    return first


def compare_spec(case, impl, spec):
    if isinstance(impl, tuple) and impl[0] == "exc":
        return {"observable": "exception", "implementation": impl[1]}
    return match_paths(impl, spec, lambda a, b: compare_spec1(case, a, b))


def compare_model(case, impl, model):
    if isinstance(impl, tuple) and impl[0] == "exc":
        return {"observable": "exception", "implementation": impl[1]}
    return match_paths(impl, model, lambda a, b: compare_model1(case, a, b))


def compare_spec1(case, impl, spec):
    if impl[0] == "exc":
        return {"observable": "exception", "implementation": impl[1]}
    if spec[0] == "halt":
        if impl[0] != "halt":
            return {"observable": "halts", "implementation": "no halt", "spec": "exceptional halt (RETURNDATACOPY out of bounds)"}
        if "OutOfBoundsRead" not in impl[1]:
            return {"observable": "halt-kind", "implementation": impl[1], "spec": "OutOfBoundsRead"}
        return None
    if impl[0] == "halt":
        return {"observable": "halts", "implementation": impl[1], "spec": "runs to STOP"}
    _, ln, lay, flat, rd, msize, outd, _new, stack = impl
    if len(stack) != len(spec[4]):
        return {"observable": "stack-height", "implementation": len(stack), "spec": len(spec[4])}
    for j, (want, got) in enumerate(zip(spec[4], stack)):
        if not same_items(want, got):
            return {"observable": "observation-between-writes", "nth": j, "implementation": str(got)[:300], "spec": str(want)[:300]}
    if ln != len(spec[1]):
        return {"observable": "memory-length", "implementation": ln, "spec": len(spec[1])}
    if not same_items(spec[1], flat):
        bad = next((i for i, (c, x) in enumerate(zip(spec[1], flat)) if not same_items([c], [x])), None)
        return {"observable": "memory-content", "first_bad_offset": bad, "implementation": str(flat)[:300], "spec": str(spec[1])[:300]}
    if not same_items(spec[2], rd):
        return {"observable": "returndata", "implementation": str(rd)[:300], "spec": str(spec[2])[:300]}
    want = (len(spec[1]) + 31) // 32 * 32
    if msize != want:
        return {"observable": "msize", "implementation": msize, "spec": want}
    if not same_items(spec[3], outd):
        return {"observable": "output-data", "implementation": str(outd)[:300], "spec": str(spec[3])[:300]}
    return None


def leaves_of(lay, flat):
    """recursive layout + flat content -> [(path of keys, len, (kind, start, data_len), content)] per leaf chunk"""
    out = []
    pos = 0

    def walk(i, prefix):
        nonlocal pos
        key, ln, kind, a, b = lay[i:i + 5]
        i += 5
        if kind == 2:
            out.append((prefix + (key,), ln, ("nest", a), None))
            for _ in range(a):
                i = walk(i, prefix + (key,))
        else:
            out.append((prefix + (key,), ln, (kind, a, b), flat[pos:pos + ln]))
            pos += ln
        return i

    i = 0
    while i < len(lay):
        i = walk(i, ())
    return out


def same_layout(impl_lay, impl_flat, model_lay, model_flat):
    """chunk boundaries and nesting must agree; kind / window must agree too, except that a chunk the model holds as
    symbolic whose bytes are all concrete may be a ConcreteChunk in the implementation: z3 folds Extract over the
    constant part of a mixed word (MLOAD of such a word gives an int), which the byte-level model does not track"""
    a, m = leaves_of(impl_lay, impl_flat), leaves_of(model_lay, model_flat)
    if len(a) != len(m):
        return False
    for (pa, la, ka, _), (pm, lm, km, cm) in zip(a, m):
        if pa != pm or la != lm:
            return False
        if ka != km:
            if km[0] == 1 and ka[0] == 0 and cm is not None and all(c < SYM_BASE for c in cm):
                continue
            return False
    return True


def compare_model1(case, impl, model):
    if model[0] == "exc" or impl[0] == "exc":
        return {"observable": "exception", "implementation": str(impl)[:200], "model": str(model)[:200]}
    if (impl[0] == "halt") != (model[0] == "halt"):
        return {"observable": "halts", "implementation": impl[:2], "model": model[0]}
    if impl[0] == "halt":
        return None
    _, ln, lay, flat, rd, msize, outd, _new, stack = impl
    _, mln, mlay, mflat, mrd, mmsize, moutd = model[:7]
    mobs = model[7] if len(model) > 7 else None
    if mobs is not None:
        for j, (want, got) in enumerate(zip(mobs, stack)):
            if not same_items(want, got):
                return {"observable": "observation-between-writes", "nth": j, "implementation": str(got)[:300], "model": str(want)[:300]}
    if ln != mln:
        return {"observable": "memory-length", "implementation": ln, "model": mln}
    if lay != mlay and not same_layout(lay, flat, mlay, mflat):
        return {"observable": "layout", "implementation": lay, "model": mlay}
    if not same_items(mflat, flat):
        return {"observable": "memory-content", "implementation": str(flat)[:300], "model": str(mflat)[:300]}
    if not same_items(mrd, rd):
        return {"observable": "returndata", "implementation": str(rd)[:300], "model": str(mrd)[:300]}
    if msize != mmsize:
        return {"observable": "msize", "implementation": msize, "model": mmsize}
    if not same_items(moutd, outd):
        return {"observable": "output-data", "implementation": str(outd)[:300], "model": str(moutd)[:300]}
    return None


# ----------------------------------------------------------------- generators

GRID = [0, 1, 2, 3, 5, 31, 32, 33, 40, 63, 64, 65, 70]
SIZES = [0, 0, 1, 2, 3, 4, 5, 31, 32, 33, 40]


def gen_basic(r, in_callee, cdlen, rdlen, memlen):
    x = r.random()
    loc = r.choice(GRID + [memlen, max(0, memlen - 1)])
    if x < 0.12:
        if not in_callee and r.random() < 0.5:
            return ["mstore", loc, ["cd", r.choice([0, 1, 3, 4, 8, 30, max(0, cdlen - 32), max(0, cdlen - 5), cdlen])]]
        return ["mstore", loc, ["c", [r.choice([0, 0, 1, 0xFF, r.randrange(256)]) for _ in range(32)]]]
    if x < 0.2:
        if not in_callee and r.random() < 0.4:
            return ["mstore8", loc, ["cd", r.choice([0, 1, 4, max(0, cdlen - 32), cdlen])]]
        return ["mstore8", loc, ["c", r.choice([0, 1, 0xAB, 0xFF])]]
    size = r.choice(SIZES)
    if x < 0.62:
        src = r.choice(["cd", "cd", "code", "code", "none", "none", "ext", "emptyacct"])
        srclen = {"cd": cdlen, "code": 60, "none": 0, "ext": 12, "emptyacct": 0}[src]
        off = r.choice([0, 1, 2, 3, 5, 7, 31, 33, max(0, srclen - size), max(0, srclen - 1), srclen, srclen + 3])
        return ["copy", src, loc, off, size]
    if x < 0.74:
        y = r.random()
        if y < 0.7:
            size = min(size, rdlen)
            off = r.choice([0, 1, 2, max(0, rdlen - size)])
            off = min(off, rdlen - size)
        else:
            off = r.choice([0, 1, rdlen, rdlen + 1])   # may read beyond the buffer: exceptional halt
        return ["retcopy", loc, off, size]
    if x < 0.9:
        src = r.choice(GRID + [max(0, memlen - size), loc + 1, max(0, loc - 1)])
        return ["mcopy", loc, src, size]
    return ["mloadstore", r.choice(GRID + [max(0, memlen - 32), max(0, memlen - 5)]), loc]


def gen_case(r, tag="mem"):
    cal = []
    nsym = 0
    for _ in range(r.choice([1, 2, 2, 3])):
        if r.random() < 0.5:
            n = r.choice([4, 8, 33, 40])
            cal.append(["s", nsym, n])
            nsym += 1
        else:
            cal.append(["c", [r.randrange(256) for _ in range(r.choice([0, 1, 4, 5, 32, 36]))]])
    case = {"tag": tag, "calldata": cal, "ext": {"code": [0xE0 + i for i in range(12)]}, "ops": []}
    cdlen = len(calldata_codes(case))
    memlen, rdlen = 0, 0
    halted = False
    for _ in range(r.randint(1, 7)):
        if not any(o[0] == "create" for o in case["ops"]) and r.random() < 0.1:
            body = []
            cm = 0
            for _ in range(r.randint(0, 3)):
                b = gen_basic(r, True, 0, 0, cm)
                if b[0] == "retcopy" and r.random() < 0.8:
                    b = ["retcopy", b[1], 0, 0]
                body.append(b)
                cm = max(cm, _end(b))
            op = ["create", r.choice(["CREATE", "CREATE", "CREATE2"]), r.choice(GRID + [memlen]), body,
                  r.choice([0, 1, 2, 31, max(0, cm - 4)]), r.choice([0, 1, 3, 4, 32, 33, cm]), r.choice(["RETURN", "RETURN", "REVERT"])]
            rdlen = op[5] if op[6] == "REVERT" else 0
        elif r.random() < 0.22:
            body = []
            cm = 0
            for _ in range(r.randint(0, 3)):
                b = gen_basic(r, True, r.choice([0, 4, 33]), 0, cm)
                if b[0] == "retcopy" and r.random() < 0.8:
                    b = ["retcopy", b[1], 0, 0]
                body.append(b)
                cm = max(cm, _end(b))
            roff = r.choice([0, 1, 2, 5, 31, max(0, cm - 4)])
            rsize = r.choice([0, 1, 3, 4, 32, 33, max(0, cm - roff)])
            osize = r.choice([0, 1, rsize, rsize, rsize + 2, max(0, rsize - 1), 32])
            aloc = r.choice(GRID)
            asize = r.choice([0, 0, 4, 33, 36])
            op = ["call", r.choice(["STATICCALL", "STATICCALL", "CALL", "DELEGATECALL", "CALLCODE"]), aloc, asize, body, roff, rsize,
                  r.choice(GRID + [memlen]), osize, r.choice(["RETURN", "RETURN", "REVERT"])]
            rdlen = rsize    # (0 if the callee halts exceptionally: the generator then may produce an out-of-bounds read)
        else:
            op = gen_basic(r, False, cdlen, rdlen, memlen)
        case["ops"].append(op)
        memlen = max(memlen, _end(op))
        if r.random() < 0.3:
            # observe between the writes; often the place just written
            for _ in range(r.choice([1, 1, 2])):
                case["ops"].append(["msize"] if r.random() < 0.3 else
                                   ["mload", r.choice(GRID + [max(0, memlen - 32), max(0, _end(op) - 32), max(0, _end(op) - 1), memlen])])
    if r.random() < 0.3:
        case["end"] = [r.choice(["RETURN", "RETURN", "REVERT"]), r.choice(GRID + [max(0, memlen - 3), memlen]), r.choice(SIZES)]
    # a path fork (JUMPI on the symbolic CALLVALUE), often while the memory is still empty
    if r.random() < 0.35:
        first_ret = next((i for i, o in enumerate(case["ops"]) if o[0] in ("retcopy", "create")), len(case["ops"]))   # only RETURNDATACOPY can halt the frame: fork before it (and before a creation: one new account per case)
        k = r.choice([0, 0, r.randint(0, first_ret)])
        alt = [gen_basic(r, False, cdlen, 0, 0) for _ in range(r.randint(1, 3))]
        alt = [b for b in alt if b[0] != "retcopy"] or [["mstore8", 3, ["c", 0x7F]]]
        case["fork"] = {"at": k, "alt": alt}
    return case


def _end(op):
    k = op[0]
    if k == "mstore":
        return op[1] + 32
    if k == "mstore8":
        return op[1] + 1
    if k == "copy":
        return op[2] + op[4] if op[4] else 0
    if k in ("retcopy", "mcopy"):
        return op[1] + op[3] if op[3] else 0
    if k == "mloadstore":
        return op[2] + 32
    if k == "call":
        return op[7] + min(op[8], op[6]) if min(op[8], op[6]) else 0
    if k == "create":
        return op[2] + (len(init_code(op)) + 31) // 32 * 32
    return 0    # observations write nothing


CORPUS = [
    # every copy instruction once, sources longer and shorter than the request, an account without code at offset > 0
    {"tag": "mem-corpus", "calldata": [["c", [1, 2, 3, 4]], ["s", 0, 40], ["c", [9, 9]]], "ext": {"code": [0xE0 + i for i in range(12)]}, "ops": [
        ["mstore", 5, ["c", [0] * 30 + [0x11, 0x22]]],
        ["copy", "cd", 40, 2, 8], ["copy", "code", 3, 1, 4], ["copy", "none", 50, 2, 6], ["copy", "ext", 60, 2, 6],
        ["copy", "ext", 66, 10, 6], ["copy", "emptyacct", 61, 3, 2],
        ["call", "STATICCALL", 0, 0, [["copy", "code", 0, 3, 7]], 0, 7, 70, 5, "RETURN"],
        ["retcopy", 90, 1, 3], ["mcopy", 38, 35, 20], ["mstore", 100, ["cd", 3]], ["mstore8", 101, ["c", 0xAB]],
        ["mloadstore", 30, 120], ["copy", "cd", 7, 0, 0], ["retcopy", 0, 7, 0],
    ]},
    # the output area larger than / equal to / smaller than the returned data; the callee reads its calldata
    {"tag": "mem-corpus", "calldata": [["s", 0, 33]], "ext": {"code": [0xE0 + i for i in range(12)]}, "ops": [
        ["copy", "cd", 0, 0, 33],
        ["call", "CALL", 1, 33, [["copy", "cd", 0, 0, 36], ["mstore8", 2, ["c", 7]]], 1, 34, 40, 34, "RETURN"],
        ["call", "DELEGATECALL", 40, 4, [["copy", "cd", 0, 1, 4]], 0, 4, 33, 2, "REVERT"],
        ["call", "STATICCALL", 0, 0, [["copy", "code", 5, 0, 9]], 0, 9, 0, 32, "RETURN"],
        ["retcopy", 64, 0, 9],
        ["call", "STATICCALL", 0, 0, [["retcopy", 0, 1, 0]], 0, 4, 10, 4, "RETURN"],     # the callee halts: nothing returned
        ["retcopy", 5, 0, 0],
    ]},
    # RETURNDATACOPY beyond the buffer halts, also with size 0
    {"tag": "mem-corpus", "calldata": [["c", [1, 2, 3]]], "ext": {"code": [0xE0 + i for i in range(12)]}, "ops": [
        ["mstore8", 3, ["c", 1]], ["retcopy", 0, 1, 0]]},
    {"tag": "mem-corpus", "calldata": [["c", [1, 2, 3]]], "ext": {"code": [0xE0 + i for i in range(12)]}, "ops": [
        ["call", "STATICCALL", 0, 0, [["mstore8", 0, ["c", 5]]], 0, 2, 0, 2, "RETURN"], ["retcopy", 0, 1, 2]]},
]


CORPUS += [
    # a fork while the memory is still empty, then writes on both paths
    {"tag": "mem-corpus", "calldata": [["s", 0, 32]], "ext": {"code": [0xE0 + i for i in range(12)]},
     "ops": [["mstore8", 3, ["c", 0x11]], ["copy", "cd", 8, 0, 4]],
     "fork": {"at": 0, "alt": [["mstore8", 1, ["c", 0x22]], ["copy", "code", 40, 0, 3]]}},
    # a fork after a call returned into an untouched memory (empty output area), and one in the middle
    {"tag": "mem-corpus", "calldata": [["c", [7]], ["s", 0, 40]], "ext": {"code": [0xE0 + i for i in range(12)]},
     "ops": [["call", "STATICCALL", 0, 0, [["mstore8", 0, ["c", 5]]], 0, 1, 0, 0, "RETURN"], ["retcopy", 2, 0, 1], ["mstore", 31, ["cd", 2]]],
     "fork": {"at": 1, "alt": [["mcopy", 5, 0, 3], ["mstore8", 0, ["c", 9]]]}},
    {"tag": "mem-corpus", "calldata": [["s", 0, 33]], "ext": {"code": [0xE0 + i for i in range(12)]},
     "ops": [["copy", "cd", 0, 0, 33], ["mcopy", 1, 0, 32], ["mstore8", 40, ["c", 1]]],
     "fork": {"at": 2, "alt": [["mstore", 16, ["c", [0xCC] * 32]]]}, "end": ["RETURN", 30, 20]},
    {"tag": "mem-corpus", "calldata": [["c", [1, 2, 3, 4, 5]]], "ext": {"code": [0xE0 + i for i in range(12)]},
     "ops": [["copy", "cd", 2, 0, 5]], "end": ["REVERT", 0, 9]},
    {"tag": "mem-corpus", "calldata": [["c", [1, 2, 3, 4, 5]]], "ext": {"code": [0xE0 + i for i in range(12)]},
     "ops": [["copy", "cd", 2, 0, 5]], "end": ["RETURN", 4, 0]},
]


CORPUS += [
    # observations between the writes: the same word and MSIZE read again after each write (MSTORE8 twice at one offset)
    {"tag": "mem-corpus", "calldata": [["s", 0, 33]], "ext": {"code": [0xE0 + i for i in range(12)]},
     "ops": [["msize"], ["mload", 0], ["mstore8", 0, ["c", 0x11]], ["mload", 0], ["msize"], ["mstore8", 0, ["c", 0x22]], ["mload", 0], ["mload", 0],
             ["copy", "cd", 1, 0, 33], ["mload", 0], ["mload", 2], ["msize"], ["mcopy", 40, 40, 30], ["msize"], ["mload", 60],
             ["mstore", 0, ["cd", 1]], ["mload", 0], ["mstore", 0, ["c", [7] * 32]], ["mload", 0], ["msize"]]},
]

CORPUS += [
    # a creation: the init code copies its (empty) calldata and its own code, sets a byte and returns the runtime code
    {"tag": "mem-corpus", "calldata": [["c", [1, 2, 3, 4, 5, 6, 7, 8]]], "ext": {"code": [0xE0 + i for i in range(12)]},
     "ops": [["copy", "cd", 0, 0, 8],
             ["create", "CREATE", 32, [["copy", "cd", 0, 0, 4], ["copy", "code", 4, 1, 40], ["mstore8", 2, ["c", 0x5B]]], 1, 40, "RETURN"],
             ["retcopy", 0, 0, 0], ["mstore8", 1, ["c", 7]]]},
    {"tag": "mem-corpus", "calldata": [["c", [1, 2, 3]]], "ext": {"code": [0xE0 + i for i in range(12)]},
     "ops": [["create", "CREATE2", 5, [["copy", "code", 0, 30, 8], ["copy", "cd", 3, 0, 2]], 0, 8, "REVERT"], ["retcopy", 100, 2, 6]]},
    {"tag": "mem-corpus", "calldata": [["c", [1, 2, 3]]], "ext": {"code": [0xE0 + i for i in range(12)]},
     "ops": [["create", "CREATE", 0, [["retcopy", 0, 1, 0]], 0, 8, "RETURN"], ["retcopy", 0, 0, 0]]},
]


def gen_cases(r, n):
    return list(CORPUS) + [gen_case(r) for _ in range(n)]


def classify(case):
    kinds = set()
    for op in case["ops"]:
        if op[0] == "create":
            kinds.add("create-" + op[1] + "-" + op[6])
            for b in op[3]:
                kinds.add("init-" + (b[0] if b[0] != "copy" else "copy-" + b[1]))
    if case.get("end"):
        kinds.add("ends-with-" + case["end"][0])
    if case.get("fork"):
        kinds.add("fork")
        if case["fork"]["at"] == 0:
            kinds.add("fork-on-empty-memory")
    for op in case["ops"]:
        kinds.add(op[0] if op[0] != "copy" else "copy-" + op[1])
        if op[0] == "call":
            kinds.add("call-" + op[1])
            for b in op[4]:
                kinds.add("callee-" + (b[0] if b[0] != "copy" else "copy-" + b[1]))
            if op[8] > op[6]:
                kinds.add("out-area-larger-than-returned")
            elif op[8] < op[6]:
                kinds.add("out-area-smaller-than-returned")
            elif op[6]:
                kinds.add("out-area-exact(whole returndata object)")
        if op[0] == "copy" and op[4] == 0:
            kinds.add("size-0-copy")
        if op[0] == "copy" and op[1] in ("none", "emptyacct") and op[3] > 0 and op[4] > 0:
            kinds.add("codeless-account-offset>0")
    return kinds
