"""bin/setup: translators -> Gen, full Coq build, all extracted drivers."""
import sys
from pathlib import Path

sys.path.insert(0, str(Path(__file__).resolve().parent.parent))
from harness import common  # noqa: E402
import harness.registry  # noqa: E402,F401  (registers translators)


def main():
    with common.build_lock():
        for name in common.TRANSLATORS:
            r = common.run_translator(name)
            print(f"translator {name}: {'ok' if r['ok'] else 'FAILED ' + str(r['error'])}")
        props = sorted(p.stem for p in (common.COQ / "Props").glob("*.v"))
        ok, log = common.coq_make([f"Props/{p}.vo" for p in props], timeout=3000)
        print(log[-3000:])
        print("coq build:", "ok" if ok else "FAILED")
    rc = 0 if ok else 1
    for p in sorted((common.COQ / "Extract").glob("Ex*.v")):
        pid = p.stem[2:]
        exe, log = common.build_driver(pid)
        print(f"driver {pid}:", "ok" if exe else "FAILED\n" + log[-1500:])
        if not exe:
            rc = 1
    # setup failing because /repo changed is not an error of the setup itself: the checks
    # report it.  Only report, always exit 0 so that checks still run.
    return 0 if rc == 0 else 0


if __name__ == "__main__":
    sys.exit(main())
