"""X-C03 at L3: run the real halmos on generated test contracts (worker pool) and decide with an
independent oracle (reference interpreter on candidate inputs) whether a clean PASS is wrong."""
import random

from harness import l3
from harness.c03_lib import (DEFAULT_LENS, M, bounds_of, boundary_candidates, clause_feasibility, compile_contract, expected_bounds, parse_bounds,
                             parse_codes, sig_of, storage_of, z3_candidates)


def flags_for(r, sig, all_sigs):
    """warning kinds that concern `sig`: lines naming the test (or setUp), or naming no test at all"""
    out = set()
    for ln in (r.out + "\n" + r.err).splitlines():
        for k, needle in l3.WARNING_KINDS:
            if needle in ln:
                named = [s for s in all_sigs + ["setUp()"] if s in ln]
                if not named or sig in named or "setUp()" in named:
                    out.add(k)
    return sorted(out)


def l3_worker(task):
    """task = {"desc": contract description, "options": [halmos options], "code_opt": str|None, "seed": int}
    -> halmos' answers + oracle candidates (the z3 search runs here, in parallel)"""
    import time

    t0 = time.time()
    desc, options = task["desc"], list(task["options"])
    codes = parse_codes(task.get("code_opt"))
    rt, c = compile_contract(desc)
    from harness import c03_row

    with c03_row.InjProject([c], base=task.get("_base")) as p:
        r = p.run(options, timeout=task.get("timeout", 100), inject=task.get("inject"))
    t_halmos = time.time() - t0
    rng = random.Random(task.get("seed", 0))
    cands = {}
    all_sigs = [sig_of(x) for x in desc["tests"]]
    for t in desc["tests"]:
        sig = sig_of(t)
        storage = storage_of(desc, t)
        printed = parse_bounds((r.tests.get(sig) or {}).get("bounds"))
        bounds = {}
        pn = t.get("pnames") or [f"a{i}" for i in range(len(t["params"]))]
        for i, ty in enumerate(t["params"]):
            if l3.is_dynamic(ty):
                fallback = bounds_of(task.get("lens") or DEFAULT_LENS, i, ty) if not t.get("pnames") else bounds_of({**(task.get("lens") or DEFAULT_LENS), "by_name": {}}, i, ty)
                bounds[i] = printed.get(pn[i], fallback) if pn[i] and pn.count(pn[i]) == 1 else fallback
        cl = []
        try:
            cl += z3_candidates(t, codes, bounds, storage, timeout_ms=task.get("z3_ms", 2000))
        except Exception:  # noqa: BLE001  (search aid only)
            pass
        nz = len(cl)
        try:
            feas = clause_feasibility(t, bounds, storage, timeout_ms=task.get("feas_ms", 3000))
        except Exception:  # noqa: BLE001
            feas = None
        cl += boundary_candidates(t, bounds, storage, rng, limit=task.get("limit", 120))
        cands[sig] = {"bounds": {str(k): v for k, v in bounds.items()}, "z3": nz, "feas": feas,
                      "inputs": [[v.hex() if isinstance(v, (bytes, bytearray)) else v for v in x] for x in cl]}
    return {"seconds": [round(t_halmos, 1), round(time.time() - t0, 1)], "runtime": rt.hex(), "brief": r.brief(), "out": r.out[-6000:], "err": r.err[-3000:], "cands": cands,
            "flags": {s: flags_for(r, s, all_sigs) for s in all_sigs}}


def decode_input(test, vals):
    return [bytes.fromhex(v) if t in ("bytes", "string") else v for t, v in zip(test["params"], vals)]


def oracle_cases(desc, runtime, cands):
    """reference-interpreter cases of one contract: first setUp, then (filled in later) the candidates"""
    acc0 = l3.ref_accounts(runtime)
    return acc0, (acc0, l3.ref_msg(l3.selector("setUp()")), None, 0)


def run_oracle(items):
    """items: list of (desc, runtime bytes, cands, codes) -> list of {sig: {...}} (batched reference runs)"""
    from harness import refevm

    setups = refevm.run_many([oracle_cases(d, rt, c)[1] for d, rt, c, _ in items]) if items else []
    cases, index = [], []
    outs = []
    for n, ((desc, rt, cands, codes), s) in enumerate(zip(items, setups)):
        out = {sig_of(t): {"violating": [], "n": 0, "setup": s.get("status"), "kinds": {}} for t in desc["tests"]}
        outs.append(out)
        if s.get("status") != "ok":
            continue
        acc0 = l3.ref_accounts(rt)
        acc1 = l3.accounts_after(s, acc0)
        for t in desc["tests"]:
            sig = sig_of(t)
            for vals in cands[sig]["inputs"]:
                data = l3.selector(sig) + l3.abi_encode(t["params"], decode_input(t, vals))
                cases.append((acc1, l3.ref_msg(data), None, s.get("ctr", 0)))
                index.append((n, sig, vals))
    res = refevm.run_many(cases) if cases else []
    for (n, sig, vals), r in zip(index, res):
        codes = items[n][3]
        k = l3.classify_ref(r, codes)
        o = outs[n][sig]
        o["n"] += 1
        kk = str(k).split(":")[0]
        o["kinds"][kk] = o["kinds"].get(kk, 0) + 1
        if str(k).startswith("panic:") or k == "fail":
            if len(o["violating"]) < 3:
                o["violating"].append({"args": vals, "outcome": k})
    return outs
