"""C08 helpers: the location-term grammar (python mirror of coq/Spec/StorageSpec.v `loc`),
its independent EVM semantics (real Keccak-256), rendering to z3 terms / to the extracted
model's encoding / to EVM code, and generators of Solidity-layout location groups.

term := ("K", z) | ("V", i) | ("S256", a) | ("S512", k, a) | ("SN", bits, ("c"|"v", x), a)
      | ("SC", bits, p) | ("Add", [t...])
"""
from eth_hash.auto import keccak

W = 1 << 256
MAXOFF = 1 << 64


def keccak_int(data: bytes) -> int:
    return int.from_bytes(keccak(data), "big")


def H(bits, x):
    return keccak_int(x.to_bytes(bits // 8, "big"))


# ----------------------------------------------------------------------------- spec semantics

def spec_eval(t, env):
    """EVM value of a location expression under env (list of ints for V i)"""
    k = t[0]
    if k == "K":
        return t[1] % W
    if k == "V":
        return env[t[1]] % W
    if k == "S256":
        return H(256, spec_eval(t[1], env))
    if k == "S512":
        return H(512, spec_eval(t[1], env) * W + spec_eval(t[2], env))
    if k == "SN":
        bits, (kk, kv) = t[1], t[2]
        key = (kv if kk == "c" else env[kv]) % (1 << bits)
        return H(bits + 256, key * W + spec_eval(t[3], env))
    if k == "SC":
        return H(t[1], t[2])
    if k == "Add":
        return sum(spec_eval(x, env) for x in t[1]) % W
    raise ValueError(t)


def closed(t):
    k = t[0]
    if k in ("K", "SC"):
        return True
    if k == "V":
        return False
    if k == "S256":
        return closed(t[1])
    if k == "S512":
        return closed(t[1]) and closed(t[2])
    if k == "SN":
        return t[2][0] == "c" and closed(t[3])
    if k == "Add":
        return all(closed(x) for x in t[1])
    raise ValueError(t)


def hashes_in(t, env=()):
    """(hash, bits, preimage) of every closed hash application inside t (what a concrete run
    of the program would pass through sha3_data, i.e. register)"""
    out = []

    def go(t):
        k = t[0]
        if k == "S256":
            go(t[1])
            if closed(t[1]):
                p = spec_eval(t[1], env)
                out.append((H(256, p), 256, p))
        elif k == "S512":
            go(t[1]); go(t[2])
            if closed(t[1]) and closed(t[2]):
                p = spec_eval(t[1], env) * W + spec_eval(t[2], env)
                out.append((H(512, p), 512, p))
        elif k == "SN":
            go(t[3])
            if t[2][0] == "c" and closed(t[3]):
                p = (t[2][1] % (1 << t[1])) * W + spec_eval(t[3], env)
                out.append((H(t[1] + 256, p), t[1] + 256, p))
        elif k == "SC":
            out.append((H(t[1], t[2]), t[1], t[2]))
        elif k == "Add":
            for x in t[1]:
                go(x)

    go(t)
    return out


# ----------------------------------------------------------------------------- encodings

def enc_term(t):
    k = t[0]
    if k == "K":
        return [0, t[1]]
    if k == "V":
        return [1, t[1]]
    if k == "S256":
        return [2] + enc_term(t[1])
    if k == "S512":
        return [3] + enc_term(t[1]) + enc_term(t[2])
    if k == "SN":
        return [4, t[1], 0 if t[2][0] == "c" else 1, t[2][1]] + enc_term(t[3])
    if k == "SC":
        return [5, t[1], t[2]]
    if k == "Add":
        out = [6, len(t[1])]
        for x in t[1]:
            out += enc_term(x)
        return out
    raise ValueError(t)


def enc_input(reg, env, t):
    out = [len(reg)]
    for h, b, p in reg:
        out += [h, b, p]
    return out + [len(env)] + list(env) + enc_term(t)


_FN = {}


def f_sha3(bits):
    import z3

    from halmos.utils import f_sha3_name

    if bits not in _FN:
        _FN[bits] = z3.Function(f_sha3_name(bits), z3.BitVecSort(bits), z3.BitVecSort(256))
    return _FN[bits]


def nary_add(args):
    """bvadd application with n >= 2 arguments (what z3's simplifier produces)"""
    import z3

    if len(args) == 2:
        return args[0] + args[1]
    decl = (args[0] + args[1]).decl()
    arr = (z3.Ast * len(args))(*[a.as_ast() for a in args])
    return z3.BitVecRef(z3.Z3_mk_app(args[0].ctx_ref(), decl.ast, len(args), arr), args[0].ctx)


def to_z3(t, flat_add=True):
    import z3

    k = t[0]
    if k == "K":
        return z3.BitVecVal(t[1], 256)
    if k == "V":
        return z3.BitVec(f"v{t[1]}", 256)
    if k == "S256":
        return f_sha3(256)(to_z3(t[1], flat_add))
    if k == "S512":
        return f_sha3(512)(z3.Concat(to_z3(t[1], flat_add), to_z3(t[2], flat_add)))
    if k == "SN":
        bits, (kk, kv) = t[1], t[2]
        if kk == "c":
            key = z3.BitVecVal(kv, bits)
        elif bits < 256:
            key = z3.Extract(bits - 1, 0, z3.BitVec(f"v{kv}", 256))
        else:
            key = z3.ZeroExt(bits - 256, z3.BitVec(f"v{kv}", 256))
        return f_sha3(bits + 256)(z3.Concat(key, to_z3(t[3], flat_add)))
    if k == "SC":
        return f_sha3(t[1])(z3.BitVecVal(t[2], t[1]))
    if k == "Add":
        args = [to_z3(x, flat_add) for x in t[1]]
        if len(args) < 2:
            raise ValueError("z3 cannot represent a unary bvadd")
        if flat_add:
            return nary_add(args)
        r = args[0]
        for a in args[1:]:
            r = r + a
        return r
    raise ValueError(t)


def z3_env(env):
    return {f"v{i}": v for i, v in enumerate(env)}


# ----------------------------------------------------------------------------- EVM code

def code_of(t, nargs):
    """assembler items leaving the value of t on the stack.  Scratch memory 0..0x5f.
    V i = calldata word i."""
    k = t[0]
    if k == "K":
        return [("push", t[1] % W)]
    if k == "V":
        return [("push", 4 + 32 * t[1]), "CALLDATALOAD"]
    if k == "S256":
        return code_of(t[1], nargs) + ["PUSH0", "MSTORE", ("push", 32), "PUSH0", "SHA3"]
    if k == "S512":
        return code_of(t[1], nargs) + code_of(t[2], nargs) + [("push", 32), "MSTORE", "PUSH0", "MSTORE", ("push", 64), "PUSH0", "SHA3"]
    if k == "SN":
        bits, (kk, kv) = t[1], t[2]
        nb = bits // 8
        keyc = [("push", (kv % (1 << bits)) << (256 - bits))] if kk == "c" else [("push", 4 + 32 * kv), "CALLDATALOAD", ("push", 256 - bits), "SHL"]
        # key (left-aligned) at 0, then the base word at nb (overwrites the key's padding)
        return keyc + code_of(t[3], nargs) + ["SWAP1", "PUSH0", "MSTORE", ("push", nb), "MSTORE", ("push", nb + 32), "PUSH0", "SHA3"]
    if k == "SC":
        bits, p = t[1], t[2]
        nb = bits // 8
        data = p.to_bytes(nb, "big")
        items = []
        for off in range(0, nb, 32):
            chunk = data[off:off + 32]
            items += [("push", int.from_bytes(chunk.ljust(32, b"\0"), "big")), ("push", off), "MSTORE"]
        return items + [("push", nb), "PUSH0", "SHA3"]
    if k == "Add":
        items = code_of(t[1][0], nargs)
        for x in t[1][1:]:
            # EVM ADD pops a (top) then b: value a + b; operand order as in the term list
            items += code_of(x, nargs) + ["SWAP1", "ADD"]
        return items
    raise ValueError(t)


def program(ops, nargs):
    """ops: ("sstore"|"tstore", loc, valterm) | ("sload"|"tload", loc) | ("sha3", loc)
    (sha3: compute and discard -- registers the hashes).  Loaded values are returned as
    consecutive words."""
    items = []
    nload = 0
    for op in ops:
        if op[0] in ("sstore", "tstore"):
            items += code_of(op[2], nargs) + code_of(op[1], nargs) + ["SSTORE" if op[0] == "sstore" else "TSTORE"]
        elif op[0] in ("sload", "tload"):
            items += code_of(op[1], nargs) + ["SLOAD" if op[0] == "sload" else "TLOAD", ("push", 0x80 + 32 * nload), "MSTORE"]
            nload += 1
        elif op[0] == "sha3":
            items += code_of(op[1], nargs) + ["POP"]
        elif op[0] in ("sinc", "tinc"):   # loc := loc + 1 (read-modify-write)
            ld, st_ = ("SLOAD", "SSTORE") if op[0] == "sinc" else ("TLOAD", "TSTORE")
            items += code_of(op[1], nargs) + [ld, ("push", 1), "ADD"] + code_of(op[1], nargs) + [st_]
        else:
            raise ValueError(op)
    items += [("push", 32 * nload), ("push", 0x80), "RETURN"]
    return items, nload


def ref_program(ops, env):
    """flat-dict reference (the spec): values of the loads"""
    st, tr, out = {}, {}, []
    for op in ops:
        if op[0] in ("sstore", "tstore"):
            (st if op[0] == "sstore" else tr)[spec_eval(op[1], env)] = spec_eval(op[2], env)
        elif op[0] in ("sload", "tload"):
            out.append((st if op[0] == "sload" else tr).get(spec_eval(op[1], env), 0))
        elif op[0] in ("sinc", "tinc"):
            d = st if op[0] == "sinc" else tr
            k = spec_eval(op[1], env)
            d[k] = (d.get(k, 0) + 1) % W
    return out


# ----------------------------------------------------------------------------- layout generator

KEY_CONSTS = [0, 1, 2, 3, 7, 255, 256, (1 << 160) - 1, 1 << 255, W - 1]
SMALL = [0, 1, 2, 3]


class LayoutGen:
    """Random Solidity-like layouts and accesses.  A type is
         ("val",) | ("map", keybits, T) | ("arr", T) | ("struct", [T...])
       Accesses are produced as *canonical* terms (runtime spelling: every hash an explicit
       Sha node, every addition an Add node) together with feature tags; `respell` then
       picks a compiler/runtime spelling."""

    def __init__(self, r, nvars=3, narrow=True, big_slots=True):
        self.r = r
        self.nvars = nvars
        self.narrow = narrow
        self.big_slots = big_slots

    def gen_type(self, depth):
        r = self.r
        c = r.random()
        if depth <= 0 or c < 0.25:
            return ("val",)
        if c < 0.55:
            bits = 256
            if self.narrow and r.random() < 0.35:
                bits = r.choice([0, 0, 8, 16, 24, 160, 264, 512])   # 0 = bytes/string key: width chosen per access
            return ("map", bits, self.gen_type(depth - 1))
        if c < 0.8:
            return ("arr", self.gen_type(depth - 1))
        return ("struct", [self.gen_type(depth - 1) for _ in range(r.randint(2, 3))])

    def gen_layout(self):
        r = self.r
        slots = {}
        n = r.randint(1, 3)
        pool = [0, 1, 2, 3, 4, 5, 6, 255, 256, 1000]
        if self.big_slots:
            pool += [100000, (1 << 64) - 1]
        s = r.choice(pool[:7])
        for _ in range(n):
            t = self.gen_type(r.randint(1, 3))
            slots[s] = t
            s += self.width(t) + r.choice([0, 0, 1])
            if r.random() < 0.2:
                s = r.choice(pool)
                while s in slots:
                    s += 7
        return slots

    def width(self, t):
        return sum(self.width(x) for x in t[1]) if t[0] == "struct" else 1

    def key_term(self, bits):
        r = self.r
        c = r.random()
        if bits != 256:
            if c < 0.5 and self.nvars:
                return ("v", r.randrange(self.nvars))
            return ("c", r.choice([0, 0, 1, 2, 0xAB, 0xAB00, 0xCD, 0x00CD, (1 << bits) - 1, r.getrandbits(bits)]) % (1 << bits))
        if c < 0.45 and self.nvars:
            return ("V", r.randrange(self.nvars))
        if c < 0.85:
            return ("K", r.choice(KEY_CONSTS))
        if c < 0.93 and self.nvars:
            return ("Add", [("V", r.randrange(self.nvars)), ("K", r.choice(SMALL))])
        return ("S256", ("K", r.choice(SMALL)))

    def index_terms(self):
        """list of terms whose sum is the array index / offset (possibly empty = 0)"""
        r = self.r
        c = r.random()
        if c < 0.2:
            return []
        if c < 0.5:
            return [("K", r.choice(SMALL + [5, 255, 65535, 65536, MAXOFF - 1]))]
        if c < 0.8 and self.nvars:
            return [("V", r.randrange(self.nvars))]
        if self.nvars:
            return [("V", r.randrange(self.nvars)), ("K", r.choice(SMALL))]
        return [("K", 1), ("K", 2)]

    def access(self, layout):
        """-> (canonical term, tags)"""
        r = self.r
        slot = r.choice(sorted(layout))
        t = layout[slot]
        cur = ("K", slot)
        pending = []   # offset terms to add to cur
        tags = set()

        def flush():
            nonlocal cur, pending
            if pending:
                items = [cur] + pending
                cur = ("Add", items)
                pending = []

        while True:
            if t[0] == "val":
                break
            if t[0] == "struct":
                i = r.randrange(len(t[1]))
                off = sum(self.width(x) for x in t[1][:i])
                if cur[0] == "K" and not pending:
                    cur = ("K", cur[1] + off)       # compile-time constant slot
                elif off or r.random() < 0.2:
                    pending.append(("K", off))
                t = t[1][i]
                tags.add("struct")
                continue
            flush()
            if t[0] == "map":
                bits = t[1] or r.choice([8, 16])
                k = self.key_term(bits)
                if bits != 256 and k[0] == "c" and closed(cur):
                    tags.add("narrow-constant-key")
                if bits == 256 and k[0] == "S256":
                    tags.add("hash-valued-key")
                cur = ("S512", k, cur) if bits == 256 else ("SN", bits, k, cur)
                tags.add("map" if bits == 256 else "narrowmap")
                t = t[2]
            elif t[0] == "arr":
                cur = ("S256", cur)
                pending += self.index_terms()
                tags.add("arr")
                t = t[1]
            if r.random() < 0.12:
                break   # stop at an inner node (e.g. array length slot / packed struct head)
        flush()
        return cur, tags


def shuffle_adds(r, t):
    """reorder the arguments of additions; nest or flatten them"""
    k = t[0]
    if k in ("K", "V", "SC"):
        return t
    if k == "S256":
        return ("S256", shuffle_adds(r, t[1]))
    if k == "S512":
        return ("S512", shuffle_adds(r, t[1]), shuffle_adds(r, t[2]))
    if k == "SN":
        return ("SN", t[1], t[2], shuffle_adds(r, t[3]))
    items = [shuffle_adds(r, x) for x in t[1]]
    r.shuffle(items)
    if len(items) > 2 and r.random() < 0.4:
        i = r.randint(1, len(items) - 1)
        a, b = items[:i], items[i:]
        items = [("Add", a) if len(a) > 1 else a[0], ("Add", b) if len(b) > 1 else b[0]]
        r.shuffle(items)
    return ("Add", items)


def respell(r, t, reg, tags, p_const=0.5, p_unreg=0.0, p_neg=0.15):
    """Choose a spelling of the canonical term t.  Closed hash computations are either kept
    (runtime SHA3 -> the term halmos sees is the *constant*, and the hash gets registered:
    that is modelled by folding + registering) or replaced by a compile-time constant
    (possibly merged with a constant offset, possibly biased by -1) which is registered
    only if some other access registers it or it is in the precomputed tables.
    reg: list collecting (hash, bits, pre) registrations.  Returns the respelled term."""
    k = t[0]
    if k in ("K", "V"):
        return t
    if k == "Add":
        items = [respell(r, x, reg, tags, p_const, p_unreg, p_neg) for x in t[1]]
        ks = [x for x in items if x[0] == "K"]
        big = [x for x in ks if x[1] >= MAXOFF]
        # constant folding of (hash constant + small constants), as solc's optimizer does
        if len(big) == 1 and len(ks) >= 2 and r.random() < 0.6:
            rest = [x for x in items if x[0] != "K"]
            c = sum(x[1] for x in ks) % W
            tags.add("const+offset")
            if rest and r.random() < p_neg:
                c = (c - 1) % W
                rest.append(("K", 1))
                tags.add("negative-offset-constant")
            items = [("K", c)] + rest
        if len(items) == 1:
            return items[0]
        return ("Add", items)
    # hash nodes
    if k == "S256":
        t2 = ("S256", respell(r, t[1], reg, tags, p_const, p_unreg, p_neg))
    elif k == "S512":
        t2 = ("S512", respell(r, t[1], reg, tags, p_const, p_unreg, p_neg), respell(r, t[2], reg, tags, p_const, p_unreg, p_neg))
    elif k == "SN":
        t2 = ("SN", t[1], t[2], respell(r, t[3], reg, tags, p_const, p_unreg, p_neg))
    else:
        t2 = t
    if closed(t2) and r.random() < p_const:
        h = spec_eval(t2, ())
        hs = hashes_in(t2)
        if r.random() < p_unreg:
            tags.add("unregistered-hash-constant")
        else:
            for e in hs:
                if e not in reg:
                    reg.append(e)
        tags.add("hash-constant")
        return ("K", h)
    if closed(t2):
        tags.add("closed-hash-term")
    return t2
