"""Starts halmos' own entry point (halmos.__main__.main) unchanged.

When C05_STALE_READ=k is set, the k-th read (0-based) of the executor's shutdown flag made by
run_test's main loop (`ctx.solving_ctx.executor.is_shutdown()` at the top of the path loop)
is turned into a *stale read*: the flag is read (False), then the main thread is held until
some other thread has set the flag (or 20 s pass), and the value read earlier is returned.
This is an ordinary thread interleaving of the unchanged code (main thread pre-empted between
reading the flag and acting on it); no halmos logic is replaced.
"""
import os
import sys
import threading


def install_stale_read(k):
    import halmos.processes as pr

    class SchedEvent(threading.Event):
        def __init__(self):
            super().__init__()
            self.n_main_reads = 0

        def is_set(self):
            v = super().is_set()
            if threading.current_thread() is threading.main_thread():
                f = sys._getframe(1)
                if f.f_code.co_name == "is_shutdown" and f.f_back is not None and f.f_back.f_code.co_name == "run_test":
                    idx = self.n_main_reads
                    self.n_main_reads += 1
                    if idx == k and not v:
                        self.wait(20)  # pre-empted here until another thread sets the flag
                        sys.stderr.write(f"C05-SCHED stale read #{idx} returned False, flag now {super().is_set()}\n")
            return v

    orig_init = pr.PopenExecutor.__init__

    def init(self, *a, **kw):
        orig_init(self, *a, **kw)
        self._shutdown = SchedEvent()

    pr.PopenExecutor.__init__ = init


if __name__ == "__main__":
    k = os.environ.get("C05_STALE_READ")
    if k not in (None, ""):
        install_stale_read(int(k))
    from halmos.__main__ import main

    sys.exit(main())
