"""Regression corpus of the L2 ties (C01 / C02): one hand-written scenario per mechanism that a seeded
change (seeded/C01-m*, seeded/C02-m*) or a repaired defect needed in order to manifest.  The corpus runs
first on every check, so these classes stay covered whatever the random generator draws.
Each entry: (name, accounts {addr: items}, options); the executing account is scenarios.THIS.
"""
from harness import asm, progen, scenarios

T = scenarios.THIS
A, B = 0x1000, 0x2000
ARG0 = [("push", 4), "CALLDATALOAD"]
ARG1 = [("push", 36), "CALLDATALOAD"]


def ret(n):
    return [("push", n), "PUSH0", "RETURN"]


def call(kind, to, value=None, argsz=32, retoff=64, retsz=32):
    items = [("push", retsz), ("push", retoff), ("push", argsz), ("push", 0)]
    if kind in ("CALL", "CALLCODE"):
        items += value if value is not None else [("push", 0)]
    return items + (to if isinstance(to, list) else [("push", to)]) + [("push", 100000), kind]


def initcode_words(init):
    assert len(init) <= 64
    w0 = int.from_bytes(init[:32].ljust(32, b"\0"), "big")
    w1 = int.from_bytes(init[32:64].ljust(32, b"\0"), "big")
    return [("pushn", 32, w0), ("push", 256), "MSTORE", ("pushn", 32, w1), ("push", 288), "MSTORE"], len(init)


def entries():
    out = []
    # -- a callee with two FAILING paths (selected by its argument); the caller then bumps a slot and publishes it:
    #    a rollback snapshot shared between the failing paths shows as a double bump                     [C01-m1, C09-m1]
    callee = ["PUSH0", "CALLDATALOAD", ("ref", "X"), "JUMPI", ("push", 9), ("push", 1), "SSTORE", "PUSH0", "PUSH0", "REVERT",
              ("label", "X"), ("push", 8), ("push", 1), "TSTORE", "INVALID"]
    for kind in ("CALL", "DELEGATECALL", "STATICCALL", "CALLCODE"):
        main = ARG0 + ["PUSH0", "MSTORE"] + call(kind, A) + [("push", 192), "MSTORE",
                "PUSH0", "SLOAD", ("push", 1), "ADD", "PUSH0", "SSTORE", "PUSH0", "SLOAD", "PUSH0", "MSTORE",
                ("push", 2), "TLOAD", ("push", 1), "ADD", ("push", 2), "TSTORE", ("push", 2), "TLOAD", ("push", 32), "MSTORE"] + ret(224)
        out.append((f"two-failing-callee-paths-{kind}", {T: main, A: callee}, {}))
    # -- concrete fast paths on dirty operands                                                          [C01-m2, C06]
    main = []
    for i, (b, x) in enumerate([(0, 0x17F), (0, 0x100), (1, 0x18000), (0, 0x80), (30, 1 << 255), (31, 5), (2, (1 << 160) + 5)]):
        main += [("push", x), ("push", b), "SIGNEXTEND", ("push", 32 * i), "MSTORE"]
    out.append(("signextend-dirty-operands", {T: main + ret(224)}, {}))
    # -- an input-bounded loop cut by --loop whose counter is published                                  [C01-m3]
    main = ["PUSH0", ("label", "L"), "DUP1"] + ARG0 + ["SWAP1", "LT", "ISZERO", ("ref", "E"), "JUMPI", ("push", 1), "ADD", ("ref", "L"), "JUMP",
            ("label", "E"), "PUSH0", "MSTORE"] + ret(32)
    for loop in (1, 2, 3):
        out.append((f"symbolic-loop-counter-loop{loop}", {T: main}, {"loop": loop}))
    # -- CODECOPY / EXTCODECOPY running past the end of the code into dirty memory                       [C01-m4, F23]
    main = ARG0 + ["PUSH0", "MSTORE", ARG0[0], ARG0[1], ("push", 32), "MSTORE"]
    main += [("push", 32), "CODESIZE", ("push", 2), "SWAP1", "SUB", "PUSH0", "CODECOPY"]
    main += [("push", 32), ("push", 0x40), ("push", 32), ("push", A), "EXTCODECOPY"]
    main += ARG1 + [("push", 64), "MSTORE", ("push", 32), ("push", 5), ("push", 64), ("push", 0xC0FFEE), "EXTCODECOPY"] + ret(96)
    out.append(("codecopy-past-the-end", {T: main, A: ["STOP"]}, {}))
    # -- return data shorter than the output window whose tail is dirty                                 [C01-m5]
    callee = ["CALLER", "PUSH0", "MSTORE"] + ret(32)
    for kind in ("CALL", "STATICCALL"):
        main = ARG0 + [("push", 96), "MSTORE", ARG1[0], ARG1[1], ("push", 64), "MSTORE"] + call(kind, A, retoff=64, retsz=64) + [("push", 192), "MSTORE"] + ret(224)
        out.append((f"short-returndata-dirty-window-{kind}", {T: main, A: callee}, {}))
    # -- paying oneself: balance unchanged                                                              [C01-m6]
    main = ["CALLDATASIZE", ("ref", "G"), "JUMPI", "STOP", ("label", "G")] + call("CALL", ["ADDRESS"], value=[("push", 7)], argsz=0, retsz=0) + ["PUSH0", "MSTORE", "SELFBALANCE", ("push", 32), "MSTORE"]
    main += call("CALL", ["ADDRESS"], value=ARG0, argsz=0, retsz=0) + [("push", 64), "MSTORE", "SELFBALANCE", ("push", 96), "MSTORE"] + ret(128)
    out.append(("self-call-with-value", {T: main}, {}))
    # -- what one side of a branch learns about an input (arg1 == 7) is unknown on its sibling          [C01-m7, C13-m4, C03-m1]
    main = ARG0 + [("push", 1), "EQ", ("ref", "R"), "JUMPI"] + ARG1 + [("push", 7), "EQ", ("ref", "S"), "JUMPI"] + ARG1 + ["PUSH0", "MSTORE"] + ret(32) + \
           [("label", "S"), "STOP", ("label", "R")] + ARG1 + ["PUSH0", "MSTORE"] + ret(32)
    out.append(("sibling-does-not-know-pinned-input", {T: main}, {}))
    # -- a constructor that reverts WITH data: the creator's returndata buffer                           [C01-m8, C09-m3]
    init = asm.assemble([("push", 0xAB), "PUSH0", "MSTORE", ("push", 32), "PUSH0", "REVERT"])
    pre, n = initcode_words(init)
    main = pre + [("push", n), ("push", 256), "PUSH0", "CREATE", "PUSH0", "MSTORE", "RETURNDATASIZE", ("push", 32), "MSTORE",
                  "RETURNDATASIZE", "PUSH0", ("push", 64), "RETURNDATACOPY"] + ret(96)
    out.append(("create-reverting-with-data", {T: main}, {}))
    # -- a constructor that reads its (empty) calldata                                                   [fix 8a73b60]
    init = asm.assemble([("push", 32), "PUSH0", "PUSH0", "CALLDATACOPY", "CALLDATASIZE", ("push", 32), "MSTORE", ("push", 64), "PUSH0", "RETURN"])
    pre, n = initcode_words(init)
    out.append(("constructor-reads-calldata", {T: pre + [("push", n), ("push", 256), "PUSH0", "CREATE", "PUSH0", "MSTORE"] + ret(32)}, {}))
    # -- a failing creation frame inside which a nested creation succeeded                              [C09-m4]
    inner = asm.assemble([("push", 0x00), "PUSH0", "MSTORE8", ("push", 1), "PUSH0", "RETURN"])
    ipre, inn = initcode_words(inner)
    outer = asm.assemble(ipre + [("push", inn), ("push", 256), "PUSH0", "CREATE", "POP", "PUSH0", "PUSH0", "REVERT"])
    if len(outer) <= 64:
        pre, n = initcode_words(outer)
        main = pre + [("push", n), ("push", 256), "PUSH0", "CREATE", "PUSH0", "MSTORE", ("pushn", 4, 0xAAAA0002), "EXTCODESIZE", ("push", 32), "MSTORE"] + ret(64)
        out.append(("failed-creation-with-nested-creation", {T: main}, {}))
    # -- a symbolic call target with several aliases (and EXTCODESIZE / BALANCE of it)                  [C02-m1, C20-m4]
    ok = [("push", 1), "PUSH0", "MSTORE"] + ret(32)
    bad = ["PUSH0", "PUSH0", "REVERT"]
    main = call("CALL", ARG0 + [("pushn", 20, (1 << 160) - 1), "AND"]) + ["PUSH0", "MSTORE", "RETURNDATASIZE", ("push", 32), "MSTORE"] + ARG0 + ["EXTCODESIZE", ("push", 96), "MSTORE"] + ret(128)
    out.append(("symbolic-call-target", {T: main, A: ok, B: bad}, {}))
    # -- value-bearing call whose funds check the solver may not decide                                 [C02-m2, C09-m2]
    for kind in ("CALL", "CALLCODE"):
        main = ARG0 + ARG1 + ["MUL", ("push", 0x77), "EQ", ("ref", "V"), "JUMPI", "STOP", ("label", "V")] + call(kind, A, value=ARG1, retsz=0) + ["PUSH0", "MSTORE", "SELFBALANCE", ("push", 32), "MSTORE"] + ret(64)
        out.append((f"value-call-symbolic-value-{kind}", {T: main, A: ["STOP"]}, {}))
    # -- correlated branches: what the first refutes on one side is feasible on the other              [C02-m4]
    main = ARG0 + [("push", 10), "SWAP1", "LT", "ISZERO", ("ref", "J"), "JUMPI", ("push", 0xA1), "PUSH0", "MSTORE", ("label", "J")] + \
           ARG0 + [("push", 5), "SWAP1", "LT", "ISZERO", ("ref", "K"), "JUMPI", "PUSH0", "PUSH0", "REVERT", ("label", "K")] + ret(32)
    out.append(("correlated-branches", {T: main}, {}))
    # -- keccak(a) + i + 5 < keccak(a): the overflow side must stay                                      [C02-m5]
    h = ARG0 + ["PUSH0", "MSTORE", ("push", 32), "PUSH0", "SHA3"]
    main = h + h + ARG1 + [("push", 5), "ADD", "ADD", "LT", ("ref", "W"), "JUMPI", ("push", 1), "PUSH0", "MSTORE"] + ret(32) + [("label", "W"), ("push", 2), "PUSH0", "MSTORE"] + ret(32)
    out.append(("hash-plus-index-overflow", {T: main}, {}))
    # -- MOD / SMOD / DIV / SDIV with a symbolic (possibly zero) second operand, then a branch           [C02-m6, C03-m2]
    for op in ("MOD", "SMOD", "DIV", "SDIV"):
        main = ARG1 + ARG0 + [op, "DUP1", "PUSH0", "MSTORE", ("push", 3), "LT", ("ref", "Z"), "JUMPI", ("push", 7), ("push", 32), "MSTORE", ("label", "Z")] + ret(64)
        out.append((f"symbolic-divisor-{op}", {T: main}, {}))
    # -- vm.assert* that is bound to fail on its path                                                   [C02-m3]
    hevm = 0x7109709ECFA91A80626FF3989D68F67F5B1DD12D
    main = ARG0 + [("push", 3), "SWAP1", "LT", "ISZERO", ("ref", "N"), "JUMPI",
                   ("pushn", 32, 0xDB07FCD2 << 224), "PUSH0", "MSTORE"] + ARG0 + [("push", 4), "MSTORE", ("push", 5), ("push", 36), "MSTORE",
                   "PUSH0", "PUSH0", ("push", 68), "PUSH0", "PUSH0", ("pushn", 20, hevm), ("push", 100000), "CALL", "POP", ("label", "N")] + ret(32)
    out.append(("vm-assert-bound-to-fail", {T: main}, {"_c02_only": True}))
    # -- JUMPI to an invalid destination: only the inputs that take the jump halt                       [fix 104420e, former F21]
    #    (symbolic condition: plain invalid target / a 0x5b inside PUSH data / the JUMPI after an earlier branch;
    #     decided condition: the halt leaf must carry what the path already knows)
    main = ARG0 + [("push", 0x77), "JUMPI", ("push", 0xA1), "PUSH0", "MSTORE"] + ret(32)
    out.append(("jumpi-symbolic-cond-invalid-target", {T: main}, {}))
    main = ARG0 + [("push", 3), "LT", ("push", 8), "JUMPI", ("pushn", 2, 0x5B5B), "PUSH0", "MSTORE"] + ret(32)
    out.append(("jumpi-symbolic-cond-target-in-push-data", {T: main}, {}))
    main = ARG1 + [("ref", "Q"), "JUMPI", ("push", 1), "PUSH0", "SSTORE", ("label", "Q")] + ARG0 + ["ISZERO", ("push", 0xEE), "JUMPI",
                   "PUSH0", "SLOAD", "PUSH0", "MSTORE"] + ret(32)
    out.append(("jumpi-invalid-target-after-branch", {T: main}, {}))
    main = ARG0 + [("push", 5), "EQ", ("ref", "P"), "JUMPI", ("push", 2), "PUSH0", "MSTORE"] + ret(32) + \
           [("label", "P")] + ARG0 + [("push", 5), "EQ", ("push", 0xEF), "JUMPI", ("push", 3), "PUSH0", "MSTORE"] + ret(32)
    out.append(("jumpi-decided-cond-invalid-target", {T: main}, {}))
    # -- a pranked frame that pays: vm.prank(A), then CREATE / CALL with a symbolic value -- the account whose balance
    #    decides the insufficient-funds fork must be the one that is debited on the success path         [C02-m12]
    prank = [("pushn", 32, 0xCA669FA7 << 224), "PUSH0", "MSTORE", ("push", A), ("push", 4), "MSTORE",
             "PUSH0", "PUSH0", ("push", 36), "PUSH0", "PUSH0", ("pushn", 20, hevm), ("push", 100000), "CALL", "POP"]
    pre, n = initcode_words(asm.assemble(["STOP"]))
    main = prank + pre + [("push", 1000), "POP", ("push", n), ("push", 256)] + ARG0 + ["CREATE", "ISZERO", "ISZERO", "PUSH0", "MSTORE", "SELFBALANCE", ("push", 32), "MSTORE"] + ret(64)
    out.append(("pranked-create-with-symbolic-value", {T: main, A: ["STOP"]}, {"_c02_only": True}))
    main = prank + [("push", 1000), "POP"] + call("CALL", B, value=ARG0, argsz=0, retsz=0) + ["PUSH0", "MSTORE", "SELFBALANCE", ("push", 32), "MSTORE"] + ret(64)
    out.append(("pranked-call-with-symbolic-value", {T: main, A: ["STOP"], B: ["STOP"]}, {"_c02_only": True}))
    # -- symbolic initial storage: a mapping entry m[arg1] (slot 2) and a scalar (slot 1) are inputs; both are published,
    #    one of them after being overwritten on one side of a branch                                      [harness false alarm, 10.3]
    mload = ARG1 + ["PUSH0", "MSTORE", ("push", 2), ("push", 32), "MSTORE", ("push", 64), "PUSH0", "SHA3", "SLOAD"]
    main = mload + [("push", 64), "MSTORE", ("push", 1), "SLOAD", ("push", 96), "MSTORE"] + ARG0 + [("ref", "M"), "JUMPI", ("push", 9), ("push", 1), "SSTORE", ("label", "M"),
                    ("push", 1), "SLOAD", ("push", 128), "MSTORE"] + mload + [("push", 160), "MSTORE"] + ret(192)
    out.append(("symbolic-storage-mapping-and-scalar", {T: main}, {"_symbolic_storage": True}))
    return out + create2_entries()


def c2(init, salt, value=None, arg=None, base=256):
    """items: store the init code (+ a 32-byte constructor argument right after it) in memory and CREATE2 it;
    the result (address or 0) is left on the stack"""
    items = progen.place_code(init, base)
    n = len(init)
    if arg is not None:
        items += arg + [("push", base + n), "MSTORE"]
        n += 32
    return items + salt + [("push", n), ("push", base)] + (value or [("push", 0)]) + ["CREATE2"]


KNOWN_C2 = "known-create2-placeholder-"   # entries that exhibit the recorded finding C01-create2-placeholder-address


def create2_entries():
    """CREATE2 (DESIGN.md 10.2.x).  Every init code carries a tag byte of its own (PUSH1 tag; POP): two creations of one
    program either have the very same spelling of (sender, salt, init code) or different init codes -- except in the
    `known-create2-placeholder-*` entries, which are there to exhibit the recorded finding."""
    out = []
    rt_echo = asm.assemble(["CALLER", "PUSH0", "MSTORE", "ADDRESS", ("push", 32), "MSTORE", ("push", 64), "PUSH0", "RETURN"])
    other = asm.assemble([("push", 0xEE), "PUSH0", "MSTORE", ("push", 32), "PUSH0", "RETURN"])

    def deploy(code):
        return [("pushn", 32, int.from_bytes(code.ljust(32, b"\0"), "big")), "PUSH0", "MSTORE", ("push", len(code)), "PUSH0", "RETURN"]

    # what the creator looks at afterwards (the address stays on the stack): address, code size, returndata size
    look = ["DUP1", ("push", 192), "MSTORE", "DUP1", "EXTCODESIZE", ("push", 96), "MSTORE", "RETURNDATASIZE", ("push", 160), "MSTORE"]
    callit = [("push", 64), ("push", 128), "PUSH0", "PUSH0", "PUSH0", ("push", 192), "MLOAD", ("push", 100000), "CALL", ("push", 224), "MSTORE"]
    # (a) fully concrete init code; concrete / symbolic salt; the deployed code is called
    init = asm.assemble([("pushn", 1, 0x11), "POP"] + deploy(rt_echo))
    for name, salt in (("concrete-salt", [("push", 5)]), ("symbolic-salt", ARG0), ("caller-salt", ["CALLER"])):
        out.append((f"create2-concrete-init-{name}", {T: c2(init, salt) + look + ["POP"] + callit + ret(256)}, {}))

    # (b) a concrete constructor followed by a symbolic constructor argument; the constructor JUMPs over a trap, then
    #     branches on the argument; the deployed code (or the revert data) depends on it                 [seeded C19-m6]
    def ctor(n, e1, e2, test):
        return asm.assemble([("pushn", 1, 0x12), "POP", ("push", 32), ("pushn", 1, n), "PUSH0", "CODECOPY", ("ref", "A"), "JUMP", "INVALID", ("label", "A"),
                             "PUSH0", "MLOAD"] + test + [("ref", "B"), "JUMPI"] + e1 + [("label", "B")] + e2)

    variants = {
        "two-runtimes": (deploy(rt_echo), deploy(other), [("push", 5), "LT"]),
        "revert-or-deploy": ([("push", 32), "PUSH0", "REVERT"], deploy(rt_echo), ["ISZERO"]),
        "store-arg": (["PUSH0", "MLOAD", ("push", 3), "SSTORE"] + deploy(rt_echo), deploy(other), [("push", 7), "EQ"]),
    }
    for name, (e1, e2, test) in variants.items():
        init = ctor(len(ctor(0, e1, e2, test)), e1, e2, test)
        main = c2(init, [("push", 1)], arg=ARG0) + look + ["POP"] + ["RETURNDATASIZE", "PUSH0", ("push", 128), "RETURNDATACOPY"] + callit + ret(256)
        out.append((f"create2-ctor-args-{name}", {T: main}, {}))
    # the plain shape: PUSH1 3; JUMP; JUMPDEST; STOP followed by a symbolic word
    out.append(("create2-jumping-ctor-symbolic-tail", {T: c2(bytes.fromhex("6003565b00"), [("push", 0)], arg=ARG0) + look + ["POP"] + ret(256)}, {}))
    # (c) the same (salt, init code) twice: the second creation collides; another salt / init code does not; after a
    #     FAILED first creation the address is still free
    init = asm.assemble([("pushn", 1, 0x13), "POP"] + deploy(rt_echo))
    init_b = asm.assemble([("pushn", 1, 0x23), "POP"] + deploy(rt_echo))
    for name, salt in (("concrete", [("push", 7)]), ("symbolic", ARG1)):
        third = c2(init, [("push", 8)]) if name == "concrete" else c2(init_b, ARG1)
        main = c2(init, salt) + ["PUSH0", "MSTORE"] + c2(init, salt) + [("push", 32), "MSTORE", "RETURNDATASIZE", ("push", 64), "MSTORE"] + third + [("push", 96), "MSTORE"] + ret(128)
        out.append((f"create2-same-salt-twice-{name}", {T: main}, {}))
    bad = asm.assemble([("pushn", 1, 0x14), "POP", ("push", 0xAB), "PUSH0", "MSTORE", ("push", 32), "PUSH0", "REVERT"])
    main = c2(bad, [("push", 7)]) + ["PUSH0", "MSTORE", "RETURNDATASIZE", ("push", 32), "MSTORE"] + c2(bad, [("push", 7)]) + [("push", 64), "MSTORE"] + ret(96)
    out.append(("create2-same-salt-after-failure", {T: main}, {}))
    # (d) value: constant / symbolic / CALLVALUE, sufficient and not; the new account's balance; then a CREATE, whose
    #     address shows that CREATE2 did not consume the CREATE counter
    init = asm.assemble([("pushn", 1, 0x15), "POP", "CALLVALUE", "PUSH0", "SSTORE"] + deploy(rt_echo))
    tiny = asm.assemble([("push", 0xFE), "PUSH0", "MSTORE8", ("push", 1), "PUSH0", "RETURN"])
    for name, value in (("constant", [("push", 1000)]), ("symbolic", ARG1), ("callvalue", ["CALLVALUE"])):
        main = c2(init, [("push", 2)], value=value) + look + ["BALANCE", ("push", 128), "MSTORE", "SELFBALANCE", "PUSH0", "MSTORE"] + \
               progen.place_code(tiny, 256) + [("push", len(tiny)), ("push", 256), "PUSH0", "CREATE", ("push", 32), "MSTORE"] + ret(256)
        out.append((f"create2-with-value-{name}", {T: main}, {}))
    # (e) CREATE2 inside a callee: the sender is the callee (CALL) or the caller (DELEGATECALL / CALLCODE: the caller's own
    #     creation of the same thing then collides); a creating callee reached by STATICCALL halts
    init = asm.assemble([("pushn", 1, 0x16), "POP"] + deploy(rt_echo))
    callee = c2(init, [("push", 3)]) + ["DUP1", "PUSH0", "MSTORE", "EXTCODESIZE", ("push", 32), "MSTORE"] + ret(64)
    for kind in ("CALL", "DELEGATECALL", "CALLCODE", "STATICCALL"):
        main = ARG0 + ["PUSH0", "MSTORE"] + call(kind, A, retoff=64, retsz=64) + [("push", 192), "MSTORE", ("push", 64), "MLOAD", "EXTCODESIZE", ("push", 160), "MSTORE"] + \
               c2(init, [("push", 3)]) + [("push", 224), "MSTORE"] + ret(256)
        out.append((f"create2-in-callee-{kind}", {T: main, A: callee}, {}))
    # a callee that creates and then reverts: the creation goes with the frame, the caller's own creation of the same thing works
    callee_r = c2(init, [("push", 3)]) + ["PUSH0", "MSTORE", ("push", 32), "PUSH0", "REVERT"]
    main = call("DELEGATECALL", A, argsz=0, retoff=64, retsz=32) + ["PUSH0", "MSTORE", ("push", 64), "MLOAD", "EXTCODESIZE", ("push", 32), "MSTORE"] + \
           c2(init, [("push", 3)]) + [("push", 96), "MSTORE"] + ret(128)
    out.append(("create2-rolled-back-with-callee", {T: main, A: callee_r}, {}))
    # the executing frame itself is static
    out.append(("create2-static-frame", {T: c2(init, [("push", 3)]) + ["PUSH0", "MSTORE"] + ret(32)}, {"_static": True}))
    # (f) a constructor that reverts WITH data / halts: the creator's returndata buffer, nothing left behind, the value stays
    for name, tail in (("revert-data", [("push", 33), "PUSH0", "REVERT"]), ("invalid", ["INVALID"]), ("revert-empty", ["PUSH0", "PUSH0", "REVERT"])):
        init = asm.assemble([("pushn", 1, 0x17), "POP", ("push", 0xAB), "PUSH0", "MSTORE", ("push", 7), ("push", 1), "SSTORE"] + tail)
        main = c2(init, ARG0, value=[("push", 1)]) + ["PUSH0", "MSTORE", "RETURNDATASIZE", ("push", 32), "MSTORE", "RETURNDATASIZE", "PUSH0", ("push", 64), "RETURNDATACOPY",
                                                       "SELFBALANCE", ("push", 128), "MSTORE"] + ret(160)
        out.append((f"create2-failing-ctor-{name}", {T: main}, {}))
    # ---- recorded finding C01-create2-placeholder-address (known_findings.json): halmos does not compute a CREATE2 address, it
    #      NAMES it (0xBBBB0000 + k), and it does so for every keccak over 85 bytes starting with 0xff; whether two creations
    #      collide is decided by the SPELLING of the hashed term
    main = [("push", 0xFF), "PUSH0", "MSTORE8"] + ARG0 + [("push", 21), "MSTORE", ("push", 85), "PUSH0", "SHA3", "PUSH0", "MSTORE"] + ret(32)
    out.append((KNOWN_C2 + "sha3-of-85-bytes", {T: main}, {}))
    init = asm.assemble([("pushn", 1, 0x18), "POP"] + deploy(rt_echo))
    main = c2(init, [("push", 5)]) + ["PUSH0", "MSTORE"] + c2(init, ARG0) + [("push", 32), "MSTORE"] + ret(64)
    out.append((KNOWN_C2 + "collision-by-spelling", {T: main}, {"_args": [{"arg0": 5}]}))
    return out


def descriptions(direction):
    """scenario descriptions for l2common.run_corpus; entries marked _c02_only use a cheatcode the reference
    interpreter does not know (coverage is still checked)"""
    descs = []
    for name, accounts, options in entries():
        opts = {k: v for k, v in options.items() if not k.startswith("_")}
        if options.get("_c02_only") and direction != "c02":
            continue
        d = {"profile": "corpus:" + name, "code": asm.assemble(accounts[T]).hex(),
             "callees": {hex(a): asm.assemble(items).hex() for a, items in accounts.items() if a != T},
             "options": opts, "static": bool(options.get("_static")), "nargs": 2, "extra_args": options.get("_args", []), "symbolic_storage": bool(options.get("_symbolic_storage"))}
        descs.append(d)
    return descs
