"""C04: the real CounterexampleHandler (halmos/__main__.py) between a solver answer and the list
a counterexample is reported in.

L1 (`callback_cases` / `run_callback`): _solve_end_to_end_callback on fabricated futures for every
    combination of executor state (shut down or not), future content and --early-exit.
L2 (`gen_kill_scenarios` / `run_kill_scenario`): the real handle_assertion_violation ->
    thread pool -> solve_end_to_end -> PopenExecutor -> solver processes -> callback chain with
    scripted solvers that pace their output.  With --early-exit the first valid counterexample
    shuts the executor down, which kills the solvers still running: what such a solver had printed
    is a prefix of its answer (`sat` and the halmos variables, not yet the f_evm_ interpretation;
    `sat` alone; half a line ...).  Whatever the timing, a counterexample reported as valid must be
    the model of a COMPLETE answer that mentions no abstraction.
"""
import contextlib
import io
import shutil
import stat
import tempfile
import time
from concurrent.futures import Future, ThreadPoolExecutor
from pathlib import Path as P
from types import SimpleNamespace as NS

FUT_KINDS = ["sat_valid", "sat_invalid", "unsat", "unknown", "err", "exc_shutdown", "exc_value", "exc_oserror9"]
FUT_CODE = {"exc_shutdown": 0, "exc_value": 0, "exc_oserror9": 0, "unsat": 2, "sat_valid": 3, "sat_invalid": 4, "unknown": 5, "err": 6}


def _quiet():
    import logging

    logging.disable(logging.CRITICAL)


def _loud():
    import logging

    logging.disable(logging.NOTSET)


def make_ctx(dump_dir, early_exit, executor, thread_pool=None, verbose=0):
    ctx = NS(
        args=NS(verbose=verbose, early_exit=early_exit, cache_solver=False),
        info=NS(name="check_x", sig="check_x()"),
        solving_ctx=NS(executor=executor, dump_dir=P(dump_dir), unsat_cores=[]),
        thread_pool=thread_pool,
        solver_outputs=[], valid_counterexamples=[], invalid_counterexamples=[],
        traces={}, call_sequences={}, exec_cache={},
        contract_ctx=NS(probes_reported=set(), name="T"),
    )
    ctx.append_unsat_core = lambda core: ctx.solving_ctx.unsat_cores.append(core)
    return ctx


def make_handler(ctx):
    from halmos.__main__ import CounterexampleHandler

    return CounterexampleHandler(ctx=ctx, is_invariant=False, is_probe=False, flamegraph_enabled=False,
                                 potential_flamegraphs={}, submitted_futures=[])


# ----------------------------------------------------------------------------- L1

def callback_cases():
    return [{"shutdown": sh, "early_exit": ee, "future": k} for sh in (0, 1) for ee in (0, 1) for k in FUT_KINDS]


def run_callback(case, td):
    """-> {verdict: 0 none / 1 valid / 2 invalid, shut: executor.shutdown was called, n_outputs}"""
    from halmos.processes import ShutdownError
    from halmos.solve import ModelVariable, PotentialModel, SolverOutput
    from z3 import sat, unknown, unsat

    d = tempfile.mkdtemp(dir=td)
    calls = []
    ex = NS(is_shutdown=lambda: bool(case["shutdown"]), shutdown=lambda wait=True: calls.append(wait))
    ctx = make_ctx(P(d) / "dump", bool(case["early_exit"]), ex)
    ctx.call_sequences[7] = ""
    h = make_handler(ctx)
    f = Future()
    k = case["future"]
    if k == "exc_shutdown":
        f.set_exception(ShutdownError())
    elif k == "exc_value":
        f.set_exception(ValueError("x"))
    elif k == "exc_oserror9":
        f.set_exception(OSError(9, "bad fd"))
    else:
        res = {"sat_valid": sat, "sat_invalid": sat, "unsat": unsat, "unknown": unknown, "err": "err"}[k]
        model = None
        if res == sat:
            mv = ModelVariable("p_x_uint256_00", "x", "p_x_uint256_00", "BitVec", 256, 42)
            model = PotentialModel(model={"p_x_uint256_00": mv}, is_valid=(k == "sat_valid"))
        f.set_result(SolverOutput(res, 0, 7, str(P(d) / "dump" / "7.smt2"), model=model))
    pc = NS(path_id=7, dump_file=P(d) / "dump" / "7.smt2")
    exn = NS(context=NS(message=NS(fun_info=None)))
    _quiet()
    try:
        with contextlib.redirect_stdout(io.StringIO()), contextlib.redirect_stderr(io.StringIO()):
            try:
                h._solve_end_to_end_callback(f, ex=exn, path_ctx=pc, description=None)
                exc = None
            except Exception as e:  # noqa: BLE001
                exc = f"{type(e).__name__}: {e}"
    finally:
        _loud()
    shutil.rmtree(d, ignore_errors=True)
    nv, ni = len(ctx.valid_counterexamples), len(ctx.invalid_counterexamples)
    return {"verdict": 1 if nv else 2 if ni else 0, "both": bool(nv and ni), "shut": 1 if calls else 0,
            "n_outputs": len(ctx.solver_outputs), "exc": exc}


# ----------------------------------------------------------------------------- L2

KILL_SOLVER = r"""#!/bin/sh
# scripted solver: answers by the `; key=K` line of the file it is handed (K.r for a refined query),
# may wait for other solvers' marks before it prints anything, prints the head of its answer,
# drops its own mark, may stall, then prints the rest.  On SIGTERM it either flushes / closes its
# streams and lingers a little (like a solver with an exit handler) or dies at once.
D='@D@'
f="$1"
k=""; r=""; seen=""
while IFS= read -r line || [ -n "$line" ]; do
  case "$line" in
    "; key="*) if [ -z "$seen" ]; then k="${line#; key=}"; seen=1; fi;;
    *"(define-fun f_evm_"*) r=".r";;
  esac
done < "$f"
k="$k$r"
echo "${f##*/} $k" >> "$D/log"
if [ -f "$D/ans/$k.graceful" ]; then trap 'exec 1>&- 2>&-; sleep 0.2; exit 0' TERM; fi
if [ -f "$D/ans/$k.waitfor" ]; then
  n=0
  for w in $(cat "$D/ans/$k.waitfor"); do
    while [ ! -f "$D/mark/$w" ] && [ $n -lt 200 ]; do sleep 0.05 >/dev/null 2>&1; n=$((n+1)); done
  done
fi
if [ -f "$D/ans/$k.head" ]; then cat "$D/ans/$k.head"; fi
: > "$D/mark/$k"
if [ -f "$D/ans/$k.stall" ]; then sleep "$(cat "$D/ans/$k.stall")" >/dev/null 2>&1 & wait $!; fi
if [ -f "$D/ans/$k.rest" ]; then cat "$D/ans/$k.rest"; fi
: > "$D/mark/$k.done"
"""

VARS = "sat\n(\n  (define-fun p_x_uint256_00 () (_ BitVec 256) #x%064x)\n"
FEVM = "  (define-fun f_evm_bvmul_256 ((x!0 (_ BitVec 256)) (x!1 (_ BitVec 256))) (_ BitVec 256) #x%064x)\n)\n"


def full_answer(kind, v):
    if kind == "valid":
        return VARS % v + ")\n"
    if kind == "abstract":
        return VARS % v + FEVM % 0
    if kind == "unsat":
        return "unsat\n(error \"line 9: model is not available\")\n"
    if kind == "unknown":
        return "unknown\n"
    return "(error \"boom\")\n"


def cut_point(kind, v, cut):
    """number of characters the solver prints before it stalls"""
    full = full_answer(kind, v)
    if cut == "none":
        return len(full)
    if cut == "half_first_line":
        return 2
    if cut == "after_sat":
        return full.index("\n") + 1
    if cut == "after_vars":
        return len(VARS % v) if kind in ("valid", "abstract") else len(full)
    if cut == "mid_fevm_name":      # "...(define-fun f_ev"
        return (len(VARS % v) + len("  (define-fun f_ev")) if kind == "abstract" else len(full) - 2
    if cut == "inside_fevm":        # the marker is already out
        return (len(VARS % v) + len("  (define-fun f_evm_bvmul_256 ((x!0")) if kind == "abstract" else len(full) - 1
    raise ValueError(cut)


CUTS = ["after_vars", "after_sat", "mid_fevm_name", "inside_fevm", "half_first_line", "none"]
KINDS = ["valid", "abstract", "unsat", "unknown", "garbage"]


def smtlib(key, changes):
    decl = ("(declare-fun f_evm_bvmul_256 ((_ BitVec 256) (_ BitVec 256)) (_ BitVec 256))\n" if changes
            else "(declare-fun f_evm_exp_256 ((_ BitVec 256) (_ BitVec 256)) (_ BitVec 256))\n")
    return f"; key={key}\n" + decl + "(declare-fun p_x_uint256_00 () (_ BitVec 256))\n(assert true)\n"


def gen_kill_scenarios(tier, r):
    """each scenario: 2-4 assertion-violation candidates of one test solved concurrently"""
    scns = []
    # the slow solver's answer is cut at every position class while another path yields a valid one
    for i, cut in enumerate(CUTS):
        for graceful in ((True,) if tier == "quick" else (True, False)):
            slow_kind = "abstract" if cut != "after_sat" or i % 2 == 0 else "valid"
            paths = [{"key": f"k{len(scns)}a", "k1": slow_kind, "v1": r.randrange(1 << 64), "k2": r.choice(["valid", "unsat", "abstract"]),
                      "v2": r.randrange(1 << 64), "changes": True, "cut": cut, "stall": 4.0, "graceful": graceful, "waitfor": []},
                     {"key": f"k{len(scns)}b", "k1": "valid", "v1": r.randrange(1 << 64), "k2": "valid", "v2": 0, "changes": False,
                      "cut": "none", "stall": 0, "graceful": True, "waitfor": [f"k{len(scns)}a"]}]
            if r.random() < 0.5:
                paths.append({"key": f"k{len(scns)}c", "k1": r.choice(KINDS), "v1": r.randrange(1 << 64), "k2": r.choice(KINDS), "v2": r.randrange(1 << 64),
                              "changes": r.random() < 0.7, "cut": "none", "stall": 0, "graceful": True, "waitfor": []})
            scns.append({"early_exit": True, "paths": paths})
    # random ones: with and without --early-exit, answers that pause in the middle but complete
    for _ in range(3 if tier == "quick" else 60):
        ee = r.random() < 0.6
        paths = []
        base = len(scns)
        for j in range(r.randint(2, 4)):
            k1 = r.choice(KINDS)
            cut = r.choice(CUTS)
            paths.append({"key": f"k{base}p{j}", "k1": k1, "v1": r.randrange(1 << 64), "k2": r.choice(KINDS), "v2": r.randrange(1 << 64),
                          "changes": r.random() < 0.7, "cut": cut, "stall": (r.choice([0.15, 2.0]) if ee else 0.15) if cut != "none" else 0,
                          "graceful": r.random() < 0.7, "waitfor": [f"k{base}p{j - 1}"] if (j and r.random() < 0.6) else []})
        scns.append({"early_exit": ee, "paths": paths})
    return scns


def allowed_valid(scn):
    """models that may be reported as valid: complete answers that mention no abstraction"""
    out = []
    for p in scn["paths"]:
        if p["k1"] == "valid":
            out.append({"p_x_uint256_00": p["v1"]})
        if p["k1"] == "abstract" and p["changes"] and p["k2"] == "valid":
            out.append({"p_x_uint256_00": p["v2"]})
    return out


def run_kill_scenario(scn, td):
    """-> {valid: [model dicts], invalid: [...], results: [class per solver output], killed: [keys whose
    .out file holds a cut answer], wall}"""
    import halmos.solve as S
    from halmos.sevm import SMTQuery

    base = P(tempfile.mkdtemp(dir=td))
    (base / "ans").mkdir()
    (base / "mark").mkdir()
    (base / "dump").mkdir()
    sh = base / "solver.sh"
    sh.write_text(KILL_SOLVER.replace("@D@", str(base)))
    sh.chmod(sh.stat().st_mode | stat.S_IEXEC)
    for p in scn["paths"]:
        full = full_answer(p["k1"], p["v1"])
        n = cut_point(p["k1"], p["v1"], p["cut"])
        (base / "ans" / f"{p['key']}.head").write_text(full[:n])
        (base / "ans" / f"{p['key']}.rest").write_text(full[n:])
        if p["stall"]:
            (base / "ans" / f"{p['key']}.stall").write_text(str(p["stall"]))
        if p["graceful"]:
            (base / "ans" / f"{p['key']}.graceful").write_text("")
            (base / "ans" / f"{p['key']}.r.graceful").write_text("")
        if p["waitfor"]:
            (base / "ans" / f"{p['key']}.waitfor").write_text(" ".join(p["waitfor"]))
        (base / "ans" / f"{p['key']}.r.head").write_text(full_answer(p["k2"], p["v2"]))
    sctx = S.SolvingContext(dump_dir=base / "dump")
    pool = ThreadPoolExecutor(max_workers=len(scn["paths"]) + 1)
    ctx = make_ctx(base / "dump", scn["early_exit"], sctx.executor, thread_pool=pool)
    ctx.solving_ctx = sctx
    ctx.args = NS(verbose=0, early_exit=scn["early_exit"], cache_solver=False, resolved_solver_command=["/bin/sh", str(sh)],
                  solver_timeout_assertion=30)
    h = make_handler(ctx)
    t0 = time.time()
    _quiet()
    err = None
    try:
        with contextlib.redirect_stdout(io.StringIO()), contextlib.redirect_stderr(io.StringIO()):
            for i, p in enumerate(scn["paths"]):
                q = SMTQuery(smtlib(p["key"], p["changes"]), ["11", "12"])
                exn = NS(call_sequence=[], path=NS(to_smt2=lambda args, q=q: q), context=NS(message=NS(fun_info=None), output=NS(error=None, data=None)))
                try:
                    h.handle_assertion_violation(i, exn, panic_found=True, description=None)
                except Exception as e:  # noqa: BLE001  (ShutdownError when the pool is already closing: as in run_test)
                    err = f"{type(e).__name__}: {e}"
                    break
            pool.shutdown(wait=True)   # all callbacks have run
            try:
                sctx.executor.shutdown(wait=True)
            except Exception:  # noqa: BLE001
                pass
    finally:
        _loud()
    outs = {pth.name: pth.read_text() for pth in (base / "dump").iterdir() if pth.name.endswith(".out")}
    killed = []
    for i, p in enumerate(scn["paths"]):
        o = outs.get(f"{i}.smt2.out")
        if o is not None and o != full_answer(p["k1"], p["v1"]):
            killed.append(p["key"])
    res = {"valid": [{k: v.value for k, v in m.model.items()} for m in ctx.valid_counterexamples],
           "invalid": [{k: v.value for k, v in m.model.items()} for m in ctx.invalid_counterexamples],
           "results": sorted(str(o.result) for o in ctx.solver_outputs), "killed": killed,
           "submit_error": err, "wall": round(time.time() - t0, 2)}
    shutil.rmtree(base, ignore_errors=True)
    return res
