"""Python face of the extracted reference interpreter (coq/Spec/Evm.v via Extract/ExEVM.v).

World (python side):
  accounts: {addr: {"balance": int, "code": bytes | None, "storage": {k: v}}}
  block: dict(basefee, chainid, coinbase, difficulty, gaslimit, number, timestamp)
  msg: dict(this, code_addr | code, caller, origin, value, static, depth, data)
"""
from harness import common

MEM_LIMIT = 2 ** 20
DEFAULT_BLOCK = dict(basefee=0, chainid=31337, coinbase=0, difficulty=0, gaslimit=2 ** 63 - 1, number=1, timestamp=1)
HALT_KINDS = {1: "StackUnderflowError", 2: "StackOverflowError", 3: "OutOfGasError", 4: "InvalidOpcode",
              5: "InvalidJumpDestError", 6: "WriteInStaticContext", 7: "OutOfBoundsRead", 8: "MessageDepthLimitError"}

_exe = None


def driver():
    global _exe
    if _exe is None:
        exe, log = common.build_driver("EVM")
        if exe is None:
            raise RuntimeError("reference EVM driver does not build: " + log[-800:])
        _exe = exe
    return common.Model(_exe)


def encode(accounts, msg, block=None, ctr=0, fuel=20000, mem_limit=MEM_LIMIT, c2names=None):
    """c2names: {EVM address: name} -- the naming of CREATE2 addresses (Spec/Evm.v, b_c2names); None / {} = the EVM"""
    block = block or DEFAULT_BLOCK
    out = [mem_limit, fuel, ctr, len(accounts)]
    for a, acc in accounts.items():
        code = acc.get("code")
        out += [a, acc.get("balance", 0), 0 if code is None else 1]
        out += [len(code or b"")] + list(code or b"")
        st = acc.get("storage") or {}
        out += [len(st)]
        for k, v in st.items():
            out += [k, v]
    out += [block[k] for k in ("basefee", "chainid", "coinbase", "difficulty", "gaslimit", "number", "timestamp")]
    out += [msg["this"]]
    if "code" in msg:
        out += [-1, len(msg["code"])] + list(msg["code"])
    else:
        out += [msg.get("code_addr", msg["this"])]
    data = msg.get("data", b"")
    out += [msg["caller"], msg["origin"], msg.get("value", 0), 1 if msg.get("static") else 0, msg.get("depth", 1), len(data)] + list(data)
    names = c2names or {}
    out += [len(names)]
    for real, name in names.items():
        out += [real, name]
    return out


class _Rd:
    def __init__(self, xs):
        self.xs, self.i = xs, 0

    def one(self):
        v = self.xs[self.i]
        self.i += 1
        return v

    def many(self, n):
        v = self.xs[self.i:self.i + n]
        self.i += n
        return v

    def bytes_(self):
        return bytes(self.many(self.one()))

    def pairs(self):
        n = self.one()
        out = {}
        for _ in range(n):
            k, v = self.one(), self.one()
            out.setdefault(k, v)  # association list: first occurrence is the latest write
        return out


def decode(res):
    """-> dict(status, kind, ctr, ret, logs, world)"""
    r = _Rd(res)
    status, kind, ctr = r.one(), r.one(), r.one()
    out = {"status": ["ok", "revert", "halt", "fuel", "unsupported"][status], "kind": kind, "ctr": ctr}
    if status == 2:
        out["kind_name"] = HALT_KINDS.get(kind, str(kind))
    if status in (0, 1):
        out["ret"] = r.bytes_()
    if status == 0:
        nl = r.one()
        logs = []
        for _ in range(nl):
            a = r.one()
            topics = r.many(r.one())
            logs.append((a, tuple(topics), r.bytes_()))
        out["logs"] = logs
        code = {}
        for _ in range(r.one()):
            a = r.one()
            code.setdefault(a, r.bytes_()) if a not in code else r.bytes_()
        storage = {}
        for _ in range(r.one()):
            a = r.one()
            m = r.pairs()
            if a not in storage:
                storage[a] = {k: v for k, v in m.items() if v != 0}
        transient = {}
        for _ in range(r.one()):
            a = r.one()
            m = r.pairs()
            if a not in transient:
                transient[a] = {k: v for k, v in m.items() if v != 0}
        balance = r.pairs()
        out["world"] = {"code": code, "storage": storage, "transient": transient,
                        "balance": {k: v for k, v in balance.items()}}
    return out


def run_many(cases, fuel=20000):
    """cases: list of (accounts, msg, block, ctr[, c2names]) -> list of decoded results"""
    m = driver()
    calls = [("evm_run", encode(c[0], c[1], c[2], c[3], fuel, c2names=c[4] if len(c) > 4 else None)) for c in cases]
    res = m.parallel_batch(calls)
    return [decode(x) if x is not None else {"status": "model-error"} for x in res]
