"""End-to-end (L3) driver for C05: fabricated forge project + scripted fake solver.

No forge/solc in the sandbox: a tiny assembler builds a test contract whose single test
function `check_p(uint256)` splits into n paths (x == 0, x == 1, ..., else) and ends each
path in a chosen way (success / revert / panic / fail flag / stuck); the artifact
out/T.sol/T.json is fabricated; a stub `forge` that exits 0 is put first on PATH.
halmos is started as a subprocess through a tiny wrapper (harness/c05_wrap.py) that only
optionally installs a *schedule forcing* Event (a legal thread interleaving, no logic change).

The fake solver (harness/c05_fake_solver.py) answers from a JSON script keyed by the
query file name (`<path_id>.smt2`, `<path_id>.refined.smt2`).
"""
import json
import os
import subprocess
import sys
import tempfile
from pathlib import Path

HERE = Path(__file__).resolve().parent
PY = "/venv/bin/python"

OPS = dict(STOP=0x00, ADD=0x01, MUL=0x02, EQ=0x14, ISZERO=0x15, SHR=0x1C, CALLDATALOAD=0x35, CODECOPY=0x39,
           POP=0x50, MSTORE=0x52, JUMP=0x56, JUMPI=0x57, GAS=0x5A, JUMPDEST=0x5B, PUSH0=0x5F, DUP1=0x80,
           CALL=0xF1, RETURN=0xF3, REVERT=0xFD, SELFDESTRUCT=0xFF, UNSUPPORTED=0x0C)

HEVM = 0x7109709ECFA91A80626FF3989D68F67F5B1DD12D
ASSERT_TRUE_SEL = 0x0C9FD581  # assertTrue(bool)
PANIC_SEL = 0x4E487B71

KINDS = ["success", "revert", "panic", "failflag", "stuck"]


def asm(items):
    pos, labels = 0, {}
    for it in items:
        if isinstance(it, tuple) and it[0] == "label":
            labels[it[1]] = pos
            pos += 1
        elif isinstance(it, tuple) and it[0] == "ref":
            pos += 3
        elif isinstance(it, tuple) and it[0] == "push":
            pos += 1 + it[1]
        else:
            pos += 1
    out = b""
    for it in items:
        if isinstance(it, tuple) and it[0] == "label":
            out += bytes([0x5B])
        elif isinstance(it, tuple) and it[0] == "ref":
            out += bytes([0x61]) + labels[it[1]].to_bytes(2, "big")
        elif isinstance(it, tuple) and it[0] == "push":
            out += bytes([0x5F + it[1]]) + it[2].to_bytes(it[1], "big")
        else:
            out += bytes([OPS[it]])
    return out


def tail(kind):
    if kind == "success":
        return ["STOP"]
    if kind == "revert":
        return ["PUSH0", "PUSH0", "REVERT"]
    if kind == "panic":
        return [("push", 32, PANIC_SEL << 224), "PUSH0", "MSTORE", ("push", 1, 1), ("push", 1, 4), "MSTORE",
                ("push", 1, 0x24), "PUSH0", "REVERT"]
    if kind == "failflag":
        # vm.assertTrue(false): CALL(gas, HEVM, 0, 0, 36, 0, 0)
        return [("push", 32, ASSERT_TRUE_SEL << 224), "PUSH0", "MSTORE",
                "PUSH0", "PUSH0", ("push", 1, 36), "PUSH0", "PUSH0", ("push", 20, HEVM), "GAS", "CALL", "STOP"]
    if kind == "stuck":
        return ["UNSUPPORTED"]
    raise ValueError(kind)


def runtime(kinds, mul=False):
    """x = calldataload(4) [* calldataload(36) when mul]; path i taken when x == i (last: else)."""
    items = [("push", 1, 4), "CALLDATALOAD"]
    if mul:
        items += [("push", 1, 36), "CALLDATALOAD", "MUL"]
    n = len(kinds)
    for i in range(n - 1):
        items += ["DUP1", ("push", 1, i), "EQ", ("ref", f"L{i}"), "JUMPI"]
    items += ["POP"] + tail(kinds[-1])
    for i in range(n - 1):
        items += [("label", f"L{i}"), "POP"] + tail(kinds[i])
    return asm(items)


def artifact(kinds, mul=False, tests=("check_p",), setup=False):
    from eth_hash.auto import keccak

    rt = runtime(kinds, mul)
    n = len(rt)
    cr = asm([("push", 2, n), ("push", 2, 13), "PUSH0", "CODECOPY", ("push", 2, n), "PUSH0", "RETURN"])
    assert len(cr) == 13
    cr += rt
    argt = "uint256,uint256" if mul else "uint256"
    inputs = [{"name": "x", "type": "uint256", "internalType": "uint256"}]
    if mul:
        inputs.append({"name": "y", "type": "uint256", "internalType": "uint256"})
    abi, mids = [], {}
    for t in tests:
        sig = f"{t}({argt})"
        abi.append({"type": "function", "name": t, "inputs": inputs, "outputs": [], "stateMutability": "nonpayable"})
        mids[sig] = keccak(sig.encode())[:4].hex()
    if setup:
        # setUp() runs the same code with calldata = selector only: x = 0, i.e. the `x == 0` branch
        abi.append({"type": "function", "name": "setUp", "inputs": [], "outputs": [], "stateMutability": "nonpayable"})
        mids["setUp()"] = keccak(b"setUp()")[:4].hex()
    return {
        "abi": abi,
        "bytecode": {"object": "0x" + cr.hex(), "sourceMap": "", "linkReferences": {}},
        "deployedBytecode": {"object": "0x" + rt.hex(), "sourceMap": "", "linkReferences": {}},
        "methodIdentifiers": mids,
        "metadata": {"compiler": {"version": "0.8.26"}, "output": {"devdoc": {"methods": {}}}},
        "ast": {"absolutePath": "test/T.sol", "id": 1, "nodeType": "SourceUnit",
                "nodes": [{"nodeType": "ContractDefinition", "name": "T", "contractKind": "contract", "abstract": False, "nodes": [], "id": 2}]},
        "id": 0,
    }


def make_project(root, paths, mul=False, tests=("check_p",), setup=False):
    """paths[j] = how the path that halmos numbers path_id j ends (halmos explores the
    fall-through branch first, then the jump targets from the last comparison backwards)."""
    kinds = list(reversed(paths))
    root = Path(root)
    (root / "out" / "T.sol").mkdir(parents=True, exist_ok=True)
    (root / "out" / "T.sol" / "T.json").write_text(json.dumps(artifact(kinds, mul, tests, setup)))
    (root / "foundry.toml").write_text("[profile.default]\n")
    binp = root / "bin"
    binp.mkdir(exist_ok=True)
    forge = binp / "forge"
    forge.write_text("#!/bin/sh\nexit 0\n")
    forge.chmod(0o755)
    return root


def run_halmos(root, script, early_exit=False, cache_solver=False, timeout_ms=3000, stale_read=None,
               extra=(), wall=900, threads=None):
    """Runs halmos on the project with the scripted solver. Returns dict(rc, status{funsig:label}, json, log, calls)."""
    root = Path(root)
    script_file = root / "script.json"
    calls = root / "calls.log"
    if calls.exists():
        calls.unlink()
    script_file.write_text(json.dumps(script))
    out_json = root / "out.json"
    if out_json.exists():
        out_json.unlink()
    cmd = [PY, str(HERE / "c05_wrap.py"), "--root", str(root), "--no-status", "--json-output", str(out_json),
           "--solver-command", f"{PY} -S {HERE / 'c05_fake_solver.py'} {script_file} {calls}",
           "--solver-timeout-assertion", f"{timeout_ms}ms", "--dump-smt-directory", str(root / "smt")]
    if threads:
        cmd += ["--solver-threads", str(threads)]
    if early_exit:
        cmd.append("--early-exit")
    if cache_solver:
        cmd.append("--cache-solver")
    cmd += list(extra)
    env = dict(os.environ)
    env["PATH"] = f"{root / 'bin'}:{env.get('PATH', '')}"
    env["PYTHONPATH"] = os.environ.get("HALMOS_REPO", "/repo") + "/src"
    env["PYTHONHASHSEED"] = "0"
    env["COLUMNS"] = "250"
    env["NO_COLOR"] = "1"
    if stale_read is not None:
        env["C05_STALE_READ"] = str(stale_read)
    else:
        env.pop("C05_STALE_READ", None)
    try:
        p = subprocess.run(cmd, capture_output=True, text=True, env=env, timeout=wall, cwd=str(root))
        rc, log = p.returncode, p.stdout + "\n--stderr--\n" + p.stderr
    except subprocess.TimeoutExpired as e:
        rc, log = -999, f"HARNESS TIMEOUT {e}"
    import re

    plain = re.sub(r"\x1b\[[0-9;]*m", "", log)
    status = {}
    for m in re.finditer(r"(?m)^\[(PASS|FAIL|ERROR|TIMEOUT)\] ([A-Za-z0-9_]+\([^)]*\))", plain):
        status[m.group(2)] = m.group(1)
    js = None
    if out_json.exists():
        try:
            js = json.loads(out_json.read_text())
        except Exception:  # noqa: BLE001
            js = None
    smt_files = sorted(str(f.relative_to(root / "smt")) for f in (root / "smt").rglob("*.smt2")) if (root / "smt").exists() else []
    named = {}
    for f in smt_files:
        try:
            named[f] = re.findall(r":named <([0-9]+)>", (root / "smt" / f).read_text())
        except OSError:
            pass
    called = []
    if calls.exists():
        called = [ln.split() for ln in calls.read_text().splitlines() if ln.strip()]
    return {"rc": rc, "status": status, "json": js, "log": plain, "calls": called, "smt_files": smt_files, "named": named}


if __name__ == "__main__":
    kinds = sys.argv[1].split(",")
    d = tempfile.mkdtemp(prefix="c05_")
    make_project(d, kinds, mul="mul" in sys.argv[3:])
    script = json.loads(sys.argv[2]) if len(sys.argv) > 2 else {}
    r = run_halmos(d, script, early_exit="ee" in sys.argv[3:], cache_solver="cache" in sys.argv[3:],
                   extra=[a for a in sys.argv[3:] if a.startswith("-")])
    print(r["log"])
    print("rc", r["rc"], "status", r["status"], "calls", r["calls"])
    print(json.dumps(r["json"], indent=1)[:1500] if r["json"] else None)
    print(d)
