"""Process pool with a hard per-task timeout (a stuck task kills and replaces its worker).

run_tasks(fn, tasks, timeout, workers) -> list of (status, value) in task order where status is
'ok' (value = fn(task)), 'exc' (value = traceback text) or 'timeout'.
`fn` must be a module-level function (fork start method is used).
"""
import multiprocessing as mp
import os
import queue
import time
import traceback


def _worker(fn, inq, outq):
    while True:
        item = inq.get()
        if item is None:
            return
        idx, task = item
        outq.put(("start", idx, os.getpid(), None))
        try:
            outq.put(("ok", idx, os.getpid(), fn(task)))
        except BaseException:  # noqa: BLE001
            outq.put(("exc", idx, os.getpid(), traceback.format_exc()[-3000:]))


def run_tasks(fn, tasks, timeout=60.0, workers=None, total_timeout=None):
    ctx = mp.get_context("fork")
    workers = workers or min(16, os.cpu_count() or 4)
    workers = max(1, min(workers, len(tasks)))
    outq = ctx.Queue()
    results = [None] * len(tasks)
    pending = list(range(len(tasks)))[::-1]
    procs = {}  # pid -> (process, inq, current idx, start time)
    t0 = time.time()

    def spawn():
        inq = ctx.Queue()
        p = ctx.Process(target=_worker, args=(fn, inq, outq), daemon=True)
        p.start()
        procs[p.pid] = [p, inq, None, None]
        feed(p.pid)

    def feed(pid):
        p, inq, _, _ = procs[pid]
        if pending:
            idx = pending.pop()
            procs[pid][2] = idx
            procs[pid][3] = time.time()
            inq.put((idx, tasks[idx]))
        else:
            procs[pid][2] = None
            inq.put(None)

    for _ in range(workers):
        spawn()
    done = 0
    while done < len(tasks):
        try:
            kind, idx, pid, val = outq.get(timeout=0.5)
            if kind == "start":
                if pid in procs:
                    procs[pid][3] = time.time()
                continue
            if results[idx] is None:
                results[idx] = (kind, val)
                done += 1
            if pid in procs:
                feed(pid)
        except queue.Empty:
            pass
        now = time.time()
        over_total = total_timeout is not None and now - t0 > total_timeout
        for pid in list(procs):
            p, inq, idx, st = procs[pid]
            if idx is not None and results[idx] is None and st is not None and (now - st > timeout or over_total):
                p.kill()
                p.join(1)
                del procs[pid]
                results[idx] = ("timeout", None)
                done += 1
                if pending and not over_total:
                    spawn()
            elif not p.is_alive() and idx is not None and results[idx] is None:
                del procs[pid]
                results[idx] = ("exc", "worker died")
                done += 1
                if pending:
                    spawn()
        if over_total:
            while pending:
                results[pending.pop()] = ("timeout", None)
                done += 1
    for pid, (p, inq, _, _) in procs.items():
        try:
            inq.put(None)
        except Exception:  # noqa: BLE001
            pass
    for pid, (p, _, _, _) in procs.items():
        p.join(0.5)
        if p.is_alive():
            p.kill()
    return results
