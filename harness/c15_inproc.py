"""Runs the real halmos `_main` in this process with observation wrappers around the
invariant-frontier machinery (monkeypatching only; nothing in /repo is edited) and writes a
trace of what the real code did:

  python harness/c15_inproc.py TRACE.json <halmos argv...>

trace = {
  "setup": [uid, id_token],
  "states": {uid: [ {"addr": a, "outcomes": [[kind, x, y], ...]}, ... ]},   # per expanded pre-state, per run_target_contract call
       kind 0 stuck | 1 ordinary revert | 2 assertion failure (x = probe token) | 3 success (x = uid, y = state-id token, -1 if the real code never computed it)
  "frontiers": {depth: [uid, ...]},          # ctx.frontier_states as left by the real _compute_frontier
  "evaluated": [uid, ...],                   # pre-states on which an invariant_* function was run, in order
  "handled": [[uid, probe token], ...],      # calls of the probe handler
  "calls": [[pre uid, addr, funsig], ...],   # run_target_function calls (resolved contracts x selectors)
  "probe_names": {token: "C.f(sig)"},
  "components": {uid: {...}},                # for every Exec handed to get_state_id, at that moment: balance term id, code identities,
                                             # storage items (key, value term id), path condition ids, slice, and "direct" = positions of the
                                             # conditions mentioning a symbol of the balance / a stored value (computed here from the z3 terms)
}
The classification of an end state (stuck / revert / assertion / success) is recomputed here
from the Exec itself, independently of the branches taken by _compute_frontier.
"""
import json
import sys


def main():
    trace_path = sys.argv[1]
    argv = sys.argv[2:]
    import halmos.__main__ as m
    from halmos.utils import int_of

    keep = []           # keeps every Exec alive so that id() is never reused
    uids = {}
    ids = {}            # id(ex) -> state id bytes as computed by the real get_state_id
    id_tokens = {}
    trace = {"setup": None, "states": {}, "frontiers": {}, "evaluated": [], "handled": [], "calls": [], "probe_names": {}, "components": {}, "asserts": [], "probe_results": [], "reported_final": None}
    probe_tokens = {}

    def uid(ex):
        k = id(ex)
        if k not in uids:
            uids[k] = len(uids)
            keep.append(ex)
        return uids[k]

    def tok(b):
        if b not in id_tokens:
            id_tokens[b] = len(id_tokens)
        return id_tokens[b]

    def probe_tok(fun_info):
        name = f"{fun_info.contract_name}.{fun_info.sig}"
        if name not in probe_tokens:
            probe_tokens[name] = len(probe_tokens) + 1
            trace["probe_names"][probe_tokens[name]] = name
        return probe_tokens[name]

    orig_gsi = m.get_state_id

    sym_ids = {}
    BLOCK_FIELDS = ["basefee", "chainid", "coinbase", "difficulty", "gaslimit", "number", "timestamp"]

    def symbols(term, cache={}):  # noqa: B006
        """names of the uninterpreted constants of a z3 term (plain traversal of the DAG)"""
        import z3

        k = term.get_id()
        if k in cache:
            return cache[k]
        out, seen, todo = set(), set(), [term]
        while todo:
            t = todo.pop()
            i = t.get_id()
            if i in seen:
                continue
            seen.add(i)
            if z3.is_app(t):
                if t.num_args() == 0 and t.decl().kind() == z3.Z3_OP_UNINTERPRETED:
                    out.add(t.decl().name())
                todo.extend(t.children())
            elif z3.is_quantifier(t):
                todo.append(t.body())
        keep.append(term)
        cache[k] = out
        return out

    def components(ex):
        """what the state consists of at this moment, read off the Exec itself (not through
        snapshot_state): term ids, code identities, storage items, path conditions and slice;
        "direct" = positions of the conditions that mention a symbol occurring in the balance or
        in a stored value (computed here from the terms, not from Path's bookkeeping)"""
        path = ex.path
        state_syms = set(symbols(ex.balance))
        for st in ex.storage.values():
            for v in st._mapping.values():
                state_syms |= symbols(v)
        # the block environment a handler can change (all fields but the timestamp, which is refreshed after every
        # transaction); a field may hold an int, a halmos bit-vector or a z3 term
        import z3

        block = []
        for fname in BLOCK_FIELDS:
            f = getattr(ex.block, fname)
            z = z3.BitVecVal(f, 256) if isinstance(f, int) else (f.as_z3() if hasattr(f, "as_z3") else f)
            if z3.is_bv_value(z):
                block.append(2 * z.as_long())            # concrete: named by its value
            else:
                keep.append(z)
                block.append(2 * z.get_id() + 1)         # symbolic: named by the id of the term
                if fname != "timestamp":
                    state_syms |= symbols(z)
        for contract in ex.code.values():  # symbolic parts of deployed code (none in the fabricated projects)
            for chunk in getattr(getattr(contract, "_code", None), "chunks", {}).values():
                data = getattr(chunk, "data", None)
                if hasattr(data, "get_id") and hasattr(data, "children"):
                    state_syms |= symbols(data)
        def num(names):
            return sorted(sym_ids.setdefault(n, len(sym_ids) + 1) for n in names)

        return {
            "direct": [i for i, c in enumerate(path.conditions) if symbols(c) & state_syms],
            "state_symbols": sorted(state_syms)[:8],
            "cond_syms": [num(symbols(c)) for c in path.conditions],     # the symbols of each condition, numbered
            "state_syms": num(state_syms),
            "block": block,                                              # basefee, chainid, coinbase, difficulty, gaslimit, number, timestamp
            "balance": ex.balance.get_id(),
            "code": [[int_of(a), id(c)] for a, c in ex.code.items()],
            "storage": [[int_of(a), [[list(k) if isinstance(k, tuple) else k, v.get_id()] for k, v in st._mapping.items()]]
                        for a, st in ex.storage.items()],
            "conds": [c.get_id() for c in path.conditions],
            "sliced": None if path.sliced is None else sorted(path.sliced),
            "cond_text": {str(i): str(c)[:120] for i, c in enumerate(path.conditions)},
        }

    def get_state_id(ex):
        u = uid(ex)
        try:
            trace["components"][u] = components(ex)
        except Exception as e:  # noqa: BLE001
            trace["components"][u] = {"error": repr(e)}
        v = orig_gsi(ex)
        ids[id(ex)] = bytes(v)
        return v

    m.get_state_id = get_state_id

    pending = []  # (record, ex) whose state id is filled in at the end

    orig_rtc = m.run_target_contract

    def run_target_contract(ctx, ex, addr):
        pre = uid(ex)
        group = []
        trace["states"].setdefault(pre, []).append({"addr": int_of(addr), "outcomes": group})
        codes = ctx.args.panic_error_codes
        for post in orig_rtc(ctx, ex, addr):
            sub = post.context
            if sub.is_stuck():
                rec = [0, 0, 0]
            elif sub.output.error:
                if post.is_panic_of(codes) or m.is_global_fail_set(sub):
                    rec = [2, probe_tok(sub.message.fun_info), 0]
                else:
                    rec = [1, 0, 0]
            else:
                rec = [3, uid(post), -1]
                pending.append((rec, post))
            group.append(rec)
            arec = None
            if rec[0] == 2:
                # an assertion failure inside the target: is this path feasible at all (all its conditions
                # together, decided here with z3)?  which functions are marked as reported right now?
                import z3

                try:
                    s = z3.Solver()
                    s.set("timeout", 20000)
                    s.add(*list(post.path.conditions))
                    feas = {"sat": 1, "unsat": 0}.get(str(s.check()), -1)
                except Exception:  # noqa: BLE001
                    feas = -1
                arec = {"uid": uid(post), "probe": rec[1], "feasible": feas, "depth": len(ex.call_sequence) + 1,
                        "seq": [c.message.fun_info.sig for c in ex.call_sequence] + [sub.message.fun_info.sig],
                        "reported_before": sorted(probe_tok(fi) for fi in ctx.probes_reported)}
                trace["asserts"].append(arec)
            yield post
            if arec is not None:
                arec["reported_after"] = sorted(probe_tok(fi) for fi in ctx.probes_reported)

    m.run_target_contract = run_target_contract

    orig_rtf = m.run_target_function

    def run_target_function(args, ex, addr, abi, fun_info, *a, **kw):
        if fun_info.name != "funname":  # the six getters use this literal name
            trace["calls"].append([uid(ex), int_of(addr), fun_info.sig])
        return orig_rtf(args, ex, addr, abi, fun_info, *a, **kw)

    m.run_target_function = run_target_function

    orig_cf = m._compute_frontier

    def _compute_frontier(ctx, depth):
        yield from orig_cf(ctx, depth)
        trace["frontiers"][depth] = [uid(e) for e in ctx.frontier_states[depth]]

    m._compute_frontier = _compute_frontier

    orig_hav = m.CounterexampleHandler.handle_assertion_violation

    def handle_assertion_violation(self, path_id, ex, panic_found, description=None):
        if self.is_probe:
            trace["handled"].append([uid(ex), probe_tok(ex.context.message.fun_info)])
        return orig_hav(self, path_id, ex, panic_found, description)

    m.CounterexampleHandler.handle_assertion_violation = handle_assertion_violation

    orig_cb = m.CounterexampleHandler._solve_end_to_end_callback

    def _solve_end_to_end_callback(self, future, ex, path_ctx, description):
        try:
            return orig_cb(self, future, ex=ex, path_ctx=path_ctx, description=description)
        finally:
            if self.is_probe:
                try:
                    out = self._get_solver_output(future, path_ctx)
                    trace["probe_results"].append([uid(ex), str(out.result), out.model is not None])
                except Exception as e:  # noqa: BLE001
                    trace["probe_results"].append([uid(ex), f"exception {type(e).__name__}", False])

    m.CounterexampleHandler._solve_end_to_end_callback = _solve_end_to_end_callback

    orig_rm = m.SEVM.run_message

    def sevm_run_message(self, pre_ex, message, path):
        fi = getattr(message, "fun_info", None)
        if fi is not None and fi.name and fi.name.startswith("invariant_"):
            trace["evaluated"].append([fi.name, uid(pre_ex)])
        return orig_rm(self, pre_ex, message, path)

    m.SEVM.run_message = sevm_run_message

    orig_rc = m.run_contract

    contract_ctxs = []

    def run_contract(ctx):
        contract_ctxs.append(ctx)
        res = orig_rc(ctx)
        fs = ctx.frontier_states.get(0)
        if fs:
            s = fs[0]
            # the setUp state has a real state id only if run_contract registered it as visited
            trace["setup"] = [uid(s), tok(ids[id(s)]) if id(s) in ids else -1]
            if uid(s) not in trace["components"]:
                try:
                    trace["components"][uid(s)] = components(s)
                except Exception as e:  # noqa: BLE001
                    trace["components"][uid(s)] = {"error": repr(e)}
            trace["frontiers"][0] = [uid(e) for e in fs]
        return res

    m.run_contract = run_contract

    rc = 1
    try:
        res = m._main(argv)
        rc = res.exitcode
    finally:
        for rec, post in pending:
            b = ids.get(id(post))
            rec[2] = tok(b) if b is not None else -1
        results = list(trace["probe_results"])
        if contract_ctxs:
            trace["reported_final"] = {"reported": sorted(probe_tok(fi) for fi in contract_ctxs[-1].probes_reported), "results_seen": len(results)}
        with open(trace_path, "w") as f:
            json.dump(trace, f)
    return rc


if __name__ == "__main__":
    sys.exit(main())
