"""C07, layer 4: reads through offset views of LARGE backing values.

A chunk is a (data, start, length) view; behaviour must not depend on the absolute size of the backing
value, of the chunk, of the slice or of the offsets.  This layer runs the real ByteVec / Chunk code on
ONE large leaf (a fresh z3 symbol of N bytes, or N concrete bytes) with N around every integer literal
that occurs in bytevec.py (extracted from the source at run time, +-1, so that a new threshold is probed
automatically), around 32 / 1024 / 4096 and at random sizes in 1025..5000, produces offset views of it
(partial overwrites leaving a post chunk, copies of a sub-range into another ByteVec, slices of slices,
nested chunk windows) and reads words / bytes / small and large ranges through them.  Every read is
compared with an independent flat-array reference, semantically: the z3 term the code returns is
evaluated (substitute + simplify, i.e. z3's own Extract/Concat semantics over the leaf symbol) under
valuations of the leaf.
"""
import ast

from harness import common

FIXED_SIZES = [33, 64, 65, 255, 256, 257, 1023, 1024, 1025, 2047, 2048, 2049, 4095, 4096, 4097]
READ_SIZES = [1, 2, 8, 31, 32, 33, 64]


def source_literals():
    """every integer literal >= 2 of bytevec.py (constants included), as found in the source NOW"""
    tree = ast.parse((common.SRC / "bytevec.py").read_text())
    out = set()
    for n in ast.walk(tree):
        if isinstance(n, ast.Constant) and isinstance(n.value, int) and not isinstance(n.value, bool) and 2 <= n.value <= 20000:
            out.add(n.value)
    return sorted(out)


# ------------------------------------------------------------------ reference: a flat array
# a byte is an int (concrete) or ("s", j) = byte j of the leaf

def leaf_flat(case):
    n = case["N"]
    if case["kind"] == "sym":
        return [("s", j) for j in range(n)]
    return [(j * 7 + 3) % 251 for j in range(n)]


def fa_slice(l, a, b):
    return [l[i] if i < len(l) else 0 for i in range(a, b)]


def fa_set(l, a, b, data):
    assert len(data) == b - a
    l = list(l)
    if len(l) < b:
        l += [0] * (b - len(l))
    l[a:b] = data
    return l


def spec_run(case):
    """list of observations: each a list of flat bytes, or ('len', n)"""
    out = []
    if case.get("chunk"):
        cur = leaf_flat(case)
        for a, b in case["windows"]:
            cur = cur[a:b]
        for rd in case["reads"]:
            if rd[0] == "get_byte":
                out.append([cur[rd[1]]])
            elif rd[0] == "unwrap":
                out.append(list(cur))
            elif rd[0] == "len":
                out.append(("len", len(cur)))
        return out
    base = leaf_flat(case)
    mem = list(base) if case["init"] == "leaf" else []
    for st in case["steps"]:
        op = st[0]
        if op == "copy":
            _, dst, a, n = st
            mem = fa_set(mem, dst, dst + n, fa_slice(base, a, a + n))
        elif op == "word":
            _, off, val = st
            mem = fa_set(mem, off, off + 32, list(val.to_bytes(32, "big")))
        elif op == "byte":
            _, off, val = st
            mem = fa_set(mem, off, off + 1, [val])
        elif op == "selfcopy":
            _, dst, src, n = st
            mem = fa_set(mem, dst, dst + n, fa_slice(mem, src, src + n))
        elif op == "reslice":
            _, a, b = st
            mem = fa_slice(mem, a, b)
        elif op == "get_word":
            out.append(fa_slice(mem, st[1], st[1] + 32))
        elif op == "get_byte":
            out.append(fa_slice(mem, st[1], st[1] + 1))
        elif op == "read":
            out.append(fa_slice(mem, st[1], st[1] + st[2]))
        elif op == "unwrap":
            out.append(list(mem))
        elif op == "len":
            out.append(("len", len(mem)))
        else:
            raise ValueError(op)
    return out


# ------------------------------------------------------------------ the real code

def impl_run(case):
    """observations of the real code: (raw value, size) or ('len', n) or ('raise', text)"""
    import z3

    from halmos.bytevec import ByteVec, Chunk

    n = case["N"]
    if case["kind"] == "sym":
        sym = z3.BitVec(f"c07v_{case['id']}", n * 8)
        leaf = sym
    else:
        sym = None
        leaf = bytes(leaf_flat(case))
    out = []

    def obs(f, size):
        try:
            out.append(("val", f(), size))
        except Exception as e:  # noqa: BLE001
            out.append(("raise", f"{type(e).__name__}: {e}"[:200]))

    if case.get("chunk"):
        c = Chunk.wrap(leaf)
        try:
            for a, b in case["windows"]:
                c = c[a:b]
        except Exception as e:  # noqa: BLE001
            return sym, [("raise", f"{type(e).__name__}: {e}"[:200])] * len(case["reads"])
        for rd in case["reads"]:
            if rd[0] == "get_byte":
                obs(lambda: c.get_byte(rd[1]), 1)
            elif rd[0] == "unwrap":
                obs(lambda: c.unwrap(), len(c))
            elif rd[0] == "len":
                out.append(("len", len(c)))
        return sym, out
    base = ByteVec(leaf)
    mem = ByteVec(leaf) if case["init"] == "leaf" else ByteVec()
    for st in case["steps"]:
        op = st[0]
        try:
            if op == "copy":
                _, dst, a, k = st
                mem.set_slice(dst, dst + k, base.slice(a, a + k))
            elif op == "word":
                mem.set_word(st[1], st[2])
            elif op == "byte":
                mem.set_byte(st[1], st[2])
            elif op == "selfcopy":
                _, dst, src, k = st
                mem.set_slice(dst, dst + k, mem.slice(src, src + k))
            elif op == "reslice":
                mem = mem.slice(st[1], st[2])
            elif op == "get_word":
                obs(lambda: mem.get_word(st[1]), 32)
            elif op == "get_byte":
                obs(lambda: mem.get_byte(st[1]), 1)
            elif op == "read":
                obs(lambda: mem.slice(st[1], st[1] + st[2]).unwrap(), st[2])
            elif op == "unwrap":
                obs(lambda: mem.unwrap(), len(mem))
            elif op == "len":
                out.append(("len", len(mem)))
        except Exception as e:  # noqa: BLE001
            out.append(("raise-step", f"{op}: {type(e).__name__}: {e}"[:200]))
    return sym, out


def valuation(case, vi):
    r = common.rng(f"C07-views-val:{case['id']}:{vi}")
    return bytes(r.randrange(256) for _ in range(case["N"]))


_VALTERM = {}


def val_term(val):
    """the valuation as ONE z3 numeral (built in blocks: python refuses to print ints of > 4300 digits)"""
    import z3

    if val not in _VALTERM:
        _VALTERM.clear()
        parts = [z3.BitVecVal(int.from_bytes(val[i:i + 256], "big"), 8 * len(val[i:i + 256])) for i in range(0, len(val), 256)]
        _VALTERM[val] = z3.simplify(z3.Concat(*parts)) if len(parts) > 1 else parts[0]
    return _VALTERM[val]


def numeral_bytes(t):
    """bytes of a z3 bit-vector numeral of any width (None if some block is not a numeral)"""
    import z3

    n = t.size() // 8
    if n <= 256:
        return t.as_long().to_bytes(n, "big") if z3.is_bv_value(t) else None
    out = b""
    for i in range(0, n, 256):
        k = min(256, n - i)
        blk = z3.simplify(z3.Extract(t.size() - 1 - 8 * i, t.size() - 8 * (i + k), t))
        if not z3.is_bv_value(blk):
            return None
        out += blk.as_long().to_bytes(k, "big")
    return out


def to_bytes(v, size, sym, val):
    """the bytes a returned value denotes under the valuation (None, text) when it cannot be evaluated"""
    import z3

    if isinstance(v, (bytes, bytearray)):
        return bytes(v), None
    if isinstance(v, bool):
        return None, f"bool {v}"
    if isinstance(v, int):
        try:
            return v.to_bytes(size, "big"), None
        except OverflowError:
            return None, f"an int of {v.bit_length()} bits does not fit {size} bytes"
    if hasattr(v, "as_z3") and not z3.is_expr(v):
        v = v.as_z3()
    if z3.is_bv(v):
        if v.size() % 8:
            return None, f"bitvector of {v.size()} bits"
        t = v
        if sym is not None:
            t = z3.substitute(t, (sym, val_term(val)))
        t = z3.simplify(t)
        got = numeral_bytes(t)
        if got is None:
            return None, "does not evaluate to a value under a valuation of the leaf"
        return got, None
    return None, f"unexpected type {type(v).__name__}"


def compare(case, sym, impl, spec, nval=2):
    """None, or a dict describing the first difference between the real code and the flat array"""
    obs_steps = [st for st in (case["reads"] if case.get("chunk") else case["steps"]) if st[0] in ("get_word", "get_byte", "read", "unwrap", "len")]
    impl_obs = [o for o in impl if o[0] != "raise-step"]
    raised = [o for o in impl if o[0] == "raise-step"]
    if raised:
        return {"observable": "exception", "what": raised[0][1], "op": raised[0][1].split(":")[0]}
    if len(impl_obs) != len(spec):
        return {"observable": "count", "what": f"{len(impl_obs)} observations, expected {len(spec)}", "op": None}
    for i, (o, s) in enumerate(zip(impl_obs, spec)):
        st = obs_steps[i]
        if o[0] == "raise":
            return {"observable": "exception", "index": i, "read": list(st), "what": o[1], "op": st[0]}
        if o[0] == "len":
            if s != ("len", o[1]):
                return {"observable": "len", "index": i, "read": list(st), "what": f"len {o[1]}, flat array {s[1]}", "op": st[0]}
            continue
        for vi in range(nval if sym is not None else 1):
            val = valuation(case, vi) if sym is not None else b""
            got, err = to_bytes(o[1], o[2], sym, val)
            want = bytes(val[b[1]] if isinstance(b, tuple) else b for b in s)
            if err is not None:
                return {"observable": "kind", "index": i, "read": list(st), "what": err, "op": st[0]}
            if got != want:
                k = next((j for j in range(min(len(got), len(want))) if got[j] != want[j]), min(len(got), len(want)))
                src = s[k] if k < len(s) else None
                return {"observable": "content", "index": i, "read": list(st), "op": st[0],
                        "what": f"{len(got)} bytes, expected {len(want)}; first difference at byte {k} (flat array: {'byte %d of the leaf' % src[1] if isinstance(src, tuple) else src}) under valuation {vi}: got {got[k:k + 4].hex()} expected {want[k:k + 4].hex()}"}
    return None


# ------------------------------------------------------------------ generator

def sizes(r, tier):
    lits = source_literals()
    s = set(FIXED_SIZES)
    for l in lits:
        for d in (-1, 0, 1):
            if l + d >= 33:
                s.add(l + d)
    nrand = 6 if tier == "quick" else 40
    for _ in range(nrand):
        s.add(r.randrange(1025, 5001))
    s.add(5000)
    return sorted(s), lits


def read_sizes(lits, limit):
    ks = set(READ_SIZES)
    for l in lits:
        for d in (-1, 0, 1):
            if 1 <= l + d <= limit:
                ks.add(l + d)
    return sorted(k for k in ks if k <= limit)


def gen_cases(r, tier):
    ns, lits = sizes(r, tier)
    cases = []

    def add(c):
        c["id"] = len(cases)
        cases.append(c)

    for n in ns:
        for kind in ("sym", "conc"):
            ks = read_sizes(lits, n)
            # (1) partial overwrite with a word: pre view [0, off), post view [off + 32, n)
            if n >= 80:
                off = r.choice([r.randrange(1, n - 64), 32 * r.randrange(1, max(2, (n - 64) // 32)), 1])
                post = off + 32
                steps = [("word", off, r.getrandbits(256)), ("len",), ("get_word", post), ("get_word", off + 16), ("get_word", off - 1 if off else 0), ("get_byte", post), ("get_byte", n - 1)]
                for _ in range(4):
                    k = r.choice(ks)
                    p = r.randrange(post, max(post + 1, n - k + 1))
                    steps.append(("read", p, k))
                p = r.randrange(post, n - 8)
                steps += [("get_word", r.randrange(post, n)), ("selfcopy", n + 10, p, 8), ("read", n + 10, 8), ("get_word", n + 2), ("len",)]
                if r.random() < 0.5:
                    steps += [("byte", r.randrange(post + 1, n), r.randrange(256)), ("get_word", r.randrange(post, n - 1)), ("read", post, min(64, n - post))]
                steps += [("read", 0, r.choice([k for k in ks if k <= n])), ("read", r.randrange(0, off), min(off, 33)), ("unwrap",)]
                add({"tag": "overwrite-word", "kind": kind, "N": n, "init": "leaf", "steps": steps})
            # (2) a sub-range of the leaf copied into an empty memory (CALLDATACOPY-like)
            a = r.randrange(1, max(2, n // 2))
            m = r.choice([n - a, r.randrange(33, n - a + 1) if n - a > 33 else n - a, min(n - a, 200)])
            dst = r.choice([0, 0, 32, 5])
            steps = [("copy", dst, a, m), ("len",), ("get_word", dst), ("get_word", dst + 32), ("get_byte", dst + 7), ("get_byte", dst + m - 1), ("read", dst + 10, min(64, m - 10))]
            for _ in range(4):
                k = r.choice([k for k in ks if k <= m])
                steps.append(("read", dst + r.randrange(0, m - k + 1), k))
            steps += [("get_word", dst + m - 5), ("unwrap",)]
            add({"tag": "copy-subrange", "kind": kind, "N": n, "init": "empty", "steps": steps})
            # (3) slices of slices (ByteVec.slice twice, then reads)
            a = r.randrange(1, max(2, n // 3))
            b = r.randrange(a + min(40, n - a), n + 1)
            x = r.randrange(0, max(1, (b - a) // 2))
            y = r.randrange(x + 1, b - a + 1)
            steps = [("reslice", a, b), ("get_word", 0), ("get_word", 33), ("get_byte", 3), ("reslice", x, y), ("len",), ("get_word", 0), ("get_byte", 0)]
            for _ in range(3):
                k = r.choice([k for k in ks if k <= y - x])
                steps.append(("read", r.randrange(0, y - x - k + 1), k))
            steps.append(("unwrap",))
            add({"tag": "slice-of-slice", "kind": kind, "N": n, "init": "leaf", "steps": steps})
            # (4) a byte overwrite splits the leaf
            off = r.randrange(1, n - 1)
            steps = [("byte", off, r.randrange(256)), ("get_word", off + 1), ("get_word", max(0, off - 31)), ("get_byte", off + 1), ("read", off + 1, min(r.choice(ks), n - off - 1)), ("read", off + 1, n - off - 1),
                     ("read", 0, min(off, r.choice(ks))), ("get_byte", 0), ("unwrap",)]
            add({"tag": "overwrite-byte", "kind": kind, "N": n, "init": "leaf", "steps": steps})
            # (5) nested chunk windows c[a1:b1][a2:b2]..., final window small or large
            for depth in (2, 3):
                length = n
                ws = []
                for d in range(depth):
                    last = d == depth - 1
                    wa = r.randrange(1 if d == 0 and r.random() < 0.6 else 0, max(2, length // 3)) if r.random() < 0.8 else 0
                    if last:
                        k = r.choice([k for k in ks if k <= length - wa] or [1])
                        wb = wa + k
                    else:
                        wb = r.randrange(wa + max(1, (length - wa) // 2), length + 1)
                    ws.append((wa, wb))
                    length = wb - wa
                reads = [("len",), ("unwrap",), ("get_byte", 0), ("get_byte", length - 1), ("get_byte", r.randrange(length))]
                add({"tag": "chunk-windows", "kind": kind, "N": n, "chunk": True, "windows": ws, "reads": reads})
    return cases, {"leaf_sizes": ns, "literals_of_bytevec_py": lits}


def short(case):
    d = {k: v for k, v in case.items() if k != "steps"}
    if "steps" in case:
        d["steps"] = [list(s) for s in case["steps"]]
    return d


def run_layer(rep, r, tier):
    cases, info = gen_cases(r, tier)
    nfail = 0
    for c in cases:
        sym, impl = impl_run(c)
        d = compare(c, sym, impl, spec_run(c))
        rep.count("view_case", c["tag"] + "/" + c["kind"])
        rep.count("view_leaf_size", "<=1024" if c["N"] <= 1024 else ("<=4096" if c["N"] <= 4096 else ">4096"))
        rep.case({"view_case": c["tag"], "kind": c["kind"], "N": c["N"], "id": c["id"]}, nontrivial=True)
        if d is not None:
            nfail += 1
            if nfail <= 6:
                rep.fail("failing-input",
                         f"a read through an offset view of a {c['N']}-byte {'symbolic' if c['kind'] == 'sym' else 'concrete'} leaf disagrees with the flat byte array ({c['tag']}): {d['what']}; read {d.get('read')} of {str(short(c))[:500]}",
                         case={"view_case": short(c), **d}, sig={"observable": d["observable"], "op": d.get("op"), "layer": "views"})
    rep.coverage["views"] = {"cases": len(cases), "disagreeing": nfail, **info}
    return nfail


def replay_case(vc):
    c = dict(vc)
    if "steps" in c:
        c["steps"] = [tuple(s) for s in c["steps"]]
    if "windows" in c:
        c["windows"] = [tuple(w) for w in c["windows"]]
        c["reads"] = [tuple(x) for x in c["reads"]]
    sym, impl = impl_run(c)
    print("view case:", c)
    print("spec-vs-implementation:", compare(c, sym, impl, spec_run(c)))
