"""C03, read-over-write (Exec.select): the scripted-oracle tie of the real Exec.select with the extracted model
and an independent rendering of the spec, and the end-to-end runner with an injected `unknown`."""
import json
import os
import subprocess
from pathlib import Path

from harness import common, l3

INJECT = str(Path(__file__).with_name("c03_inject.py"))
UNSAT, SAT, UNKNOWN = 0, 1, 2


# ----------------------------------------------------------------------------- L1: Exec.select under a scripted oracle

def impl_select(case):
    """the REAL Exec.select on a chain of n z3 Stores (key of store i = variable k_i, value i+1; newest first = index 0),
    read at the variable q, with Exec.check answering from the script: answers[2i] to `q == k_i`, answers[2i+1] to
    `q != k_i`  (0 unsat, 1 sat, 2 unknown) -> [tag, position]  (0 ZERO / 1 stored value / 2 Select)"""
    import z3

    from halmos.sevm import Exec

    sym, n, answers = case
    res_of = {UNSAT: z3.unsat, SAT: z3.sat, UNKNOWN: z3.unknown}
    sort = z3.BitVecSort(256)
    base = z3.Array("storage_0xaa_0_1_256_00", sort, sort)
    arrays = {}
    cur = base
    for i in reversed(range(n)):           # oldest store first; store i has key k_i and value i + 1
        var = z3.Array(f"storage_0xaa_0_1_256_{n - i:>02}", sort, sort)
        arrays[var] = z3.Store(cur, z3.BitVec(f"k{i}", 256), z3.BitVecVal(i + 1, 256))
        cur = var
    q = z3.BitVec("q", 256)
    asked = []

    class Fake:
        pass

    fake = Fake()

    def check(cond):
        neg = z3.is_distinct(cond) or z3.is_not(cond)
        inner = cond.arg(0) if z3.is_not(cond) else cond
        names = sorted(str(inner.arg(j)) for j in range(2))
        if len(names) != 2 or names[1] != "q" or not names[0].startswith("k"):
            asked.append(("?", str(cond)))
            return z3.unknown
        i = int(names[0][1:])
        asked.append(("ne" if neg else "eq", i))
        return res_of[answers[2 * i + (1 if neg else 0)]]

    fake.check = check
    fake.select = lambda *a, **k: Exec.select(fake, *a, **k)
    res = Exec.select(fake, cur, q, arrays, bool(sym))
    res = res.as_z3() if hasattr(res, "as_z3") else res
    if z3.is_bv_value(res):
        v = res.as_long()
        return [0, n] if v == 0 else [1, v - 1]
    if z3.is_select(res):
        arr, depth = res.arg(0), n
        while arr in arrays:
            depth -= 1
            arr = arrays[arr].arg(0)
        return [2, depth] if z3.eq(res.arg(1), q) else ["?", "select at another key"]
    return ["?", str(res)[:60]]


def spec_select_ok(case, got):
    """independent rendering: is the result justified by what the oracle PROVED (its unsat answers), for every valuation
    compatible with those proofs?  -> None when justified, else a description.
    must_ne[i]: `q == k_i` proved impossible; must_eq[i]: `q != k_i` proved impossible."""
    sym, n, answers = case
    must_ne = [answers[2 * i] == UNSAT for i in range(n)]
    must_eq = [answers[2 * i + 1] == UNSAT for i in range(n)]
    if any(a and b for a, b in zip(must_ne, must_eq)):
        return None        # the oracle proved the path infeasible: anything goes
    if got[0] == "?":
        return f"unexpected result {got}"
    tag, pos = got
    if not all(must_ne[:pos]):
        i = must_ne[:pos].index(False)
        return f"store {i} (newer than the result) skipped although `q == k{i}` was not proved impossible (answer {answers[2 * i]})"
    if tag == 1 and not must_eq[pos]:
        return f"value of store {pos} returned although `q != k{pos}` was not proved impossible (answer {answers[2 * pos + 1]}): under q != k{pos} the read has another value"
    if tag == 0 and (sym or pos != n):
        return "ZERO returned for a symbolic account / before the end of the chain"
    return None


def gen_select_cases(r, tier):
    import itertools

    cases = []
    for sym in (0, 1):
        for n in (0, 1, 2):
            for ans in itertools.product((UNSAT, SAT, UNKNOWN), repeat=2 * n):
                cases.append((sym, n, list(ans)))
    for _ in range(250 if tier == "quick" else 4000):
        n = r.choice([3, 3, 4, 5])
        # mostly `proved distinct` towards the old end, so that deep positions are reached
        ans = []
        for i in range(n):
            ans += [r.choice([UNSAT, UNSAT, UNSAT, SAT, UNKNOWN]), r.choice([SAT, UNKNOWN, UNKNOWN, UNSAT])]
        cases.append((r.randrange(2), n, ans))
    return cases


def l1_select_tie(rep, m, tier, r):
    cases = gen_select_cases(r, tier)
    impl = []
    for c in cases:
        try:
            impl.append(impl_select(c))
        except Exception as e:  # noqa: BLE001
            impl.append(["?", f"{type(e).__name__}: {e}"[:100]])
    model = m.parallel_batch([("c03_select", [c[0], c[1], *c[2]]) for c in cases]) if m else None
    nbad = 0
    for i, c in enumerate(cases):
        case = {"l1": "select", "symbolic": c[0], "stores": c[1], "answers(eq_i,ne_i; 0 unsat 1 sat 2 unknown)": c[2]}
        rep.case(case, nontrivial=c[1] > 0)
        rep.count("l1_select", {0: "zero", 1: "stored-value", 2: "select"}.get(impl[i][0], "?") + ("/some-unknown" if UNKNOWN in c[2] else ""))
        why = spec_select_ok(c, impl[i])
        if why:
            nbad += 1
            if nbad <= 3:
                rep.fail("failing-input", f"Exec.select (read-over-write) with {c[1]} stores under the scripted oracle {c[2]} returns {impl[i]}: {why}",
                         case={**case, "implementation": impl[i]}, sig={"kind": "l1-select-unproved-decision"})
            continue
        if model is not None and (model[i] is None or list(model[i]) != list(impl[i])):
            nbad += 1
            if nbad <= 3:
                rep.fail("broken-tie", f"Exec.select: model {model[i]} vs implementation {impl[i]} on {case}", case={**case, "implementation": impl[i], "model": model[i]})
    return len(cases)


# ----------------------------------------------------------------------------- L3: halmos with an injected `unknown`

class InjProject(l3.Project):
    """l3.Project whose run() can start halmos through harness/c03_inject.py (inject = [mode, seed])"""

    def run(self, options=(), timeout=120, inject=None):
        if not inject:
            return super().run(options, timeout=timeout)
        js = self.dir / "result.json"
        if js.exists():
            js.unlink()
        argv = ["--root", str(self.dir), "--json-output", str(js), "--no-status", *map(str, options)]
        env = dict(os.environ)
        env["PATH"] = f"{self.dir / 'stubbin'}:/venv/bin:" + env.get("PATH", "")
        env["PYTHONPATH"] = str(common.REPO / "src")
        env["PYTHONHASHSEED"] = "0"
        env["COLUMNS"] = "100000"
        env["NO_COLOR"] = "1"
        env["TERM"] = "dumb"
        env["HOME"] = str(self.dir)
        try:
            p = subprocess.run([common.PY, INJECT, str(inject[0]), str(inject[1]), *argv], cwd=self.dir, env=env, capture_output=True, text=True, timeout=timeout)
            rc, out, err = p.returncode, p.stdout, p.stderr
        except subprocess.TimeoutExpired as e:
            rc = -9
            out = (e.stdout or b"").decode(errors="replace") if isinstance(e.stdout, bytes) else (e.stdout or "")
            err = "HARNESS-TIMEOUT"
        data = None
        if js.exists():
            try:
                data = json.loads(js.read_text())
            except Exception:  # noqa: BLE001
                data = None
        return l3.Result(rc, out, err, data, argv)
