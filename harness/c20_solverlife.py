"""C20 / C15 tie for the per-state solver life cycle of halmos.__main__.run_message.

A generated test (a decision tree over literals `x_v == k` / `x_v != k` on its calldata words) is run by the REAL
run_message on hand-built frontiers (ContractContext.frontier_states filled for depths 0..d, several states per depth;
a state holds the test's symbols in storage and carries constraints on them, so that Exec.path_slice puts them into the
slice and Path.extend_path hands them to the solver).  Per state, the outcomes (leaf ids, in the order the paths end) and
what the solver holds when the run returns are recorded.  Compared with
  (spec)  the state explored ALONE (a frontier made of this state only) and the frontier in reversed order: the
          outcomes of a state must not depend on which states were explored before it; and an independent rendering of
          the specification: the leaves reached by the valuations that satisfy the state's constraints (enumerated);
  (model) the extracted Model/SolverLifeModel.v under the regenerated life cycle (c20_solverlife: outcomes per state in
          order; c20_solver_leftover: the literals left in the solver by the run on a state).
"""
import contextlib
import io
import itertools

HALT = {0: "STOP", 1: "INVALID", 2: "REVERT"}
NVARS = 2


# ----------------------------------------------------------------------------- generation

def gen_prog(r, depth, used, ids):
    """decision tree: ("leaf", outcome) | ("br", (v, k, p), then, else); no (v, k) twice along a path, none from `used`"""
    if depth == 0 or r.random() < 0.25:
        i = next(ids)
        return ("leaf", i * 3 + r.choice([0, 0, 1, 1, 2]))
    for _ in range(20):
        v, k = r.randrange(NVARS), r.choice([3, 5, 7, 12])
        if (v, k) not in used:
            break
    else:
        i = next(ids)
        return ("leaf", i * 3)
    lit = (v, k, r.choice([1, 1, 0]))
    u2 = used | {(v, k)}
    return ("br", lit, gen_prog(r, depth - 1, u2, ids), gen_prog(r, depth - 1, u2, ids))


def prog_lits(p):
    if p[0] == "leaf":
        return set()
    return {(p[1][0], p[1][1])} | prog_lits(p[2]) | prog_lits(p[3])


def gen_case(r, idx):
    """{"prog": tree, "frontiers": [[state]], ...}; state = {"slice": [(v, k, p)]}"""
    ids = itertools.count()
    prog = gen_prog(r, r.choice([1, 2, 2, 3]), frozenset(), ids)
    if prog[0] == "leaf":
        prog = ("br", (0, 5, 1), ("leaf", 1), ("leaf", 0))
    tested = sorted(prog_lits(prog))
    # constants of the slices: not the (v, k) pairs the program tests (the quick membership answers of Exec.check are
    # outside the model), but constants that decide them: x == 9 refutes x == 5, x != 9 does not
    pool = [(v, k) for v in range(NVARS) for k in (9, 11, 20) if (v, k) not in tested]
    depths = r.choice([1, 2, 2, 3])
    frontiers = []
    for d in range(depths):
        n = 1 if d == 0 and r.random() < 0.6 else r.randint(1, 3)
        sts = []
        for _ in range(n):
            sl = []
            for v, k in r.sample(pool, r.choice([0, 0, 1, 1, 2])):
                if any(v == v2 and p2 for v2, _k2, p2 in sl):
                    continue
                sl.append((v, k, r.choice([0, 0, 1])))
            sts.append({"slice": sl})
        frontiers.append(sts)
    return {"id": idx, "prog": prog, "frontiers": frontiers}


def corpus():
    w = ("br", (0, 5, 1), ("leaf", 1), ("leaf", 0))
    return [
        # the same branch on two unconstrained states, at depth 0 and 1 (one solver for both loses a path on the second)
        {"id": "corpus-same-branch-d1", "prog": w, "frontiers": [[{"slice": []}], [{"slice": []}]]},
        # ... on three states of depths 0, 1, 2
        {"id": "corpus-same-branch-d2", "prog": w, "frontiers": [[{"slice": []}], [{"slice": []}], [{"slice": []}]]},
        # two sibling states of one depth with contradicting constraints on the shared symbol (x == 12 / x != 12):
        # under what the first leaves behind the second is not explored at all
        {"id": "corpus-siblings", "prog": w, "frontiers": [[{"slice": []}], [{"slice": [(0, 12, 1)]}, {"slice": [(0, 12, 0)]}]]},
        {"id": "corpus-siblings-rev", "prog": w, "frontiers": [[{"slice": []}], [{"slice": [(0, 12, 0)]}, {"slice": [(0, 12, 1)]}]]},
        # nested branches on two symbols, three depths
        {"id": "corpus-nested", "prog": ("br", (0, 5, 1), ("br", (1, 7, 0), ("leaf", 3), ("leaf", 7)), ("br", (1, 3, 1), ("leaf", 10), ("leaf", 12))),
         "frontiers": [[{"slice": []}], [{"slice": [(1, 9, 1)]}, {"slice": []}], [{"slice": [(0, 9, 0)]}, {"slice": [(1, 9, 0), (0, 11, 1)]}]]},
    ]


# ----------------------------------------------------------------------------- specification (independent rendering)

def spec_outcomes(prog, sl):
    """the leaves reached by the valuations that satisfy the slice (values: every constant in sight and one other)"""
    consts = {k for _v, k in prog_lits(prog)} | {k for _v, k, _p in sl}
    dom = sorted(consts) + [max(consts | {0}) + 1]
    out = set()
    for vals in itertools.product(dom, repeat=NVARS):
        if all((vals[v] == k) == bool(p) for v, k, p in sl):
            p = prog
            while p[0] == "br":
                v, k, pol = p[1]
                p = p[2] if (vals[v] == k) == bool(pol) else p[3]
            out.add(p[1])
    return sorted(out)


# ----------------------------------------------------------------------------- model encoding

def enc_prog(p):
    if p[0] == "leaf":
        return [0, p[1]]
    v, k, pol = p[1]
    return [1, v, k, pol] + enc_prog(p[2]) + enc_prog(p[3])


def enc_state(prog, st):
    return [len(st["slice"])] + [z for lit in st["slice"] for z in lit] + enc_prog(prog)


def enc_frontiers(prog, frontiers):
    out = [len(frontiers)]
    for sts in frontiers:
        out.append(len(sts))
        for st in sts:
            out += enc_state(prog, st)
    return out


def dec_outs(res, n):
    out, i = [], 0
    for _ in range(n):
        k = res[i]
        out.append(res[i + 1:i + 1 + k])
        i += 1 + k
    return out, res[i:]


# ----------------------------------------------------------------------------- the real run

def assemble_prog(prog):
    from harness.asm import assemble

    cnt = itertools.count()

    def go(p):
        if p[0] == "leaf":
            o = p[1]
            halt = {"STOP": ["STOP"], "INVALID": ["INVALID"], "REVERT": ["PUSH0", "PUSH0", "REVERT"]}[HALT[o % 3]]
            return [("pushn", 2, o)] + halt
        v, k, pol = p[1]
        lab = f"T{next(cnt)}"
        cond = [("push", k), ("push", 4 + 32 * v), "CALLDATALOAD", "EQ"] + ([] if pol else ["ISZERO"])
        return cond + [("ref", lab), "JUMPI"] + go(p[3]) + [("label", lab)] + go(p[2])

    return assemble(go(prog))


_ENV = {}


def _env():
    if not _ENV:
        from halmos.calldata import FunctionInfo
        from halmos.config import ConfigSource, arg_parser, default_config

        overrides = arg_parser().parse_args(["--solver-timeout-branching", "30s", "--no-status"])
        _ENV["args"] = default_config().with_overrides(ConfigSource.command_line, **vars(overrides))
        _ENV["fun"] = FunctionInfo("T", "check_x", "check_x(uint256,uint256)", "aabbccdd")
    return _ENV["args"], _ENV["fun"]


def parse_lit(a, names):
    """z3 assertion -> (v, k, p) or None"""
    import z3

    pol = 1
    if z3.is_not(a):
        pol, a = 0, a.arg(0)
    if not z3.is_eq(a) or a.num_args() != 2:
        return None
    x, y = a.arg(0), a.arg(1)
    if z3.is_bv_value(x):
        x, y = y, x
    if not z3.is_bv_value(y) or not z3.is_const(x) or str(x) not in names:
        return None
    return (names[str(x)], y.as_long(), pol)


def real_run(prog, frontiers):
    """-> {"outs": per depth per state [leaf ids in order], "left": per depth per state (sorted literals | None),
           "sliced_ok": every constraint of every state was in its slice}"""
    from z3 import BitVec, BitVecVal

    from halmos.__main__ import mk_block, mk_solver, run_message
    from halmos.bytevec import ByteVec
    from halmos.processes import ExecutorRegistry
    from halmos.sevm import EMPTY_BALANCE, FOUNDRY_CALLER, FOUNDRY_ORIGIN, FOUNDRY_TEST, SEVM, CallContext, Contract, Message, Path
    from halmos.solve import ContractContext, FunctionContext
    from halmos.utils import EVM, con

    args, fun = _env()
    code = assemble_prog(prog)
    xs = [BitVec(f"p_x{v}_uint256_c20sl_00", 256) for v in range(NVARS)]
    names = {str(x): v for v, x in enumerate(xs)}
    sevm = SEVM(args, fun)
    sliced_ok = True
    counter = itertools.count()

    def mk_state(st):
        nonlocal sliced_ok
        storage = sevm.mk_storagedata()
        storage[0, 0, 0] = con(next(counter))          # tells the states apart (different state ids)
        for v, x in enumerate(xs):
            storage[1 + v, 0, 0] = x                   # the symbols are held in the state: constraints on them are sliced
        ex = sevm.mk_exec(
            code={FOUNDRY_TEST: Contract(code)}, storage={FOUNDRY_TEST: storage}, transient_storage={FOUNDRY_TEST: sevm.mk_storagedata()},
            balance=EMPTY_BALANCE, block=mk_block(),
            context=CallContext(message=Message(target=FOUNDRY_TEST, caller=FOUNDRY_CALLER, origin=FOUNDRY_ORIGIN, value=0, data=ByteVec(), call_scheme=EVM.CALL)),
            pgm=Contract(code), path=Path(mk_solver(args)))
        for v, k, p in st["slice"]:
            c = xs[v] == BitVecVal(k, 256)
            ex.path.append(c if p else c == False)  # noqa: E712  (z3 term)
        ex.path_slice()
        if ex.path.sliced is None or len(ex.path.sliced) != len(ex.path.conditions):
            sliced_ok = False
        return ex

    states = [[mk_state(st) for st in sts] for sts in frontiers]
    cctx = ContractContext(args=args, name="T", funsigs=[fun.sig], creation_hexcode="", deployed_hexcode=code.hex(), abi={},
                           method_identifiers={fun.sig: fun.selector}, contract_json={}, libs={}, build_out_map={})
    for d, sts in enumerate(states):
        cctx.frontier_states[d] = sts
    fctx = FunctionContext(args=args, info=fun, solver=None, contract_ctx=cctx, setup_ex=states[0][0], max_call_depth=len(states) - 1)
    message = Message(target=FOUNDRY_TEST, caller=FOUNDRY_CALLER, origin=FOUNDRY_ORIGIN, value=0,
                      data=ByteVec([bytes.fromhex(fun.selector)] + xs), call_scheme=EVM.CALL, fun_info=fun)

    flat = [(d, i) for d, sts in enumerate(states) for i in range(len(sts))]
    outs = {pos: [] for pos in flat}
    left = {}
    seen = itertools.count()
    orig = sevm.run_message

    def wrapped(ex, msg, path):
        pos = flat[next(seen)]
        for o in orig(ex, msg, path):
            yield (pos, o)
        lits = [parse_lit(a, names) for a in path.solver.assertions()]
        left[pos] = None if any(x is None for x in lits) else sorted(set(lits))

    sevm.run_message = wrapped
    try:
        with contextlib.redirect_stdout(io.StringIO()), contextlib.redirect_stderr(io.StringIO()):
            for pos, ex in run_message(fctx, sevm, message, []):
                top = ex.st.stack[-1] if ex.st.stack else None
                outs[pos].append(int(str(top.value if hasattr(top, "value") else top)) if top is not None else -1)
    finally:
        fctx.thread_pool.shutdown(wait=True)
        ExecutorRegistry().shutdown_all()
    return {"outs": [[outs[(d, i)] for i in range(len(sts))] for d, sts in enumerate(states)],
            "left": [[left.get((d, i)) for i in range(len(sts))] for d, sts in enumerate(states)],
            "sliced_ok": sliced_ok}


def task(case):
    """pool worker: the frontier as given, reversed, and every state alone"""
    prog, fr = case["prog"], case["frontiers"]
    res = {"case": case}
    try:
        res["full"] = real_run(prog, fr)
        rev = [list(reversed(sts)) for sts in reversed(fr)]          # depths and states in the opposite order
        r2 = real_run(prog, rev)
        res["reversed"] = [list(reversed(x)) for x in reversed(r2["outs"])]
        res["alone"] = [[real_run(prog, [[st]]) for st in sts] for sts in fr]
    except Exception as e:  # noqa: BLE001
        import traceback

        res["error"] = f"{type(e).__name__}: {e}\n{traceback.format_exc()[-800:]}"
    return res
