"""Shared machinery of every check: translators -> Gen/*.v, Coq build, lint gate,
Print Assumptions collection, extracted-model driver, evidence / replay / known findings.
"""
import fcntl
import hashlib
import importlib
import json
import os
import random
import re
import subprocess
import sys
import time
import traceback
from contextlib import contextmanager
from pathlib import Path

VERIF = Path(__file__).resolve().parent.parent
REPO = Path(os.environ.get("HALMOS_REPO", "/repo"))
SRC = REPO / "src" / "halmos"
COQ = VERIF / "coq"
GEN = COQ / "Gen"
BUILD = COQ / "_build"
# runs against a scratch copy of the source (HALMOS_REPO=...: mutation / seeded-change experiments) must not
# overwrite the evidence of the run against /repo itself
_SCRATCH = os.environ.get("HALMOS_REPO") not in (None, "", "/repo")
EVIDENCE = Path(os.environ.get("VERIF_EVIDENCE_DIR") or (VERIF / "_scratch_evidence" if _SCRATCH else VERIF / "evidence"))
REPLAYS = VERIF / "replays"
CORPUS = VERIF / "corpus"
PY = "/venv/bin/python"
GUARD = "HALMOS_VERIF"

sys.path.insert(0, str(VERIF))

TRUSTED_BASE_COMMON = [
    "Coq 8.16.1 kernel (coqc, full .vo build via coq_makefile; vm_compute used for finite-table theorems; no native_compute)",
    "OCaml 4.13.1 extraction of the executable models with ExtrOcamlBasic + ExtrOcamlString only (bool, option, unit, list, prod, sumbool -> OCaml natives; andb/orb inlined; ascii -> char, string -> char list); Z/N/positive/nat stay the extracted inductive types",
    "coq/Extract/driver.ml (generic line protocol: name + hex integers in, hex integers out)",
    "the Python harness (harness/*.py) and translators (translate/*.py), the latter cross-checked against the imported module",
    "z3 Python bindings (simplify / evaluation of closed terms) when halmos returns a symbolic term",
]


def seed():
    try:
        return int(os.environ.get("VERIF_SEED", "20260923"))
    except ValueError:
        return 20260923


def rng(tag=""):
    return random.Random(f"{seed()}:{tag}")


# --------------------------------------------------------------------------- translators

TRANSLATORS = {}  # name -> (module, source file under src/halmos, output file under coq/Gen); see registry.py


def register_translator(name, module, src, out):
    TRANSLATORS[name] = (module, src, out)


def run_translator(name):
    """Returns dict(ok, error, changed, selfcheck, out)."""
    module, src, out = TRANSLATORS[name]
    res = {"name": name, "source": f"src/halmos/{src}", "out": f"coq/Gen/{out}", "ok": False, "error": None, "selfcheck": []}
    try:
        mod = importlib.import_module(module)
        text = (SRC / src).read_text()
        gen, info = mod.translate(text)
        GEN.mkdir(parents=True, exist_ok=True)
        path = GEN / out
        if not path.exists() or path.read_text() != gen:
            path.write_text(gen)
            res["changed"] = True
        try:
            bad = mod.selfcheck(info)
        except Exception as e:  # importing halmos failed etc.
            bad = [f"selfcheck raised {type(e).__name__}: {e}"]
        res["selfcheck"] = bad
        res["ok"] = not bad
        if bad:
            res["error"] = "translator self-check: " + "; ".join(bad[:5])
    except Exception as e:
        res["error"] = f"{type(e).__name__}: {e}"
        res["trace"] = traceback.format_exc()[-1500:]
    return res


# --------------------------------------------------------------------------- coq build

@contextmanager
def build_lock():
    BUILD.mkdir(parents=True, exist_ok=True)
    with open(VERIF / ".build.lock", "w") as f:
        fcntl.flock(f, fcntl.LOCK_EX)
        try:
            yield
        finally:
            fcntl.flock(f, fcntl.LOCK_UN)


COQ_DIRS = ["Base", "Spec", "Gen", "Model", "Proofs", "Props", "Extract"]


def write_coq_project():
    files = []
    for d in COQ_DIRS:
        files += sorted(str(p.relative_to(COQ)) for p in (COQ / d).glob("*.v"))
    text = "-Q . HV\n-arg -w -arg -notation-overridden,-deprecated-hint-without-locality,-deprecated-instance-without-locality\n" + "\n".join(files) + "\n"
    proj = COQ / "_CoqProject"
    if not proj.exists() or proj.read_text() != text or not (COQ / "Makefile").exists():
        proj.write_text(text)
        subprocess.run(["coq_makefile", "-f", "_CoqProject", "-o", "Makefile"], cwd=COQ, check=True, capture_output=True)


def coq_make(targets, timeout=1500, jobs=16):
    """make the given .vo targets; returns (ok, log)."""
    write_coq_project()
    cmd = ["timeout", str(timeout), "make", f"-j{jobs}", "--no-print-directory"] + list(targets)
    p = subprocess.run(cmd, cwd=COQ, capture_output=True, text=True)
    return p.returncode == 0, (p.stdout + p.stderr)


LINT_RE = re.compile(
    r"\b(Admitted|admit|Axiom|Axioms|Parameter|Parameters|Conjecture|Conjectures|Admit\s+Obligations|bypass_check|Unset\s+Guard\s+Checking|Unset\s+Positivity\s+Checking|Unset\s+Universe\s+Checking|type-in-type|impredicative-set|native_compute)\b"
)
SECTIONLESS_RE = re.compile(r"^\s*(Variable|Variables|Hypothesis|Hypotheses|Context)\b")


def strip_coq_comments(text):
    out, depth, i = [], 0, 0
    while i < len(text):
        if text.startswith("(*", i):
            depth += 1
            i += 2
        elif text.startswith("*)", i) and depth:
            depth -= 1
            i += 2
        else:
            if depth == 0:
                out.append(text[i])
            elif text[i] == "\n":
                out.append("\n")
            i += 1
    return "".join(out)


def lint_coq():
    """No Admitted/Axiom/...; Variable/Hypothesis only inside a Section."""
    problems = []
    for d in COQ_DIRS:
        for p in sorted((COQ / d).glob("*.v")):
            text = strip_coq_comments(p.read_text())
            depth = 0
            for ln, line in enumerate(text.splitlines(), 1):
                if re.match(r"^\s*Section\b", line):
                    depth += 1
                elif re.match(r"^\s*End\b", line) and depth:
                    depth -= 1
                m = LINT_RE.search(line)
                if m:
                    problems.append(f"{p.relative_to(VERIF)}:{ln}: forbidden `{m.group(1)}`")
                if depth == 0 and SECTIONLESS_RE.match(line):
                    problems.append(f"{p.relative_to(VERIF)}:{ln}: Variable/Hypothesis outside a Section")
    return problems


def parse_assumptions(log):
    """Split the output of compiling Props/Cxx.v into {theorem: assumptions-text}."""
    # Print Assumptions prints either "Closed under the global context" or "Axioms:\n..."
    res = []
    blocks = re.split(r"(?m)^(?=Closed under the global context|Axioms:)", log)
    for b in blocks:
        b = b.strip()
        if b.startswith("Closed under") or b.startswith("Axioms:"):
            res.append(b)
    return res


def build_property(pid, translators=None, extra_targets=()):
    """Regenerate Gen, build Props/<pid>.vo (always recompiling the Props file itself so
    that Print Assumptions output is captured).  Returns a dict describing each
    obligation."""
    out = {"translators": [], "make_ok": False, "make_log": "", "lint": [], "theorems": [], "assumptions": []}
    with build_lock():
        own = list(TRANSLATORS if translators is None else translators)
        for name in own:
            out["translators"].append(run_translator(name))
        # every other generated file is refreshed as well (not an obligation of this property): a Gen file left
        # behind by a run against another state of the source must never leak into this build
        out["aux_translators"] = [run_translator(name) for name in TRANSLATORS if name not in own]
        props = COQ / "Props" / f"{pid}.v"
        for ext in (".vo", ".glob", ".vos", ".vok"):
            f = props.with_suffix(ext)
            if f.exists():
                f.unlink()
        ok, log = coq_make([f"Props/{pid}.vo", *extra_targets])
        out["make_ok"] = ok
        out["make_log"] = log[-6000:]
        out["lint"] = lint_coq()
        text = strip_coq_comments(props.read_text()) if props.exists() else ""
        out["theorems"] = re.findall(r"(?m)^\s*(?:Theorem|Lemma|Corollary|Example)\s+([A-Za-z0-9_']+)", text)
        out["assumptions"] = parse_assumptions(log) if ok else []
    return out


# --------------------------------------------------------------------------- extracted model driver

def build_driver(pid):
    """Extract/Ex<pid>.v writes _build/<pid>/entries.ml; compile with the generic driver."""
    with build_lock():
        bdir = BUILD / pid
        bdir.mkdir(parents=True, exist_ok=True)
        ok, log = coq_make([f"Extract/Ex{pid}.vo"])
        if not ok:
            return None, log
        ml = bdir / "entries.ml"
        if not ml.exists():
            return None, f"extraction produced no {ml}"
        exe = bdir / "driver"
        stamp = bdir / "stamp"
        h = hashlib.sha256(ml.read_bytes() + (COQ / "Extract" / "driver.ml").read_bytes()).hexdigest()
        if not exe.exists() or not stamp.exists() or stamp.read_text() != h:
            for f in ("driver.ml",):
                (bdir / f).write_bytes((COQ / "Extract" / f).read_bytes())
            mli = bdir / "entries.mli"
            srcs = (["entries.mli"] if mli.exists() else []) + ["entries.ml", "driver.ml"]
            p = subprocess.run(
                ["timeout", "600", "ocamlfind", "ocamlopt", "-O2", "-w", "-a", *srcs, "-o", "driver"],
                cwd=bdir, capture_output=True, text=True)
            if p.returncode != 0:
                p = subprocess.run(
                    ["timeout", "600", "ocamlfind", "ocamlopt", "-w", "-a", *srcs, "-o", "driver"],
                    cwd=bdir, capture_output=True, text=True)
            if p.returncode != 0:
                return None, p.stdout + p.stderr
            stamp.write_text(h)
        return exe, log


class Model:
    """Line protocol to the extracted model: `name hex hex ...` -> `hex hex ...`.
    Negative integers are written with a leading '-'."""

    def __init__(self, exe):
        self.exe = str(exe)

    @staticmethod
    def enc(v):
        return ("-" + format(-v, "x")) if v < 0 else format(v, "x")

    @staticmethod
    def dec(s):
        return -int(s[1:], 16) if s.startswith("-") else int(s, 16)

    def batch(self, calls, timeout=900):
        """calls: list of (name, [ints]); returns list of [ints] (or None on model error)."""
        inp = "\n".join(name + "".join(" " + self.enc(v) for v in args) for name, args in calls) + "\n"
        env = dict(os.environ, OCAMLRUNPARAM="l=8G")
        p = subprocess.run(["timeout", str(timeout), self.exe], input=inp, capture_output=True, text=True, env=env)
        if p.returncode != 0:
            raise RuntimeError(f"model driver failed rc={p.returncode}: {p.stderr[-500:]}")
        lines = p.stdout.split("\n")
        if lines and lines[-1] == "":
            lines.pop()
        if len(lines) != len(calls):
            raise RuntimeError(f"model driver returned {len(lines)} lines for {len(calls)} calls")
        out = []
        for ln in lines:
            if ln.startswith("!"):
                out.append(None)
            else:
                out.append([self.dec(t) for t in ln.split()])
        return out

    def parallel_batch(self, calls, workers=16, timeout=900):
        from concurrent.futures import ThreadPoolExecutor

        if len(calls) < 64:
            return self.batch(calls, timeout)
        n = max(1, min(workers, len(calls) // 32))
        chunks = [calls[i::n] for i in range(n)]
        with ThreadPoolExecutor(n) as ex:
            parts = list(ex.map(lambda c: self.batch(c, timeout), chunks))
        out = [None] * len(calls)
        for k, part in enumerate(parts):
            out[k::n] = part
        return out


# --------------------------------------------------------------------------- evidence / violations

def known_findings():
    p = VERIF / "known_findings.json"
    if not p.exists():
        return {"findings": [], "fixed": []}
    return json.loads(p.read_text())


def known_for(pid):
    """recorded (not repaired) findings of one property, from known_findings.json"""
    return [k for k in known_findings().get("findings", []) if k.get("property") == pid]


def case_hash(obj):
    return hashlib.sha256(json.dumps(obj, sort_keys=True, default=str).encode()).hexdigest()[:16]


class Report:
    """Collects obligations, tie statistics and failures of one check run."""

    def __init__(self, pid, tier):
        self.pid = pid
        self.tier = tier
        self.t0 = time.time()
        self.obligations = []      # (name, ok, detail)
        self.failures = []         # dict(kind, what, case, ...)
        self.known_hits = []       # (finding id, what)
        self.coverage = {}
        self.assumptions = []
        self.axioms = {}
        self.samples = []
        self.evaluations = 0
        self.distinct = set()
        self.hist = {}

    def obligation(self, name, ok, detail=""):
        self.obligations.append((name, bool(ok), detail))
        return ok

    def count(self, key, sub, n=1):
        self.hist.setdefault(key, {})
        self.hist[key][str(sub)] = self.hist[key].get(str(sub), 0) + n

    def case(self, case, nontrivial=True):
        self.evaluations += 1
        if nontrivial:
            self.distinct.add(case_hash(case))
        if len(self.samples) < 6:
            self.samples.append(case)

    def fail(self, kind, what, case=None, **kw):
        """kind: failing-input | broken-obligation | broken-tie"""
        self.failures.append(dict(kind=kind, what=what, case=case, **kw))

    # ----- final
    def finish(self, level="proof", checker_cmd="", trusted_base=(), assumptions=(), partial=None, rule="", extra=None):
        kf = known_findings()
        unknown = []
        known = []
        for f in self.failures:
            match = None
            if f["kind"] == "failing-input":
                for k in kf.get("findings", []):
                    if k.get("property") == self.pid and finding_matches(k, f):
                        match = k
                        break
            if match:
                known.append((match, f))
            else:
                unknown.append(f)
        n_obl = len(self.obligations)
        n_ok = sum(1 for _, ok, _ in self.obligations if ok)
        cov = {
            "obligations": n_obl,
            "discharged": n_ok,
            "checker_cmd": checker_cmd,
            "trusted_base": list(trusted_base),
            "obligation_list": [{"name": n, "ok": ok, "detail": d} for n, ok, d in self.obligations],
            "axioms": self.axioms,
            "evaluations": self.evaluations,
            "distinct_nontrivial": len(self.distinct),
            "rule": rule,
            "samples": self.samples,
            "input_distribution": self.hist,
            "known_findings_hit": sorted({k["id"] for k, _ in known}),
        }
        if partial:
            cov["partial"] = partial
        if extra:
            cov.update(extra)
        cov.update(self.coverage)
        ev = {
            "property_id": self.pid,
            "tier": self.tier,
            "seed": seed(),
            "level": level,
            "coverage": cov,
            "assumptions": list(assumptions),
            "wall_s": round(time.time() - self.t0, 2),
            "violations": len(unknown),
        }
        EVIDENCE.mkdir(exist_ok=True)
        (EVIDENCE / f"{self.pid}.json").write_text(json.dumps(ev, indent=1, default=str) + "\n")
        seen = set()
        for k, f in known:
            if k["id"] not in seen:
                seen.add(k["id"])
                print(f"KNOWN-FINDING: property={self.pid} {k['id']}: {k['what']}")
        # every listed finding of the property is reported, also when this run's cases did not reproduce it
        # (the thorough tier, or another seed, does): it stays a known, unrepaired defect
        for k in known_for(self.pid):
            if k["id"] not in seen:
                seen.add(k["id"])
                print(f"KNOWN-FINDING: property={self.pid} {k['id']} (listed; not reproduced by this run's cases): {k['what']}")
        if not unknown:
            print(f"OK property={self.pid} tier={self.tier} obligations={n_ok}/{n_obl} evaluations={self.evaluations} distinct_nontrivial={len(self.distinct)} wall={ev['wall_s']}s")
            return 0
        # one replay file for the run; failing inputs first
        REPLAYS.mkdir(exist_ok=True)
        unknown.sort(key=lambda f: 0 if f["kind"] == "failing-input" else 1)
        have_input = any(f["kind"] == "failing-input" for f in unknown)
        body = {
            "property": self.pid,
            "tier": self.tier,
            "seed": seed(),
            "failures": unknown[:20],
            "n_failures": len(unknown),
            "how_to_rerun": f"VERIF_SEED={seed()} bin/check {self.pid} {self.tier}",
        }
        path = REPLAYS / f"{self.pid}-{case_hash(body)}.json"
        path.write_text(json.dumps(body, indent=1, default=str) + "\n")
        for f in unknown[:8]:
            print(f"  FAIL[{f['kind']}] {f['what']}"[:600])
        suffix = "" if have_input else " no-failing-input-found"
        print(f"VIOLATION property={self.pid} replay={path}{suffix}")
        return 1


def finding_matches(k, f):
    """A known finding carries a `match` dict: every key must equal (or, for `*_contains`
    keys, be contained in) the corresponding field of the failure's `sig` dict."""
    sig = f.get("sig") or {}
    m = k.get("match") or {}
    if not m:
        return False
    for key, val in m.items():
        if key.endswith("_contains"):
            if str(val) not in str(sig.get(key[: -len("_contains")], "")):
                return False
        elif key.endswith("_in"):
            if sig.get(key[: -len("_in")]) not in val:
                return False
        elif sig.get(key) != val:
            return False
    return True


def standard_obligations(rep, pid, b):
    """Turn the result of build_property into obligations + failures."""
    for t in b["translators"]:
        ok = rep.obligation(f"translator {t['name']} ({t['source']} -> {t['out']})", t["ok"], t["error"] or "")
        if not ok:
            rep.fail("broken-tie", f"translator {t['name']} no longer understands {t['source']}: {t['error']}", case={"translator": t["name"]})
    ok = rep.obligation(f"make Props/{pid}.vo (all theorems of {pid} and their lemmas re-checked against the regenerated Gen/*.v)", b["make_ok"], "" if b["make_ok"] else b["make_log"][-1500:])
    if not ok:
        m = re.search(r'File "([^"]+)", line (\d+)[^\n]*\n(?:[^\n]*\n){0,3}?Error:?([^\n]*(?:\n[^\n]*){0,6})', b["make_log"])
        where = f"{m.group(1)}:{m.group(2)}: {m.group(3).strip()[:400]}" if m else b["make_log"][-600:]
        rep.fail("broken-obligation", f"Coq build of Props/{pid}.vo failed: {where}", case={"theorem_or_file": where})
    ok = rep.obligation("lint gate: no Admitted/admit/Axiom/Parameter/Conjecture/guard-checking switches; Variable/Hypothesis only inside Sections", not b["lint"], "; ".join(b["lint"][:5]))
    if not ok:
        rep.fail("broken-obligation", "lint gate: " + "; ".join(b["lint"][:5]), case={"lint": b["lint"][:5]})
    if b["make_ok"]:
        for name in b["theorems"]:
            rep.obligation(f"theorem {name}", True)
        ass = b["assumptions"]
        rep.axioms = {"theorems": b["theorems"], "print_assumptions": ass}
        nonclosed = [a for a in ass if not a.startswith("Closed under")]
        rep.coverage["axioms_summary"] = "all theorems closed under the global context" if not nonclosed else f"{len(nonclosed)} theorem(s) depend on axioms (listed verbatim in axioms.print_assumptions)"
    return b["make_ok"] and not b["lint"] and all(t["ok"] for t in b["translators"])
