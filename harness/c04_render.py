"""C04, X-render: what halmos PRINTS for a counterexample must denote the solver's model.

The user replays the text after `Counterexample:`; that text is str(PotentialModel).  Here
 * read_cex(text) is the reader's side, an independent Python rendering of Spec/CexPrintSpec.v
   (name up to the first space, " = 0x", lower-case hexadecimal digits; the empty-set sign for a
   model without variables);
 * gen_models builds solver outputs (z3 / yices syntaxes) for variables of every declared
   solidity type at several SMT widths, with values that do NOT fit the declared type (a static
   calldata argument is a 256-bit word whatever its type: code that reads it without ABI
   validation - raw bytecode, Yul, assembly - branches on all 256 bits), sign bits, dirty address
   bits, very long bytes;
 * the real parse_model_str builds the ModelVariables, the real PotentialModel prints them, the text
   is read back and must be exactly the solver's assignment; the same text must come out of the
   extracted model (Model/CexPrintModel.v interpreting the regenerated f-string / hexify arm).
"""
import re

EMPTY = "∅"

TYPES = (["uint8", "uint16", "uint32", "uint64", "uint128", "uint160", "uint248", "uint256", "address", "bool", "int8", "int128", "int256",
          "bytes1", "bytes4", "bytes20", "bytes32", "bytes", "string", "uint8[]", "address payable"])


def declared_bits(ty):
    if ty.startswith("address"):
        return 160
    if ty == "bool":
        return 1
    m = re.fullmatch(r"u?int([0-9]+)(\[\])?", ty)
    if m:
        return int(m.group(1))
    m = re.fullmatch(r"bytes([0-9]+)", ty)
    if m:
        return 8 * int(m.group(1))
    return None


def read_line(line):
    m = re.fullmatch(r"    ([^ \n]+) = 0x([0-9a-f]+)", line)
    return (m.group(1), int(m.group(2), 16)) if m else None


def read_cex(text):
    """-> list of (name, value) or None when the text is not a well-formed counterexample"""
    if text == EMPTY:
        return []
    if not text.startswith("\n"):
        return None
    out = []
    for line in text[1:].split("\n"):
        a = read_line(line)
        if a is None:
            return None
        out.append(a)
    return out


def gen_value(r, ty, w):
    d = declared_bits(ty)
    kinds = ["small", "random", "ones", "top-bit"]
    if d is not None and d < w:
        kinds += ["dirty", "dirty", "dirty", "just-above", "fits"]
    k = r.choice(kinds)
    if k == "small":
        v = r.choice([0, 1, 9, 10, 15, 16, 17, 255, 256, 4095, 4096])
    elif k == "random":
        v = r.randrange(1 << w)
    elif k == "ones":
        v = (1 << w) - 1
    elif k == "top-bit":
        v = (1 << (w - 1)) | r.randrange(1 << min(w - 1, 16)) if w > 1 else 1
    elif k == "dirty":
        v = (r.randrange(1, 1 << (w - d)) << d) | r.randrange(1 << d)
    elif k == "just-above":
        v = (1 << d) | r.randrange(1 << d)
    else:
        v = r.randrange(1 << d)
    v &= (1 << w) - 1
    return v, ("above-declared-width" if (d is not None and v >> d) else k)


def gen_models(tier, r):
    models = [[], [{"name": "p_x_uint8_a1b2c3d_00", "type": "uint8", "w": 256, "value": 0x1234, "kind": "above-declared-width"}],
              [{"name": "p_to_address_a1b2c3d_01", "type": "address", "w": 256, "value": (0xAB << 160) | 0xDEAD, "kind": "above-declared-width"},
               {"name": "p_n_int8_a1b2c3d_02", "type": "int8", "w": 256, "value": (1 << 256) - 3, "kind": "above-declared-width"},
               {"name": "p_b_bool_a1b2c3d_03", "type": "bool", "w": 256, "value": 2, "kind": "above-declared-width"},
               {"name": "p_s_bytes4_a1b2c3d_04", "type": "bytes4", "w": 256, "value": 0xDEADBEEF << 224 | 7, "kind": "above-declared-width"},
               {"name": "p_data_bytes_a1b2c3d_05", "type": "bytes", "w": 8 * 700, "value": (1 << (8 * 700)) - 0xFEED, "kind": "random"}]]
    # many variables (a test with many arguments / an invariant sequence): none may be dropped
    models.append([{"name": f"p_a{i}_uint256_a1b2c3d_{i:02d}", "type": "uint256", "w": 256, "value": r.randrange(1 << 256), "kind": "random"} for i in range(70)])
    n = 60 if tier == "quick" else 1200
    for _ in range(n):
        vs, seen = [], set()
        for i in range(r.choice([1, 1, 2, 3, 5, 12])):
            ty = r.choice(TYPES)
            d = declared_bits(ty)
            w = r.choice([256, 256, 256, 512, 264] + ([d] if d else [8 * r.randint(33, 300)]))
            var = r.choice(["x", "y", "to", "amount", "a.b", "x_1", "x=1", "len", "0x10", "p"])
            tyn = ty.replace(" ", "_")
            name = r.choice([f"p_{var}_{tyn}_{r.randrange(16 ** 7):07x}_{i:02d}", f"halmos_{var}_{tyn}_{i:02d}", f"p_{var}_{tyn}", f"halmos_{var}_{tyn}"])
            if name in seen:
                continue
            seen.add(name)
            v, kind = gen_value(r, ty, w)
            vs.append({"name": name, "type": ty, "w": w, "value": v, "kind": kind})
        models.append(vs)
    return models


def solver_text(vs, syntax):
    def val(v):
        if syntax == "b":
            return "#b" + format(v["value"], f"0{v['w']}b")
        if syntax == "d":
            return f"(_ bv{v['value']} {v['w']})"
        return ("#x" + format(v["value"], f"0{v['w'] // 4}x")) if v["w"] % 4 == 0 else "#b" + format(v["value"], f"0{v['w']}b")

    return "sat\n(\n" + "".join(f"  (define-fun {v['name']} () (_ BitVec {v['w']})\n    {val(v)})\n" for v in vs) + ")\n"


def run_model(vs, syntax):
    """the real code: solver text -> parse_model_str -> PotentialModel -> printed text"""
    from halmos.solve import PotentialModel, parse_model_str

    mv = parse_model_str(solver_text(vs, syntax))
    pm = PotentialModel(model=mv, is_valid=True)
    return {"str": str(pm), "fmt": f"Counterexample: {pm}", "parsed": {k: [x.size_bits, x.value, x.solidity_type] for k, x in mv.items()}}


def model_call(vs, parsed):
    a = [len(vs)]
    for v in vs:
        nb = list(v["name"].encode())
        tb = list(parsed.get(v["name"], [0, 0, v["type"]])[2].encode())
        a += [len(nb)] + nb + [len(tb)] + tb + [v["w"], v["value"]]
    return ("c04_render", a)


def model_decode(mo):
    """-> (text bytes, read-back list or None)"""
    if mo is None or -1 not in mo:
        return None
    i = mo.index(-1)
    text = bytes(mo[:i])
    rest = mo[i + 1:]
    if not rest or rest[0] == 0:
        return text, None
    out, j = [], 1
    while j < len(rest):
        n = rest[j]
        out.append((bytes(rest[j + 1:j + 1 + n]).decode(), rest[j + 1 + n]))
        j += 2 + n
    return text, out


def printed_blocks(stdout):
    """the counterexamples printed on halmos' stdout, attached to the test they are reported for:
    -> {signature: [{"valid": bool, "assignment": [(name, value)] or None}]}"""
    res, cur, block = {}, [], None

    def close():
        nonlocal block
        if block is not None:
            valid, lines = block
            cur.append({"valid": valid, "assignment": read_cex("".join("\n" + ln for ln in lines)) if lines != [EMPTY] else []})
            block = None

    for line in stdout.split("\n"):
        m = re.match(r"(?:WARNING\s+)?Counterexample( \(potentially invalid\))?: ?(.*)$", line)
        if m:
            close()
            block = (m.group(1) is None, [m.group(2)] if m.group(2) else [])
            continue
        if block is not None and line.startswith("    ") and " = " in line:
            block[1].append(line)
            continue
        close()
        m = re.match(r"\[(FAIL|PASS|ERROR|TIMEOUT)\] (\S+\(.*?\))", line)
        if m:
            res.setdefault(m.group(2), []).extend(cur)
            cur = []
    close()
    return res
