"""C04, L2 tie for Path.to_smt2: real halmos.sevm.Path objects driven through appends, branches,
slices and extensions (a path spans transactions: the path of the next transaction extends the
sliced path of the previous one), then serialised with and without --cache-solver.

Every condition i is over its own fresh variable a_i (alone, or linked to a "state" variable
s_j), so the query entails condition i iff it asserts it.  Specification: the query entails EVERY
condition the path assumed - a model of it is the counterexample, and it must satisfy the
require()s of the earlier transactions too.  Tie: the set of asserted conditions and the set of
assertions of the path's own solver vs the extracted model (Model/PathQueryModel.v), which is given
the index sets the real Path.slice computed.
"""
from types import SimpleNamespace as NS


def gen_path_cases(tier, r):
    cases = []
    n = 40 if tier == "quick" else 600
    # the life of a path in an invariant test: setUp conditions, slice, extend, transaction, slice, extend, ...
    for k in range(n):
        ops, ci = [], 0
        ntx = r.choice([0, 1, 1, 2, 3]) if k >= 4 else [1, 2, 1, 0][k]
        for tx in range(ntx + 1):
            for _ in range(r.randint(0 if tx else 1, 3)):
                shape = r.choice(["arg", "arg", "link", "link"])
                op = r.choice(["append", "append", "branch"])
                ops.append({"op": op, "i": ci, "shape": shape, "j": r.randrange(3), "k": r.randrange(1, 1000)})
                ci += 1
                if r.random() < 0.1:
                    ops.append(dict(ops[-1], op="append"))   # the same condition again: a no-op
            if tx < ntx:
                ops.append({"op": "slice", "vars": sorted(r.sample(range(3), r.randint(0, 3)))})
                ops.append({"op": "extend"})
        if r.random() < 0.2:
            ops.append({"op": "slice", "vars": sorted(r.sample(range(3), r.randint(0, 3)))})   # sliced, not extended
        cases.append({"ops": ops})
    return cases


def _entailed(z3, assertions, conds):
    s = z3.Solver()
    for a in assertions:
        s.add(a)
        if z3.is_implies(a) and z3.is_const(a.arg(0)):   # (=> |id| c): the tracking literal is asserted by dump()
            s.add(a.arg(0))
    out = []
    for i, c in sorted(conds.items()):
        s.push()
        s.add(z3.Not(c))
        if s.check() == z3.unsat:
            out.append(i)
        s.pop()
    return out


def run_path_case(case):
    """-> {query: {0: [...], 1: [...]}, solver: [...], keeps: [[...], ...], assumed: [...]}"""
    import z3
    from halmos.sevm import Path
    from halmos.utils import create_solver

    svars = [z3.BitVec(f"s_{j}", 256) for j in range(3)]
    conds = {}
    path = Path(create_solver())
    keeps = []
    for o in case["ops"]:
        if o["op"] in ("append", "branch"):
            a = z3.BitVec(f"a_{o['i']}", 256)
            c = (a == o["k"]) if o["shape"] == "arg" else (a == svars[o["j"]] + o["k"])
            conds[o["i"]] = c
            if o["op"] == "append":
                path.append(c)
            else:
                child = path.branch(c)
                child.activate()
                path = child
        elif o["op"] == "slice":
            path.slice([svars[j] for j in o["vars"]])
            keeps.append(sorted(path.sliced))
        elif o["op"] == "extend":
            new = Path(create_solver())
            new.extend_path(path)
            path = new
    res = {"query": {}, "keeps": keeps, "assumed": sorted(conds)}
    for cache in (0, 1):
        q = path.to_smt2(NS(cache_solver=bool(cache)))
        res["query"][cache] = _entailed(z3, list(z3.parse_smt2_string(q.smtlib)), conds)
        res.setdefault("ids", {})[cache] = len(q.assertions)
    res["solver"] = _entailed(z3, list(path.solver.assertions()), conds)
    return res


def model_call(case, obs, cache):
    a = [cache]
    ks = iter(obs["keeps"])
    for o in case["ops"]:
        if o["op"] in ("append", "branch"):
            a += [0, o["i"]]
        elif o["op"] == "slice":
            k = next(ks)
            a += [1, len(k)] + list(k)
        else:
            a += [2]
    return ("c04_pathq", a)


def model_decode(mo):
    if mo is None or -1 not in mo:
        return None
    i = mo.index(-1)
    return {"query": sorted(mo[:i]), "solver": sorted(mo[i + 1:])}
