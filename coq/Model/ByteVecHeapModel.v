(* Second layer of the ByteVec model: an object store, so that sharing of ByteVec
   objects is expressible.  No proofs in this file.

   heap := list bvec, an object's identity is its index.  A ByteVec object that was
   stored *as a chunk* of another one (aligned fast path of set_slice, or a dict entry
   copied from a value that had one) appears in the holder's dict as [Nest (Some i) _ _]:
   a reference to object i; the [cs]/[len] carried next to the tag are a stale
   snapshot that is never read: every operation first [refresh]es the receiver and the
   value from the store (that is the moment Python would read the referenced object)
   and then runs the pure operation of ByteVecModel.  [Nest None ..] are ByteVec objects
   created by the operations themselves (chunk[a:b] of a nested ByteVec) that nothing
   but the holding dict refers to.

   Which objects an operation touches: a mutator writes its receiver only, copy() and
   slice() allocate a new object and write nothing else (ByteVec methods never mutate a
   value argument or a nested chunk) -- this footprint is what the correspondence run
   checks on the real code after every step, for every live object.               *)
From Coq Require Import List Arith Bool.
From HV Require Import Model.ByteVecModel.
Import ListNotations.

Section Heap.
Variable B : Type.
Variable zero : B.

Notation chunk := (chunk B).
Notation bvec := (bvec B).

Definition heap : Type := list bvec.

Fixpoint h_write (h : heap) (i : nat) (o : bvec) : heap :=
  match h, i with
  | [], _ => []
  | _ :: r, 0 => o :: r
  | x :: r, S j => x :: h_write r j o
  end.

Definition omap_snd (f : chunk -> option chunk) : list (nat * chunk) -> option (list (nat * chunk)) :=
  fix go (l : list (nat * chunk)) : option (list (nat * chunk)) :=
    match l with
    | [] => Some []
    | (k, c) :: r =>
        match f c, go r with
        | Some c2, Some r2 => Some ((k, c2) :: r2)
        | _, _ => None
        end
    end.

(* replace every reference by the current content of the referenced object.
   [fuel] bounds the depth of reference chains (a cyclic store -- v.set_slice(0, n, v) on
   a one-chunk v -- makes Python recurse forever; here: None) *)
Fixpoint refresh (fuel : nat) (h : heap) (c : chunk) {struct fuel} : option chunk :=
  match fuel with
  | 0 => None
  | S f =>
      (fix rc (c : chunk) : option chunk :=
         match c with
         | Leaf _ _ _ _ => Some c
         | Nest None cs len =>
             match omap_snd rc cs with
             | Some cs' => Some (Nest None cs' len)
             | None => None
             end
         | Nest (Some i) _ _ =>
             match nth_error h i with
             | None => None
             | Some w =>
                 match refresh f h (Nest None (chunks w) (blen w)) with
                 | Some (Nest _ cs' len') => Some (Nest (Some i) cs' len')
                 | _ => None
                 end
             end
         end) c
  end.

Definition oref (i : nat) : chunk := Nest (Some i) [] 0.

Definition h_load (fuel : nat) (h : heap) (r : nat) : option bvec :=
  match refresh fuel h (oref r) with
  | Some (Nest _ cs len) => Some (BV cs len)
  | _ => None
  end.

(* the bytes object r denotes now *)
Definition h_flat (fuel : nat) (h : heap) (r : nat) : option (list B) :=
  match refresh fuel h (oref r) with
  | Some c => Some (cflat c)
  | None => None
  end.

(* values handed to a mutator *)
Inductive hval : Type :=
| HVLeaf (c : chunk)            (* bytes / BitVecRef / Chunk *)
| HVSlice (r a b : nat)         (* objects[r].slice(a, b): a fresh ByteVec *)
| HVWhole (r : nat).            (* the ByteVec object r itself *)

Inductive hop : Type :=
| HAppend (v : hval)
| HSetByte (off : nat) (sym : bool) (x : B)
| HSetSlice (a b : nat) (v : hval)
| HSetWord (off : nat) (v : hval).

Inductive hstep : Type :=
| HNew                          (* ByteVec() *)
| HCopy (r : nat)               (* objects[r].copy() *)
| HSliceOf (r a b : nat)        (* objects[r].slice(a, b) kept as a new object *)
| HMut (r : nat) (o : hop).     (* objects[r].<mutator>(...) *)

Definition h_val (fuel : nat) (h : heap) (v : hval) : option chunk :=
  match v with
  | HVLeaf c => refresh fuel h c
  | HVSlice r a b =>
      match h_load fuel h r with
      | Some t => Some (as_chunk None (bslice B zero t a b))
      | None => None
      end
  | HVWhole r => refresh fuel h (oref r)
  end.

(* result of the pure operation: (new receiver, raised?) *)
Definition pure_op (t : bvec) (o : hop) (val : chunk) : bvec * bool :=
  let lift (r : option bvec) := match r with Some t' => (t', false) | None => (t, true) end in
  match o with
  | HAppend _ => (append t val, false)
  | HSetByte off sym x => lift (set_byte B zero t off sym x)
  | HSetSlice a b _ => lift (set_slice B zero t a b val)
  | HSetWord off _ => lift (set_word B zero t off val)
  end.

Definition hop_val (o : hop) : hval :=
  match o with
  | HAppend v => v
  | HSetByte _ _ _ => HVLeaf (Leaf false [] 0 0)
  | HSetSlice _ _ v => v
  | HSetWord _ v => v
  end.

(* None = the store is dangling / cyclic (excluded in the theorems); the bool tells
   whether the Python call raised (the store is then unchanged up to refreshing) *)
Definition h_step (fuel : nat) (h : heap) (s : hstep) : option (heap * bool) :=
  match s with
  | HNew => Some (h ++ [empty], false)
  | HCopy r =>
      match nth_error h r with
      | Some o => Some (h ++ [o], false)        (* SortedDict.copy(): same chunk objects *)
      | None => None
      end
  | HSliceOf r a b =>
      match h_load fuel h r with
      | Some t => Some (h ++ [bslice B zero t a b], false)
      | None => None
      end
  | HMut r o =>
      match h_load fuel h r, h_val fuel h (hop_val o) with
      | Some t, Some val =>
          let '(t', raised) := pure_op t o val in Some (h_write h r t', raised)
      | _, _ => None
      end
  end.

Fixpoint h_run (fuel : nat) (h : heap) (ss : list hstep) : option heap :=
  match ss with
  | [] => Some h
  | s :: r =>
      match h_step fuel h s with
      | Some (h', _) => h_run fuel h' r
      | None => None
      end
  end.

Definition receiver (s : hstep) : option nat :=
  match s with HMut r _ => Some r | _ => None end.

(* object j is referenced, directly or through other objects, from chunk c *)
Inductive creach (h : heap) : chunk -> nat -> Prop :=
| cr_tag : forall i cs len, creach h (Nest (Some i) cs len) i
| cr_obj : forall i cs len w j,
    nth_error h i = Some w -> creach h (Nest None (chunks w) (blen w)) j ->
    creach h (Nest (Some i) cs len) j
| cr_sub : forall cs len k c j,
    In (k, c) cs -> creach h c j -> creach h (Nest None cs len) j.

End Heap.

Arguments HVLeaf {B}.
Arguments HVSlice {B}.
Arguments HVWhole {B}.
Arguments HAppend {B}.
Arguments HSetByte {B}.
Arguments HSetSlice {B}.
Arguments HSetWord {B}.
Arguments HNew {B}.
Arguments HCopy {B}.
Arguments HSliceOf {B}.
Arguments HMut {B}.
Arguments oref {B}.
Arguments h_write {B}.
Arguments receiver {B}.
