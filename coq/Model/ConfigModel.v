(* Executable model of halmos' configuration resolution (config.py, __main__.py) and of the
   structured-option codecs (config.py Parse*, utils.parse_time).  Follows the Python branch by
   branch; decisions and literals come from Gen/GenConfig*.v (regenerated from /repo on every
   run).  No proofs in this file (Proofs/ConfigProofs.v).

   Strings are [list Z] (code points).  Floats are binary64 values with round-to-nearest-even
   arithmetic (Model/ConfigFloatModel.v); float(str) and repr(float) are modelled below.      *)
From Coq Require Import ZArith List Bool QArith Lia.
From HV Require Import Gen.GenConfig Gen.GenConfigTime Gen.GenConfigMain Gen.GenConfigNatspec Spec.ConfigSpec Model.ConfigFloatModel.
Import ListNotations.
Open Scope Z_scope.

(* ====================================================================== precedence ===== *)

(* Config.value_with_source(name): head of the stack = self, tail = the _parent chain.
     best_value, best_source = None, ConfigSource.void
     while current is not None:
         value = object.__getattribute__(current, name)
         if value is not None and (current_source := current._source) > best_source: (generated)
             best_value, best_source = value, current_source
         current = current._parent                                                          *)
Definition is_some {A} (o : option A) : bool := match o with Some _ => true | None => false end.

Fixpoint vws_loop (o : Z) (st : stack) (best : option Z * Z) : option Z * Z :=
  match st with
  | [] => best
  | (src, vals) :: parent =>
      let value := assoc o vals in
      let best' := if vws_takes (is_some value) src (snd best) then (value, src) else best in
      vws_loop o parent best'
  end.

Definition value_with_source (o : Z) (st : stack) : option Z * Z :=
  vws_loop o st (None, vws_init_source).

(* Config.__getattribute__(name) for a config field *)
Definition getattr (o : Z) (st : stack) : option Z := fst (value_with_source o st).

(* Config.with_overrides(source, **overrides) *)
Definition with_overrides (src : Z) (ov : list (Z * Z)) (st : stack) : stack := (src, ov) :: st.

(* the (value, source) pair in the shape of the specification *)
Definition vws_result (o : Z) (st : stack) : option (Z * Z) :=
  match value_with_source o st with
  | (Some v, s) => Some (v, s)
  | (None, _) => None
  end.

(* ---- resolved_solver_command.  Option ids of the two fields involved; the value of
   solver_command is encoded as 0 for the empty string (falsy), non-zero otherwise. *)
Definition OPT_solver : Z := 100.
Definition OPT_solver_command : Z := 101.

Inductive solver_choice := UseCommand (cmd : Z) | UseSolver (solver : option Z).

Definition cmd_truthy (c : option Z) : bool :=
  match c with Some c => negb (c =? 0) | None => false end.

Definition resolved_solver_command (st : stack) : solver_choice :=
  let '(solver, solver_source) := value_with_source OPT_solver st in
  let '(cmd, cmd_source) := value_with_source OPT_solver_command st in
  if use_solver_command (cmd_truthy cmd) cmd_source solver_source
  then UseCommand (match cmd with Some c => c | None => 0 end)
  else UseSolver solver.

(* ====================================================================== layering ======= *)

(* an annotation that is absent / has no @custom:halmos text is None *)
Definition annot := option (list (Z * Z)).

(* __main__.with_devdoc / with_natspec *)
Definition with_devdoc (args : stack) (dd : annot) : stack :=
  match dd with None => args | Some ov => with_overrides devdoc_source ov args end.

Definition with_natspec (args : stack) (ns : annot) : stack :=
  match ns with None => args | Some ov => with_overrides natspec_source ov args end.

(* __main__.load_config: default config, then the config file (if any), then the CLI layer
   (always pushed, possibly setting nothing) *)
Definition load_config (deflt : list (Z * Z)) (file : annot) (cli : list (Z * Z)) : stack :=
  let config := [(SRC_default, deflt)] in
  let config := match file with Some ov => with_overrides load_file_source ov config | None => config end in
  with_overrides load_cli_source cli config.

(* run_tests: for funsig in funsigs: test_config = with_devdoc(args, funsig, ...) ...
   [run_tests_rebinds_args] (generated) says whether the loop re-binds [args] *)
Definition fn_decl := (Z * annot)%type.                     (* function id, its devdoc annotation *)
Definition contract_decl := (Z * annot * list fn_decl)%type. (* contract id, natspec, functions *)

Fixpoint run_tests (args : stack) (fs : list fn_decl) : list (Z * stack) :=
  match fs with
  | [] => []
  | (f, dd) :: r =>
      let test_config := with_devdoc args dd in
      (f, test_config) :: run_tests (if run_tests_rebinds_args then test_config else args) r
  end.

(* _main: for ... contract_name in build_output_iterator(build_out):
              contract_args = with_natspec(args, contract_name, natspec)
              run_contract(ContractContext(args=contract_args, ...)) -> run_tests(ctx, ...) *)
Fixpoint main_loop (args : stack) (cs : list contract_decl) : list (Z * list (Z * stack)) :=
  match cs with
  | [] => []
  | (c, ns, fs) :: r =>
      let contract_args := with_natspec args ns in
      (c, run_tests contract_args fs) :: main_loop (if main_rebinds_args then contract_args else args) r
  end.

(* ====================================================================== strings ======== *)

Fixpoint list_eqb (a b : list Z) : bool :=
  match a, b with
  | [], [] => true
  | x :: a', y :: b' => (x =? y) && list_eqb a' b'
  | _, _ => false
  end.

(* str.isspace() restricted to code points <= 255 *)
Definition is_ws (c : Z) : bool :=
  ((9 <=? c) && (c <=? 13)) || ((28 <=? c) && (c <=? 32)) || (c =? 133) || (c =? 160).

Fixpoint lstrip (s : list Z) : list Z :=
  match s with
  | c :: r => if is_ws c then lstrip r else s
  | [] => []
  end.

Definition strip (s : list Z) : list Z := rev (lstrip (rev (lstrip s))).

(* the white space int() / float() skip around an (ASCII) literal: narrower than str.strip()
   (no 0x1c..0x1f) *)
Definition is_ws_num (c : Z) : bool :=
  ((9 <=? c) && (c <=? 13)) || (c =? 32) || (c =? 133) || (c =? 160).

Fixpoint lstrip_num (s : list Z) : list Z :=
  match s with
  | c :: r => if is_ws_num c then lstrip_num r else s
  | [] => []
  end.

Definition strip_num (s : list Z) : list Z := rev (lstrip_num (rev (lstrip_num s))).

(* str.split(sep) for a one-character separator *)
Fixpoint split (sep : Z) (s : list Z) : list (list Z) :=
  match s with
  | [] => [[]]
  | c :: r =>
      if c =? sep then [] :: split sep r
      else match split sep r with
           | h :: t => (c :: h) :: t
           | [] => [[c]]
           end
  end.

Definition sep_char (sep : list Z) : Z := match sep with [c] => c | _ => -1 end.

(* sep.join(items) *)
Fixpoint join (sep : list Z) (items : list (list Z)) : list Z :=
  match items with
  | [] => []
  | [x] => x
  | x :: r => x ++ sep ++ join sep r
  end.

Definition nonempty (s : list Z) : bool := match s with [] => false | _ => true end.

(* config.parse_csv: (x for _x in values.split(sep) if (x := _x.strip())) *)
Definition parse_csv (sep : list Z) (values : list Z) : list (list Z) :=
  filter nonempty (map strip (split (sep_char sep) values)).

Fixpoint map_opt {A B} (f : A -> option B) (l : list A) : option (list B) :=
  match l with
  | [] => Some []
  | x :: r => match f x, map_opt f r with
              | Some y, Some ys => Some (y :: ys)
              | _, _ => None
              end
  end.

(* config.ensure_non_empty *)
Definition ensure_non_empty {A} (l : list A) : option (list A) :=
  match l with [] => None | _ => Some l end.

(* ---- integer literals ---- *)

Definition digit_val (c : Z) : option Z :=
  if (48 <=? c) && (c <=? 57) then Some (c - 48)
  else if (97 <=? c) && (c <=? 122) then Some (c - 87)
  else if (65 <=? c) && (c <=? 90) then Some (c - 55)
  else None.

(* digit (["_"] digit)* in base [base]; [prev] = the previous character was a digit *)
Fixpoint pdu (base : Z) (s : list Z) (acc : Z) (prev : bool) : option Z :=
  match s with
  | [] => if prev then Some acc else None
  | c :: r =>
      if c =? 95 then (if prev then pdu base r acc false else None)
      else match digit_val c with
           | Some d => if d <? base then pdu base r (acc * base + d) true else None
           | None => None
           end
  end.

Definition with_sign (f : list Z -> option Z) (s : list Z) : option Z :=
  match s with
  | c :: r => if c =? 43 then f r else if c =? 45 then option_map Z.opp (f r) else f s
  | [] => f s
  end.

(* int(x) (base 10) *)
Definition py_int10 (s : list Z) : option Z := with_sign (fun r => pdu 10 r 0 false) (strip_num s).

Definition prefixed (base : Z) (r : list Z) : option Z :=
  match r with
  | c :: r' => if c =? 95 then pdu base r' 0 false else pdu base r 0 false
  | [] => pdu base r 0 false
  end.

Definition dec0 (s : list Z) : option Z :=
  match pdu 10 s 0 false with
  | Some v => match s with
              | c :: _ => if c =? 48 then (if v =? 0 then Some 0 else None)   (* no leading zeros in base 0 *)
                          else Some v
              | [] => Some v
              end
  | None => None
  end.

Definition py_int0_unsigned (s : list Z) : option Z :=
  match s with
  | z :: x :: r =>
      if negb (z =? 48) then dec0 s
      else if (x =? 120) || (x =? 88) then prefixed 16 r
      else if (x =? 111) || (x =? 79) then prefixed 8 r
      else if (x =? 98) || (x =? 66) then prefixed 2 r
      else dec0 s
  | _ => dec0 s
  end.

(* int(x, 0) *)
Definition py_int0 (s : list Z) : option Z := with_sign py_int0_unsigned (strip_num s).

Definition py_int (base : Z) (s : list Z) : option Z :=
  if base =? 0 then py_int0 s else if base =? 10 then py_int10 s else None.

(* ---- rendering integers ---- *)

Fixpoint to_digits_fuel (b : Z) (fuel : nat) (n : Z) (acc : list Z) : list Z :=
  match fuel with
  | O => acc
  | S f => if n <? b then n :: acc else to_digits_fuel b f (n / b) (n mod b :: acc)
  end.

Definition to_digits (b n : Z) : list Z := to_digits_fuel b (S (Z.to_nat (Z.log2 n))) n [].

Definition digit_char (upper : bool) (d : Z) : Z :=
  if d <? 10 then 48 + d else (if upper then 55 else 87) + d.

Definition str_of_nonneg (n : Z) : list Z := map (digit_char false) (to_digits 10 n).

(* str(n) *)
Definition str_of_Z (n : Z) : list Z :=
  if n <? 0 then 45 :: str_of_nonneg (- n) else str_of_nonneg n.

Definition zero_pad (width : Z) (ds : list Z) : list Z :=
  repeat 48 (Z.to_nat width - length ds) ++ ds.

(* f"{v:0<width>x}" *)
Definition fmt_hex (width : Z) (upper : bool) (v : Z) : list Z :=
  if v <? 0 then 45 :: zero_pad (width - 1) (map (digit_char upper) (to_digits 16 (- v)))
  else zero_pad width (map (digit_char upper) (to_digits 16 v)).

(* ====================================================================== annotation text == *)

(* build.parse_natspec(natspec):
     isHalmosTag = False; result = ""
     for item in re.split(r"(@\S+)", natspec.get("text", "")):
         if item == "@custom:halmos": isHalmosTag = True
         elif re.match(r"^@\S", item): isHalmosTag = False
         elif isHalmosTag: result += item
     return result.strip()
   (shape and literals generated; the two regexes are pinned in Props/C18.v to the ones this
   hand-written splitter reads: a tag is '@' followed by a maximal run of non-white-space) *)
Definition next_nonws (r : list Z) : bool :=
  match r with d :: _ => negb (is_ws d) | [] => false end.

(* re.split(r"(@\S+)", s): text and tag items alternate, a text item (possibly empty) first and
   last; [cur] is the item being read, reversed *)
Fixpoint split_tags (s cur : list Z) (in_tag : bool) : list (list Z) :=
  match s with
  | [] => if in_tag then [rev cur; []] else [rev cur]
  | c :: r =>
      if in_tag then
        if is_ws c then rev cur :: split_tags r [c] false else split_tags r (c :: cur) true
      else
        if (c =? 64) && next_nonws r then rev cur :: split_tags r [c] true
        else split_tags r (c :: cur) false
  end.

(* re.match(r"^@\S", item) *)
Definition is_tag_item (it : list Z) : bool :=
  match it with c :: d :: _ => (c =? 64) && negb (is_ws d) | _ => false end.

Fixpoint natspec_fold (items : list (list Z)) (flag : bool) (acc : list Z) : list Z :=
  match items with
  | [] => acc
  | it :: r =>
      if list_eqb it natspec_halmos_tag then natspec_fold r true acc
      else if is_tag_item it then natspec_fold r false acc
      else natspec_fold r flag (if flag then acc ++ it else acc)
  end.

Definition parse_natspec (text : list Z) : list Z :=
  strip (natspec_fold (split_tags text [] false) false []).

(* ====================================================================== codecs ========= *)

(* ---- ParseCSVInt ---- *)
Definition csvint_parse (s : list Z) : option (list Z) :=
  match map_opt py_int10 (parse_csv csv_sep s) with
  | Some l => ensure_non_empty l
  | None => None
  end.

Definition csvint_unparse (l : list Z) : list Z := join csvint_join (map str_of_Z l).

(* ---- ParseErrorCodes (a set is modelled by the list of its elements in iteration order;
        parse keeps the order of occurrence and duplicates, compared as sets by the tie) ---- *)
Definition errcodes_parse (s : list Z) : option (list Z) :=
  let s := strip s in
  if list_eqb s errcodes_any then Some []
  else match map_opt (py_int errcodes_int_base) (parse_csv csv_sep s) with
       | Some l => ensure_non_empty l
       | None => None
       end.

(* f"-0x{-v:02x}" if v < 0 else f"0x{v:02x}" (bound, prefixes and format specs generated) *)
Definition errcodes_item (v : Z) : list Z :=
  if v <? errcodes_neg_bound
  then errcodes_neg_prefix ++ fmt_hex errcodes_neg_width errcodes_neg_upper (- v)
  else errcodes_fmt_prefix ++ fmt_hex errcodes_fmt_width errcodes_fmt_upper v.

Definition errcodes_unparse (l : list Z) : list Z :=
  match l with
  | [] => errcodes_unparse_any
  | _ => join errcodes_join (map errcodes_item l)
  end.

(* ---- ParseCSVTraceEvent (an event is its index in the TraceEvent enum) ---- *)
Fixpoint index_of (names : list (list Z)) (x : list Z) (i : Z) : option Z :=
  match names with
  | [] => None
  | n :: r => if list_eqb n x then Some i else index_of r x (i + 1)
  end.

Definition trace_parse (s : list Z) : option (list Z) :=
  map_opt (fun x => index_of trace_event_names x 0) (parse_csv csv_sep s).

Definition trace_unparse (l : list Z) : list Z :=
  join trace_join (map (fun i => nth (Z.to_nat i) trace_event_names []) l).

(* ---- float(x): [ws] [sign] ( inf | infinity | nan | decimal ) [ws], case-insensitive words,
        decimal = ( digitpart ["." [digitpart]] | "." digitpart ) [ (e|E) [sign] digitpart ],
        digitpart = digit (["_"] digit)*  (ASCII digits).  The value is the exact decimal value
        rounded once to the nearest float (CPython's strtod is correctly rounded). ---- *)
Fixpoint span_not (c0 : Z) (s : list Z) : list Z * list Z :=
  match s with
  | [] => ([], [])
  | c :: r => if c =? c0 then ([], s) else let '(a, b) := span_not c0 r in (c :: a, b)
  end.

Fixpoint span (p : Z -> bool) (s : list Z) : list Z * list Z :=
  match s with
  | [] => ([], [])
  | c :: r => if p c then let '(a, b) := span p r in (c :: a, b) else ([], s)
  end.

Definition count_digits (s : list Z) : nat := length (filter (fun c => negb (c =? 95)) s).

Definition lower (c : Z) : Z := if (65 <=? c) && (c <=? 90) then c + 32 else c.

Definition not_exp_char (c : Z) : bool := negb ((c =? 101) || (c =? 69)).

(* mantissa digits: (D, E) stands for D * 10^E *)
Definition py_mantissa (mant : list Z) : option (Z * Z) :=
  let '(ip, rest) := span_not 46 mant in
  match rest with
  | [] => option_map (fun i => (i, 0)) (pdu 10 ip 0 false)
  | _ :: fp =>
      match ip, fp with
      | [], [] => None
      | _, _ =>
          match (match ip with [] => Some 0 | _ => pdu 10 ip 0 false end),
                (match fp with [] => Some 0 | _ => pdu 10 fp 0 false end) with
          | Some i, Some f => let nf := Z.of_nat (count_digits fp) in Some (i * 10 ^ nf + f, - nf)
          | _, _ => None
          end
      end
  end.

Definition py_decimal (s : list Z) : option (Z * Z) :=
  let '(mant, rest) := span not_exp_char s in
  let exp := match rest with
             | [] => Some 0
             | _ :: x => with_sign (fun r => pdu 10 r 0 false) x
             end in
  match py_mantissa mant, exp with
  | Some (D, E0), Some e => Some (D, E0 + e)
  | _, _ => None
  end.

(* the float nearest to D * 10^E *)
Definition f_of_decimal (neg : bool) (D E : Z) : f64 :=
  if 0 <=? E then f_of_ratio neg (D * 10 ^ E) 1 else f_of_ratio neg D (10 ^ (- E)).

Definition str_inf : list Z := [105; 110; 102].
Definition str_infinity : list Z := [105; 110; 102; 105; 110; 105; 116; 121].
Definition str_nan : list Z := [110; 97; 110].

Definition py_float_unsigned (neg : bool) (s : list Z) : option f64 :=
  let l := map lower s in
  if list_eqb l str_inf || list_eqb l str_infinity then Some (FInf neg)
  else if list_eqb l str_nan then Some FNan
  else option_map (fun de => f_of_decimal neg (fst de) (snd de)) (py_decimal s).

Definition py_float (s : list Z) : option f64 :=
  match strip_num s with
  | c :: r => if c =? 43 then py_float_unsigned false r
              else if c =? 45 then py_float_unsigned true r
              else py_float_unsigned false (c :: r)
  | [] => None
  end.

(* ---- repr(x) of a float: the shortest decimal string that float() reads back as x; among the
        shortest, the one closest to x (CPython: float_repr_style 'short', dtoa mode 0), laid out
        by format_float_short('r'): fixed notation when -4 < decpt <= 16, else d[.ddd]e(+|-)XX.
        [repr_search] tries 1, 2, ..., 17 significant digits; every candidate is accepted only if
        float() of the finished string is the float itself.  17 digits always suffice for a
        binary64 value; the exact expansion k * 5^1074 e-1074 stands behind them so that the
        function is total without that fact. ---- *)
Definition sign_str (neg : bool) : list Z := if neg then [45] else [].

(* 10^e <= k / 2^1074 *)
Definition pow10_le (k e : Z) : bool :=
  if 0 <=? e then 10 ^ e * F_UNIT <=? k else F_UNIT <=? k * 10 ^ (- e).

Fixpoint adjust_e10 (fuel : nat) (k e : Z) : Z :=
  match fuel with
  | O => e
  | S f => if pow10_le k (e + 1) then adjust_e10 f k (e + 1) else e
  end.

Definition floor_log10 (k : Z) : Z :=
  adjust_e10 8 k ((Z.log2 k - 1074) * 30103 / 100000 - 2).

(* the decimals D * 10^E next to k / 2^1074, the closer one first (ties: the even one);
   lo = floor (k / (10^E * 2^1074)), computed with shifts *)
Definition repr_candidates (k E : Z) : list Z :=
  let '(lo, rem, den) :=
    if 0 <=? E
    then let p := 10 ^ E in
         let lo := Z.shiftr k 1074 / p in
         (lo, k - Z.shiftl (lo * p) 1074, Z.shiftl p 1074)
    else let num := k * 10 ^ (- E) in
         let lo := Z.shiftr num 1074 in
         (lo, num - Z.shiftl lo 1074, F_UNIT) in
  if rem =? 0 then [lo]
  else if (2 * rem <? den) || ((2 * rem =? den) && Z.even lo) then [lo; lo + 1] else [lo + 1; lo].

(* on the reversed digit string: drop trailing zeros (at least one character is kept) *)
Fixpoint drop_zeros (rl : list Z) (E : Z) : list Z * Z :=
  match rl with
  | [] => ([], E)
  | c :: r => match r with
              | [] => (rl, E)
              | _ => if c =? 48 then drop_zeros r (E + 1) else (rl, E)
              end
  end.

Definition pad2 (s : list Z) : list Z := match s with [c] => [48; c] | _ => s end.

Definition repr_fmt (neg : bool) (D E : Z) : list Z :=
  let '(rds, E') := drop_zeros (rev (str_of_nonneg D)) E in
  let ds := rev rds in
  let n := Z.of_nat (length ds) in
  let decpt := n + E' in
  sign_str neg ++
  (if (-4 <? decpt) && (decpt <=? 16) then
     if decpt <=? 0 then [48; 46] ++ repeat 48 (Z.to_nat (- decpt)) ++ ds
     else if n <=? decpt then ds ++ repeat 48 (Z.to_nat (decpt - n)) ++ [46; 48]
     else firstn (Z.to_nat decpt) ds ++ [46] ++ skipn (Z.to_nat decpt) ds
   else
     let e := decpt - 1 in
     match ds with
     | [] => [48]
     | d0 :: tl =>
         [d0] ++ (match tl with [] => [] | _ => 46 :: tl end) ++ [101]
              ++ [if e <? 0 then 45 else 43] ++ pad2 (str_of_nonneg (Z.abs e))
     end).

Definition repr_try (neg : bool) (k D E : Z) : option (list Z) :=
  let s := repr_fmt neg D E in
  match py_float s with
  | Some w => if f_same w (FFin neg k) then Some s else None
  | None => None
  end.

Fixpoint repr_first (neg : bool) (k E : Z) (cands : list Z) : option (list Z) :=
  match cands with
  | [] => None
  | D :: r => match repr_try neg k D E with Some s => Some s | None => repr_first neg k E r end
  end.

Fixpoint repr_search (fuel : nat) (p : Z) (neg : bool) (k e10 : Z) : option (list Z) :=
  match fuel with
  | O => None
  | S f =>
      let E := e10 - p + 1 in
      match repr_first neg k E (repr_candidates k E) with
      | Some s => Some s
      | None => repr_search f (p + 1) neg k e10
      end
  end.

Definition repr_exact (neg : bool) (k : Z) : list Z :=
  sign_str neg ++ str_of_nonneg (k * 5 ^ 1074) ++ [101; 45; 49; 48; 55; 52].

Definition float_repr (v : f64) : list Z :=
  match v with
  | FNan => str_nan
  | FInf neg => sign_str neg ++ str_inf
  | FFin neg k =>
      if k =? 0 then sign_str neg ++ [48; 46; 48]
      else match repr_search 17 1 neg k (floor_log10 k) with
           | Some s => s
           | None => repr_exact neg k
           end
  end.

(* ---- utils.parse_time ---- *)
Definition endswith (s suf : list Z) : bool :=
  (length suf <=? length s)%nat && list_eqb (skipn (length s - length suf) s) suf.

(* float(arg[:-k]) [* mul | / div]  (one rounding per operation; None = ZeroDivisionError) *)
Definition time_scale (x : f64) (mul div : Z) : option f64 :=
  let y := if mul =? 1 then x else f_mul x (f_of_Z mul) in
  if div =? 1 then Some y else f_div y (f_of_Z div).

(* the if/elif chain over the generated unit table: Some r when a suffix matched *)
Fixpoint parse_time_units (units : list (list Z * Z * Z * Z)) (arg : list Z) : option (option f64) :=
  match units with
  | [] => None
  | (suf, k, mul, div) :: r =>
      if endswith arg suf
      then Some (match py_float (firstn (length arg - Z.to_nat k) arg) with
                 | Some x => time_scale x mul div
                 | None => None
                 end)
      else parse_time_units r arg
  end.

Fixpoint mem_str (x : list Z) (l : list (list Z)) : bool :=
  match l with [] => false | y :: r => list_eqb x y || mem_str x r end.

Definition f_zero : f64 := FFin false 0.

(* parse_time(arg: str, default_unit) ; default_unit = None is the recursive call *)
Definition parse_time (arg : list Z) (default_unit : option (list Z)) : option f64 :=
  match default_unit with
  | Some u => if nonempty u && negb (mem_str u time_allowed_default_units) then None
              else
                match parse_time_units time_units arg with
                | Some r => r
                | None =>
                    if list_eqb arg time_zero_literal then Some f_zero
                    else if nonempty u then
                      match parse_time_units time_units (arg ++ u) with
                      | Some r => r
                      | None => if list_eqb (arg ++ u) time_zero_literal then Some f_zero else None
                      end
                    else None
                end
  | None =>
      match parse_time_units time_units arg with
      | Some r => r
      | None => if list_eqb arg time_zero_literal then Some f_zero else None
      end
  end.

(* ---- ParseTimeout ---- *)
(* what a float denotes (Spec.ConfigSpec.tval) *)
Definition f_denote (v : f64) : tval :=
  match v with
  | FNan => TNan
  | FInf neg => TInf neg
  | FFin neg k => TFin (f_signed neg k # Z.to_pos F_UNIT)
  end.

Definition timeout_parse (s : list Z) : option f64 := parse_time s (Some timeout_default_unit).

(* parse_time(arg: int | float, default_unit) = parse_time(str(arg) + default_unit, default_unit=None)
   when a default unit is given ([text] = str(arg): str_of_Z of an int, float_repr of a float);
   a number in halmos.toml reaches ParseTimeout.parse this way *)
Definition parse_time_num (text : list Z) (default_unit : option (list Z)) : option f64 :=
  match default_unit with
  | Some u => if nonempty u && negb (mem_str u time_allowed_default_units) then None
              else if nonempty u then parse_time (text ++ u) None else None
  | None => None
  end.

Definition timeout_parse_int (i : Z) : option f64 :=
  parse_time_num (str_of_Z i) (Some timeout_default_unit).

Definition timeout_parse_float (x : f64) : option f64 :=
  parse_time_num (float_repr x) (Some timeout_default_unit).

(* ParseTimeout.unparse(value); None = raises
     if value == value and abs(value) != float("inf"):
         if value >= 1 and value == int(value): return f"{int(value)}s"
         ms = value * 1000
         if abs(ms) != float("inf") and ms == int(ms) and ms / 1000 == value: return f"{int(ms)}ms"
     return f"{value!r}s"
   (literals generated; `and` short-circuits, so int(...) / float(...) / the division are only
   evaluated where Python evaluates them) *)
Definition timeout_unparse (v : f64) : option (list Z) :=
  let exact := Some (float_repr v ++ timeout_unparse_exact_suffix) in
  let finite_guard :=
    if f_eqb v v then
      match py_float timeout_unparse_inf_literal with
      | Some infv => Some (negb (f_eqb (f_abs v) infv))
      | None => None
      end
    else Some false in
  match finite_guard with
  | None => None
  | Some false => exact
  | Some true =>
      match (if f_geb_Z v timeout_unparse_threshold
             then option_map (f_eqb_Z v) (f_trunc v) else Some false) with
      | None => None
      | Some true => option_map (fun i => str_of_Z i ++ timeout_unparse_large_suffix) (f_trunc v)
      | Some false =>
          let ms := f_mul v (f_of_Z timeout_unparse_small_factor) in
          match py_float timeout_unparse_ms_inf_literal with
          | None => None
          | Some infms =>
              if negb (f_eqb (f_abs ms) infms) then
                match f_trunc ms with
                | None => None
                | Some i =>
                    match (if f_eqb_Z ms i
                           then option_map (fun q => f_eqb q v)
                                           (f_div ms (f_of_Z timeout_unparse_small_divisor))
                           else Some false) with
                    | None => None
                    | Some true => Some (str_of_Z i ++ timeout_unparse_small_suffix)
                    | Some false => exact
                    end
                end
              else exact
          end
      end
  end.

(* ---- ParseArrayLengths ----
   values = "".join(values.split()); re.match(check_re); re.findall(find_re); dict comprehension.
   The two regexes are pinned literally (Proofs: arrlen_regexes_pinned); this recogniser is the
   hand-written deterministic reading of
        ^([^=,\{\}]+=(\{[\d,]+\}|\d+)(,|$))*$          (ASCII digits)
   tied to the real code by the correspondence run. *)
Definition is_digit (c : Z) : bool := (48 <=? c) && (c <=? 57).
Definition is_special (c : Z) : bool := (c =? 61) || (c =? 44) || (c =? 123) || (c =? 125).

Inductive arrlen_res :=
| AOk (d : list (list Z * list Z))
| AReject
| AOutOfFuel.

(* dict insertion: an existing key keeps its position and takes the new value *)
Fixpoint dict_set (d : list (list Z * list Z)) (k : list Z) (v : list Z) : list (list Z * list Z) :=
  match d with
  | [] => [(k, v)]
  | (k', v') :: r => if list_eqb k' k then (k', v) :: r else (k', v') :: dict_set r k v
  end.

Definition sizes_of (s : list Z) : option (list Z) :=
  match map_opt py_int10 (parse_csv csv_sep s) with
  | Some l => ensure_non_empty l
  | None => None
  end.

Fixpoint arrlen_items (fuel : nat) (s : list Z) (d : list (list Z * list Z)) : arrlen_res :=
  match fuel with
  | O => AOutOfFuel
  | S fuel' =>
      match s with
      | [] => AOk d
      | _ =>
          let '(name, r1) := span (fun c => negb (is_special c)) s in
          match name, r1 with
          | _ :: _, 61 :: r2 =>
              let after (sizes : list Z) (r : list Z) : arrlen_res :=
                match sizes_of sizes with
                | None => AReject                       (* ensure_non_empty raises *)
                | Some l => arrlen_items fuel' r (dict_set d (strip name) l)
                end in
              match r2 with
              | 123 :: r3 =>
                  let '(body, r4) := span (fun c => is_digit c || (c =? 44)) r3 in
                  match body, r4 with
                  | _ :: _, 125 :: r5 =>
                      match r5 with
                      | [] => after body []
                      | 44 :: r6 => after body r6
                      | _ => AReject
                      end
                  | _, _ => AReject
                  end
              | _ =>
                  let '(num, r3) := span is_digit r2 in
                  match num, r3 with
                  | _ :: _, [] => after num []
                  | _ :: _, 44 :: r4 => after num r4
                  | _, _ => AReject
                  end
              end
          | _, _ => AReject
          end
      end
  end.

Definition remove_ws (s : list Z) : list Z := filter (fun c => negb (is_ws c)) s.

(* NOTE: the regex check runs on the whole string before any int()/ensure_non_empty, so a format
   error anywhere wins over an empty size list; both are ValueError, which is all the model
   distinguishes (AReject). *)
Definition arrlen_parse (s : list Z) : arrlen_res :=
  match s with
  | [] => AOk []
  | _ => match arrlen_ws_join with
         | [] => let s' := remove_ws s in arrlen_items (S (length s')) s' []
         | _ => AOutOfFuel          (* a non-empty joiner is outside the model *)
         end
  end.

Definition arrlen_unparse (d : list (list Z * list Z)) : list Z :=
  join arrlen_join
    (map (fun kv => fst kv ++ arrlen_item_open ++ join arrlen_sizes_join (map str_of_Z (snd kv)) ++ arrlen_item_close) d).
