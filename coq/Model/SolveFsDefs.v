(* Statement language for the file-system level of C04: what solve.dump and
   solve.solve_low_level do to the dump directory and which file the solver is handed.
   Gen/GenSolveFs.v (regenerated from solve.py by translate/t_solvefs.py) is a pair of
   programs in this language; Model/SolveFsModel.v interprets them.  No proofs. *)
From Coq Require Import List String Bool.
Import ListNotations.

(* a file of the dump directory: str(path_ctx.dump_file) followed by a literal suffix
   ("" = the query file itself, ".out", ".err") *)
Inductive fref : Type := FDump (suffix : string).

(* what is written *)
Inductive wsrc : Type := WStdout | WStderr.

(* conditions that may guard a statement *)
Inductive lcond : Type :=
| CExists (f : fref)          (* <file>.exists() / os.path.exists(<file>) *)
| CNot (c : lcond)
| CRefined                    (* path_ctx.is_refined *)
| CCache                      (* args.cache_solver *)
| CStderr.                    (* truthiness of the solver's stderr *)

(* the result returned from the `except subprocess.TimeoutExpired` handler *)
Inductive tmo : Type := TUnknown | TUnsat | TErr.

Inductive lstmt : Type :=
| LDump                                   (* dump(path_ctx) *)
| LWriteQuery (named : bool)              (* dump_file.write_text(<the f-string with/without named assertions>) *)
| LRun (f : fref) (t : tmo)               (* run the solver command on file f; binds stdout/stderr; timeout returns t *)
| LWrite (f : fref) (w : wsrc)            (* with open(f, "w") as h: h.write(w) *)
| LIf (c : lcond) (th el : list lstmt)
| LFromResult.                            (* return SolverOutput.from_result(stdout, stderr, returncode, path_ctx) *)
