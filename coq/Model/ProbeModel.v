(* C15 model: assertion failures inside invariant target functions ("probes"), following
   src/halmos/__main__.py:

     _compute_frontier, for a target transaction that ends in a Panic / failed flag inside function p:
         if p in ctx.probes_reported: continue                         (probe_skip_if_reported)
         handler.handle_assertion_violation(...)                       the query is queued; the answer comes
                                                                       later on a solver thread
     CounterexampleHandler.handle_assertion_violation: ... submit      (probe_submit_marks: marks p here?)
     CounterexampleHandler._solve_end_to_end_callback(result, model):
         early returns for unsat / err / unknown / no model            (probe_callback_marks,
         probes_reported.add(p); print the counterexample               probe_callback_reports)

   The four decisions are regenerated from the source (Gen/GenProbes.v); this file runs them over a
   sequence of events (Spec/ProbeSpec.v).  Definitions only. *)
From Coq Require Import ZArith List Bool.
From HV Require Import Spec.ProbeSpec Gen.GenProbes.
Import ListNotations.
Open Scope Z_scope.

Record pstate := mkPS {
  ps_reported : list Z;                          (* ContractContext.probes_reported *)
  ps_submitted : list (Z * sresult * bool);      (* the queries handed to the solver, in order, with their eventual answers *)
  ps_flags : list bool;                          (* for every EPath so far: was it submitted? *)
  ps_cex : list Z }.                             (* functions for which a counterexample was output *)

Definition ps_init : pstate := mkPS [] [] [] [].

Definition pmem (x : Z) (l : list Z) : bool := existsb (Z.eqb x) l.

Definition pstep (s : pstate) (e : pevent) : pstate :=
  match e with
  | EPath p r m =>
      if probe_skip_if_reported && pmem p (ps_reported s)
      then mkPS (ps_reported s) (ps_submitted s) (ps_flags s ++ [false]) (ps_cex s)
      else mkPS (if probe_submit_marks then p :: ps_reported s else ps_reported s)
                (ps_submitted s ++ [(p, r, m)]) (ps_flags s ++ [true]) (ps_cex s)
  | EDone k =>
      match nth_error (ps_submitted s) k with
      | Some (p, r, m) =>
          mkPS (if probe_callback_marks r m then p :: ps_reported s else ps_reported s)
               (ps_submitted s) (ps_flags s)
               (if probe_callback_reports r m then ps_cex s ++ [p] else ps_cex s)
      | None => s
      end
  end.

Definition prun_from (s : pstate) (evs : list pevent) : pstate := fold_left pstep evs s.
Definition prun (evs : list pevent) : pstate := prun_from ps_init evs.

(* every query that is submitted is answered later on *)
Definition all_answered (evs : list pevent) : Prop :=
  forall pre e post, evs = pre ++ e :: post ->
    length (ps_submitted (prun (pre ++ [e]))) = S (length (ps_submitted (prun pre))) ->
    In (EDone (length (ps_submitted (prun pre)))) post.
