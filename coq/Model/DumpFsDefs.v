(* Statement language for the dump / solve protocol of C11: which file solve.dump writes
   (and how: truncating or appending), under which guards solve.solve_low_level (re)writes
   it, on which file the solver process is started, and which PathContext
   solve.solve_end_to_end hands to solve_low_level the first and the second time.
   Gen/GenDumpFs.v (regenerated from solve.py by translate/t_dumpfs.py) is a set of programs
   in this language; Model/DumpFsModel.v interprets them over a file system.  No proofs. *)
From Coq Require Import List String Bool.
Import ListNotations.

(* a file: str(path_ctx.dump_file) followed by a literal suffix ("" = the query file) *)
Inductive fref : Type := FQ (suffix : string).

(* how an existing file is treated by a write: `write_text` / open(.., "w") replace the
   content, open(.., "a") keeps it and adds at the end *)
Inductive wmode : Type := MTrunc | MAppend.

(* what is written *)
Inductive wtext : Type :=
| TQuery (named : bool)       (* the f-string of dump, with / without the named assertions *)
| TStdout | TStderr.          (* what the solver printed *)

(* guards *)
Inductive fcond : Type :=
| KExists (f : fref)          (* <file>.exists() / os.path.exists(<file>) *)
| KNot (c : fcond)
| KRefined                    (* path_ctx.is_refined *)
| KCache                      (* args.cache_solver *)
| KStderr.                    (* truthiness of the solver's stderr *)

Inductive fstmt : Type :=
| SDump                                        (* dump(path_ctx) *)
| SWrite (f : fref) (m : wmode) (t : wtext)    (* a write to a file of the dump directory *)
| SStart (f : fref)                            (* start the solver process on file f and wait; binds stdout / stderr;
                                                  the TimeoutExpired handler returns *)
| SIf (c : fcond) (th el : list fstmt)
| SReturn.                                     (* return SolverOutput.from_result(...) *)

(* the PathContext an invocation of solve_low_level inside solve_end_to_end receives *)
Inductive etarget : Type :=
| ESelf                       (* solve_low_level(ctx) *)
| ERefinedCtx.                (* solve_low_level(ctx.refine()) *)
