(* Executable model of (a) the state-setting hevm cheatcodes (deal, store, load, etch,
   warp, roll, fee, chainId, coinbase, difficulty) as hevm_cheat_code.handle performs
   them on an Exec, (b) the symbolic-value constructors create_* / vm.random* and the
   naming of the symbols they create.  Follows the Python branch by branch.  No proofs here.

   Widths, type names, size bounds, selector tables and the vm.random* dispatch are
   regenerated from cheatcodes.py on every run (Gen/GenCheatSelectors.v). *)
From Coq Require Import ZArith NArith List Bool String Ascii DecimalString.
From HV Require Import Base.SmtBV Gen.GenCheatSelectors.
Import ListNotations.
Open Scope Z_scope.

(* ================================================================= state cheatcodes *)
(* uint160(word): BV(x, size=160) truncates *)
Definition u160 (w : Z) : Z := w mod 2 ^ 160.

(* Balances: a chain of Store(balance, addr, value) over the empty array (Exec.select with
   concrete keys: newest matching store wins, the empty array reads 0).  Storage: per
   account chain of (slot, value) writes over empty storage; an account "exists" when it
   has code (ex.code), which is what resolve_address_alias tests for a concrete address. *)
Record mworld := {
  mw_balance : list (Z * Z);
  mw_storage : list (Z * Z * Z);          (* (account, slot, value), newest first *)
  mw_code : list (Z * list Z);            (* newest first *)
  mw_basefee : Z; mw_chainid : Z; mw_coinbase : Z; mw_difficulty : Z; mw_number : Z; mw_timestamp : Z
}.

Fixpoint assoc (k : Z) (l : list (Z * Z)) : option Z :=
  match l with [] => None | (k', v) :: r => if k =? k' then Some v else assoc k r end.
Fixpoint assoc2 (a s : Z) (l : list (Z * Z * Z)) : option Z :=
  match l with [] => None | (a', s', v) :: r => if (a =? a') && (s =? s') then Some v else assoc2 a s r end.
Fixpoint assoc_code (k : Z) (l : list (Z * list Z)) : option (list Z) :=
  match l with [] => None | (k', v) :: r => if k =? k' then Some v else assoc_code k r end.

(* reads, as the opcodes BALANCE / SLOAD / EXTCODESIZE.. / TIMESTAMP .. perform them *)
Definition read_balance (w : mworld) (a : Z) : Z :=
  match assoc (u160 a) (mw_balance w) with Some v => v | None => 0 end.
(* Exec.balance_of: "practical assumption on the max balance per account" -- a concrete
   balance above MAX_ETH raises HalmosException *)
Definition MAX_ETH : Z := 2 ^ 128.
Definition read_balance_checked (w : mworld) (a : Z) : option Z :=
  let v := read_balance w a in if v >? MAX_ETH then None else Some v.
Definition read_storage (w : mworld) (a s : Z) : Z :=
  match assoc2 a s (mw_storage w) with Some v => v | None => 0 end.
Definition read_code (w : mworld) (a : Z) : option (list Z) := assoc_code a (mw_code w).
Definition exists_acct (w : mworld) (a : Z) : bool :=
  match read_code w a with Some _ => true | None => false end.

Definition set_balance (w : mworld) (l : list (Z * Z)) : mworld :=
  {| mw_balance := l; mw_storage := mw_storage w; mw_code := mw_code w; mw_basefee := mw_basefee w;
     mw_chainid := mw_chainid w; mw_coinbase := mw_coinbase w; mw_difficulty := mw_difficulty w;
     mw_number := mw_number w; mw_timestamp := mw_timestamp w |}.
Definition set_storage (w : mworld) (l : list (Z * Z * Z)) : mworld :=
  {| mw_balance := mw_balance w; mw_storage := l; mw_code := mw_code w; mw_basefee := mw_basefee w;
     mw_chainid := mw_chainid w; mw_coinbase := mw_coinbase w; mw_difficulty := mw_difficulty w;
     mw_number := mw_number w; mw_timestamp := mw_timestamp w |}.
Definition set_code (w : mworld) (l : list (Z * list Z)) : mworld :=
  {| mw_balance := mw_balance w; mw_storage := mw_storage w; mw_code := l; mw_basefee := mw_basefee w;
     mw_chainid := mw_chainid w; mw_coinbase := mw_coinbase w; mw_difficulty := mw_difficulty w;
     mw_number := mw_number w; mw_timestamp := mw_timestamp w |}.
Definition set_block (w : mworld) (basefee chainid coinbase difficulty number timestamp : Z) : mworld :=
  {| mw_balance := mw_balance w; mw_storage := mw_storage w; mw_code := mw_code w; mw_basefee := basefee;
     mw_chainid := chainid; mw_coinbase := coinbase; mw_difficulty := difficulty;
     mw_number := number; mw_timestamp := timestamp |}.

(* bytes32("failed") and the vm.store(HEVM_ADDRESS, "failed", 1) payload intercepted as fail() *)
Definition failed_slot : Z := 0x6661696c6564 * 2 ^ (8 * 26).

Inductive cheat :=
| Deal (who amount : Z)
| Store (acct slot value : Z)
| Load (acct slot : Z)
| Etch (who : Z) (code : list Z)
| Warp (x : Z) | Roll (x : Z) | Fee (x : Z) | ChainId (x : Z) | Coinbase (x : Z) | Difficulty (x : Z).

Inductive sres := SErrNonexistent | SFail | SDone (w : mworld) (ret : option Z).

(* arguments are the 32-byte calldata words, 0 <= word < 2^256 *)
Definition do_cheat (w : mworld) (c : cheat) : sres :=
  match c with
  | Deal who amount => SDone (set_balance w ((u160 who, amount) :: mw_balance w)) None
  | Store acct slot value =>
      if (acct =? hevm_address) && (slot =? failed_slot) && (value =? 1) then SFail
      else if exists_acct w (u160 acct) then
        SDone (set_storage w ((u160 acct, slot, value) :: mw_storage w)) None
      else SErrNonexistent
  | Load acct slot =>
      if exists_acct w (u160 acct) then SDone w (Some (read_storage w (u160 acct) slot))
      else SDone w (Some 0)
  | Etch who code => SDone (set_code w ((u160 who, code) :: mw_code w)) None
  | Warp x => SDone (set_block w (mw_basefee w) (mw_chainid w) (mw_coinbase w) (mw_difficulty w) (mw_number w) x) None
  | Roll x => SDone (set_block w (mw_basefee w) (mw_chainid w) (mw_coinbase w) (mw_difficulty w) x (mw_timestamp w)) None
  | Fee x => SDone (set_block w x (mw_chainid w) (mw_coinbase w) (mw_difficulty w) (mw_number w) (mw_timestamp w)) None
  | ChainId x => SDone (set_block w (mw_basefee w) x (mw_coinbase w) (mw_difficulty w) (mw_number w) (mw_timestamp w)) None
  | Coinbase x => SDone (set_block w (mw_basefee w) (mw_chainid w) (u160 x) (mw_difficulty w) (mw_number w) (mw_timestamp w)) None
  | Difficulty x => SDone (set_block w (mw_basefee w) (mw_chainid w) (mw_coinbase w) x (mw_number w) (mw_timestamp w)) None
  end.

(* ================================================================= created symbols *)
Open Scope string_scope.

(* decimal rendering of a counter, and python's f"{n:>02}" *)
Definition dec (n : N) : string := NilEmpty.string_of_uint (N.to_uint n).
Definition pad2 (s : string) : string := if (String.length s <? 2)%nat then "0" ++ s else s.

(* create_generic: f"halmos_{var_name}_{type_name}_{uid()}_{ex.new_symbol_id():>02}" *)
Definition label (name ty uid : string) (id : N) : string :=
  "halmos_" ++ name ++ "_" ++ ty ++ "_" ++ uid ++ "_" ++ pad2 (dec id).

Close Scope string_scope.

(* z3 terms the creators build *)
Inductive term :=
| TSym (id : N) (w : Z) (ty : string)     (* BitVec(label .. id, w) *)
| TZext (k : Z) (t : term)                (* ZeroExt(k, t) *)
| TSext (w k : Z) (t : term).             (* SignExt(k, t), t of width w *)

Inductive chunk :=
| CTerm (nbytes : Z) (t : term)
| CConst (nbytes : Z) (v : Z).

Inductive cond := UGe (t : term) (v : Z) | ULe (t : term) (v : Z).

Inductive cres :=
| CErr (cnt : N)                          (* HalmosException *)
| CCrash (cnt : N)                        (* python TypeError / AttributeError inside the handler *)
| COk (cnt : N) (ret : list chunk) (conds : list cond).

(* create_generic(ex, bits, name, type): no symbol (and no counter step) for 0 bits *)
Definition create_generic (cnt : N) (bits : Z) (ty : string) : option term * N :=
  if bits =? 0 then (None, cnt) else (Some (TSym (cnt + 1)%N bits ty), (cnt + 1)%N).

Fixpoint fixed_lookup (f : string) (l : list (string * string * Z)) : option (string * Z) :=
  match l with
  | [] => None
  | (g, ty, w) :: r => if String.eqb f g then Some (ty, w) else fixed_lookup f r
  end.

(* uint256(x) on a w-bit z3 term / int256(x) *)
Definition zext256 (w : Z) (t : term) : term := if w =? 256 then t else TZext (256 - w) t.
Definition sext256 (w : Z) (t : term) : term := if w =? 256 then t else TSext w (256 - w) t.

Definition dec_z (z : Z) : string := dec (Z.to_N z).

Definition create_uint (cnt : N) (bits : Z) : cres :=
  if bits >? create_uint_max_bits then CErr cnt
  else match create_generic cnt bits (create_uint_type_prefix ++ dec_z bits)%string with
       | (None, c) => CCrash c                       (* uint256(ByteVec()) raises TypeError *)
       | (Some t, c) => COk c [CTerm 32 (zext256 bits t)] []
       end.

Definition create_int (cnt : N) (bits : Z) : cres :=
  if bits >? create_int_max_bits then CErr cnt
  else match create_generic cnt bits (create_int_type_prefix ++ dec_z bits)%string with
       | (None, c) => CCrash c                       (* int256(ByteVec()): AttributeError *)
       | (Some t, c) => COk c [CTerm 32 (sext256 bits t)] []
       end.

(* the fixed-width creators; f = python function name *)
Definition create_fixed (f : string) (cnt : N) : cres :=
  match fixed_lookup f creators_fixed with
  | None => CCrash cnt
  | Some (ty, w) =>
      match create_generic cnt w ty with
      | (None, c) => CCrash c
      | (Some t, c) =>
          if String.eqb f "create_bytes4" || String.eqb f "create_bytes8"
          then COk c [CTerm (w / 8) t; CConst (32 - w / 8) 0] []       (* pad right *)
          else if String.eqb f "create_address" || String.eqb f "create_bool"
          then COk c [CTerm 32 (zext256 w t)] []
          else COk c [CTerm 32 t] []
      end
  end.

(* create_uint256_min_max: the symbol is created before min <= max is checked *)
Definition create_min_max (cnt : N) (mn mx : Z) : cres :=
  match fixed_lookup "create_uint256_min_max" creators_fixed with
  | None => CCrash cnt
  | Some (ty, w) =>
      match create_generic cnt w ty with
      | (None, c) => CCrash c
      | (Some t, c) => if mn >? mx then CErr c else COk c [CTerm 32 t] [UGe t mn; ULe t mx]
      end
  end.

(* encode_tuple_bytes(create_generic(ex, byte_size * 8, name, "bytes" | "string")) *)
Definition create_bytes (cnt : N) (ty : string) (byte_size : Z) : cres :=
  match create_generic cnt (byte_size * 8) ty with
  | (None, c) => COk c [CConst 32 32; CConst 32 0] []
  | (Some t, c) => COk c [CConst 32 32; CConst 32 byte_size; CTerm byte_size t] []
  end.

(* dispatch by python function name: svm handlers and vm.random* share the creators *)
Definition creator (f : string) (cnt : N) (a1 a2 : Z) : cres :=
  if String.eqb f "create_uint" then create_uint cnt a1
  else if String.eqb f "create_int" then create_int cnt a1
  else if String.eqb f "create_bytes" then create_bytes cnt "bytes" a1
  else if String.eqb f "create_string" then create_bytes cnt "string" a1
  else if String.eqb f "create_uint256_min_max" then create_min_max cnt a1 a2
  else create_fixed f cnt.

Fixpoint svm_lookup (sel : N) (l : list (N * string * string)) : option (string * string) :=
  match l with
  | [] => None
  | (s, sig, f) :: r => if N.eqb sel s then Some (sig, f) else svm_lookup sel r
  end.
Fixpoint random_lookup (sel : N) (l : list (N * string * string * string)) : option (string * string * string) :=
  match l with
  | [] => None
  | (s, sig, f, nm) :: r => if N.eqb sel s then Some (sig, f, nm) else random_lookup sel r
  end.

(* halmos_cheat_code.handle / the vm.random* arms of hevm_cheat_code.handle *)
Definition svm_call (sel : N) (cnt : N) (a1 a2 : Z) : option cres :=
  match svm_lookup sel svm_handlers with Some (_, f) => Some (creator f cnt a1 a2) | None => None end.
Definition vm_random_call (sel : N) (cnt : N) (a1 a2 : Z) : option (string * cres) :=
  match random_lookup sel random_dispatch with
  | Some (_, f, nm) => Some (nm, creator f cnt a1 a2)
  | None => None
  end.

(* ---------------------------------------------------------------- denotation *)
(* a valuation gives every symbol id an integer; a w-bit symbol denotes it modulo 2^w *)
Fixpoint eval (rho : N -> Z) (t : term) : Z :=
  match t with
  | TSym id w _ => bvmod w (rho id)
  | TZext _ t => bvzext (eval rho t)
  | TSext w k t => bvsext w k (eval rho t)
  end.

Fixpoint ret_value (rho : N -> Z) (l : list chunk) (acc : Z) : Z :=
  match l with
  | [] => acc
  | CTerm n t :: r => ret_value rho r (acc * 2 ^ (8 * n) + eval rho t)
  | CConst n v :: r => ret_value rho r (acc * 2 ^ (8 * n) + v)
  end.
Fixpoint ret_len (l : list chunk) : Z :=
  match l with [] => 0 | CTerm n _ :: r => n + ret_len r | CConst n _ :: r => n + ret_len r end.

Definition cond_holds (rho : N -> Z) (c : cond) : bool :=
  match c with UGe t v => bvule v (eval rho t) | ULe t v => bvule (eval rho t) v end.

Fixpoint term_ids (t : term) : list N :=
  match t with TSym id _ _ => [id] | TZext _ t => term_ids t | TSext _ _ t => term_ids t end.
Fixpoint ret_ids (l : list chunk) : list N :=
  match l with [] => [] | CTerm _ t :: r => term_ids t ++ ret_ids r | CConst _ _ :: r => ret_ids r end.

(* a sequence of creator calls on one path: (function name, a1, a2), threading the counter *)
Fixpoint run_creators (cnt : N) (calls : list (string * Z * Z)) : list cres :=
  match calls with
  | [] => []
  | (f, a1, a2) :: r =>
      let res := creator f cnt a1 a2 in
      let cnt' := match res with CErr c => c | CCrash c => c | COk c _ _ => c end in
      res :: run_creators cnt' r
  end.
Definition cres_ids (r : cres) : list N := match r with COk _ ret _ => ret_ids ret | _ => [] end.
