(* Vocabulary of Gen/GenCreate2.v (regenerated from SEVM.create by translate/t_create2.py). *)
Inductive c2field := C2_FF | C2_SENDER | C2_SALT | C2_CODEHASH.
Inductive c2pop := P_VALUE | P_OFFSET | P_SIZE | P_SALT.
