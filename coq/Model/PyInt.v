(* Python `int` primitives the generated code (Gen/GenBitvecGuards.v: the concrete-path return
   expressions of src/halmos/bitvec.py) and Model/BitVecModel.v are written in.  No proofs here
   (Proofs/BitVecProofs.v shows py_pow3 a e m = a ^ e mod m, py_shr = division by 2^s, ...).

   [py_bits v] is the size in bits of the integer object CPython holds for v.  The generated
   `rw_*` work measures are built from it by the rules of translate/t_purefuns.py:
     a + b, a - b : max + 1        a * b : sum          a // b, a % b, a >> b, &, |, ^ : max
     a << b : bits a + b           a ** b : bits a * b  (the power is materialised in full)
     pow(a, b, m) : max (bits a) (bits b) (2 * bits m)  (long_pow reduces after every product)
   and are the maximum over all sub-expressions: an upper bound of the largest integer that is
   materialised while the expression is evaluated. *)
From Coq Require Import ZArith.
Open Scope Z_scope.

Definition py_bits (v : Z) : Z := Z.log2 (Z.abs v) + 1.

(* v >> s on non-negative ints; CPython returns 0 without iterating when s exceeds the length *)
Definition py_shr (v s : Z) : Z := if Z.log2 v <? s then 0 else Z.shiftr v s.

(* pow(a, e, m), a >= 0, e >= 0, m > 0: right-to-left binary exponentiation, every product is
   reduced modulo m before it is used again *)
Fixpoint py_pow3_loop (base acc : Z) (p : positive) (m : Z) : Z :=
  match p with
  | xH => (acc * base) mod m
  | xO q => py_pow3_loop ((base * base) mod m) acc q m
  | xI q => py_pow3_loop ((base * base) mod m) ((acc * base) mod m) q m
  end.
Definition py_pow3 (a e m : Z) : Z :=
  match e with
  | Z0 => 1 mod m
  | Zpos p => py_pow3_loop (a mod m) 1 p m
  | Zneg _ => 0
  end.
