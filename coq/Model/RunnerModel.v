(* Executable model of the runner layer of halmos (src/halmos/__main__.py, sevm.py CallOutput /
   CallContext, solve.py solve_end_to_end), branch by branch.  No proofs here.

   Regenerated on every run (coq/Gen):
     GenPanic.v    PANIC_SELECTOR_BYTES, slice bounds, is_panic_decide   (CallOutput.is_panic_of)
     GenRunTest.v  Exitcode values, classify, stuck_counts, width_cut, verdict,
                   setup_path_ok, setup_keeps, {setup,test,target}_warns_loop_bound  (run_test / setup / run_target_function)
   Solver answers: S_UNSAT = 0, S_SAT = 1, S_UNKNOWN = 2, S_ERR = 3 (also a failed solver call);
   S_SHUTDOWN = 4: no answer, the call was interrupted by the early exit. *)
From Coq Require Import ZArith List Bool.
From HV Require Import Gen.GenPanic Gen.GenRunTest Spec.PanicSpec.
Import ListNotations.
Open Scope Z_scope.

(* ------------------------------------------------------------------ revert data *)

(* a byte of halmos' ByteVec: concrete, or (part of) a symbolic term *)
Inductive sbyte := BC (b : Z) | BS (t : Z).

Fixpoint concrete_bytes (l : list sbyte) : option (list Z) :=
  match l with
  | [] => Some []
  | BC b :: r => match concrete_bytes r with Some bs => Some (b :: bs) | None => None end
  | BS _ :: _ => None
  end.

Fixpoint be_value (acc : Z) (l : list Z) : Z :=
  match l with
  | [] => acc
  | b :: r => be_value (acc * 256 + b) r
  end.

Definition slice {A : Type} (lo hi : Z) (l : list A) : list A :=
  firstn (Z.to_nat (hi - lo)) (skipn (Z.to_nat lo) l).

Fixpoint list_eqb (a b : list Z) : bool :=
  match a, b with
  | [], [] => true
  | x :: a', y :: b' => (x =? y) && list_eqb a' b'
  | _, _ => false
  end.

Fixpoint memZ (x : Z) (l : list Z) : bool :=
  match l with
  | [] => false
  | y :: r => (x =? y) || memZ x r
  end.

Inductive tri := TTrue | TFalse | TRaise.
Definition tri_of_bool (b : bool) : tri := if b then TTrue else TFalse.

(* CallOutput.is_panic_of(expected_error_codes)   (sevm.py)
   data = None models `self.data is None`; codes = [] models the empty set ('*'). *)
Definition is_panic_of (err : errkind) (data : option (list sbyte)) (codes : list Z) : tri :=
  match err with
  | ERevert =>
      match data with
      | None => TRaise                                  (* byte_length(None) raises TypeError *)
      | Some d =>
          if negb (Z.of_nat (length d) =? 36) then TFalse
          else
            match concrete_bytes (slice SEL_LO SEL_HI d) with
            | None => TRaise                            (* `z3 term != bytes` raises Z3Exception *)
            | Some sb =>
                if negb (list_eqb sb PANIC_SELECTOR_BYTES) then TFalse
                else
                  match codes with
                  | [] => TTrue                         (* match any error code *)
                  | _ =>
                      match concrete_bytes (slice CODE_LO CODE_HI d) with
                      | None => TFalse                  (* NOTE: symbolic error code will be silently ignored *)
                      | Some cb => tri_of_bool (memZ (be_value 0 cb) codes)
                      end
                  end
            end
      end
  | _ => TFalse
  end.

(* ------------------------------------------------------------------ call trees *)

(* CallContext = Spec.PanicSpec.ctree: the error of its output (CallOutput.error) and its subcalls *)
Definition root_err (c : ctree) : errkind := match c with CNode e _ => e end.
Definition is_fail (e : errkind) : bool := match e with EFail => true | _ => false end.

(* __main__.is_global_fail_set *)
Fixpoint global_fail (c : ctree) : bool :=
  match c with
  | CNode e subs => is_fail e || existsb global_fail subs
  end.

(* ------------------------------------------------------------------ run_test *)

Section RunTest.
  Variable Q : Type.                 (* SMT queries (Path.to_smt2) *)
  Variable solve_assert : Q -> Z.    (* answer recorded in ctx.solver_outputs for a submitted assertion query *)
  Variable solve_low : Q -> Z.       (* solve_low_level: one solver invocation (stuck paths, setUp paths) *)

  (* one finished path as reported by SEVM.run: its call tree, output data and query *)
  Record leaf := mkLeaf { l_ctx : ctree; l_data : option (list sbyte); l_query : Q }.

  Definition l_err (l : leaf) : errkind := root_err (l_ctx l).
  Definition has_error (l : leaf) : bool := match l_err l with ENone => false | _ => true end.
  (* CallContext.is_stuck: data is None or isinstance(error, HalmosException) *)
  Definition is_stuck (l : leaf) : bool :=
    match l_data l with None => true | Some _ => match l_err l with EHalmos => true | _ => false end end.

  Record acc := mkAcc {
    a_results : list Z;      (* ctx.solver_outputs (results only) *)
    a_stuck : Z;             (* len(stuck) *)
    a_normal : Z;            (* normal *)
    a_raised : bool;         (* an exception escaped the loop (run_tests prints [ERROR]) *)
    a_width_warn : bool      (* 'incomplete execution due to the specified limit: --width' *)
  }.

  Definition acc0 : acc := mkAcc [] 0 0 false false.

  Definition step_leaf (codes : list Z) (l : leaf) (a : acc) : option acc :=
    match is_panic_of (l_err l) (l_data l) codes with
    | TRaise => None
    | p =>
        let panic_found := match p with TTrue => true | _ => false end in
        let cls := classify panic_found (global_fail (l_ctx l)) (is_stuck l) (has_error l) in
        Some (if cls =? CL_POTENTIAL then
                mkAcc (a_results a ++ [solve_assert (l_query l)]) (a_stuck a) (a_normal a) (a_raised a) (a_width_warn a)
              else if cls =? CL_STUCK then
                (if stuck_counts (solve_low (l_query l))
                 then mkAcc (a_results a) (a_stuck a + 1) (a_normal a) (a_raised a) (a_width_warn a)
                 else a)
              else if cls =? CL_NORMAL then
                mkAcc (a_results a) (a_stuck a) (a_normal a + 1) (a_raised a) (a_width_warn a)
              else a)
    end.

  (* confirming a stuck path was interrupted by ShutdownError (solve_low answers S_SHUTDOWN): `break` *)
  Definition shutdown_at (codes : list Z) (l : leaf) : bool :=
    match is_panic_of (l_err l) (l_data l) codes with
    | TRaise => false
    | p =>
        let panic_found := match p with TTrue => true | _ => false end in
        stuck_shutdown_breaks
        && (classify panic_found (global_fail (l_ctx l)) (is_stuck l) (has_error l) =? CL_STUCK)
        && (solve_low (l_query l) =? S_SHUTDOWN)
    end.

  (* the main loop of run_test: `for path_id, ex in enumerate(exs)` *)
  Fixpoint loop (codes : list Z) (width : Z) (path_id : Z) (ls : list leaf) (a : acc) : acc :=
    match ls with
    | [] => a
    | l :: rest =>
        if shutdown_at codes l then a else
        match step_leaf codes l a with
        | None => mkAcc (a_results a) (a_stuck a) (a_normal a) true (a_width_warn a)
        | Some a' =>
            if width_cut width path_id
            then mkAcc (a_results a') (a_stuck a') (a_normal a') (a_raised a') true
            else loop codes width (path_id + 1) rest a'
        end
    end.

  Definition count (x : Z) (l : list Z) : Z := Z.of_nat (length (filter (Z.eqb x) l)).

  (* what SEVM.run hands to run_test for one test transaction *)
  Record exploration := mkExploration {
    ex_leaves : list leaf;
    ex_bounded : bool;        (* sevm.logs.bounded_loops is non-empty *)
    ex_depth_cut : bool       (* some path was abandoned by --depth (SEVM.run warns at the cut) *)
  }.

  Record report := mkReport {
    r_exit : Z;
    r_warn_loop : bool;
    r_warn_depth : bool;
    r_warn_width : bool
  }.

  Definition run_test (codes : list Z) (width : Z) (e : exploration) : report :=
    let a := loop codes width 0 (ex_leaves e) acc0 in
    let exit :=
      if a_raised a then EX_EXCEPTION
      else verdict (count S_SAT (a_results a)) (count S_ERR (a_results a)) (count S_UNKNOWN (a_results a))
                   (a_stuck a) (a_normal a) in
    mkReport exit (test_warns_loop_bound && ex_bounded e) (ex_depth_cut e) (a_width_warn a).

  Definition clean (r : report) : bool :=
    negb (r_warn_loop r) && negb (r_warn_depth r) && negb (r_warn_width r).

  (* ---------------------------------------------------------------- setup() *)

  (* one explored path of setUp: `output.error` is set; CallContext.is_stuck() (output data None, or a
     HalmosException); its query *)
  Record spath := mkSpath { sp_error : bool; sp_stuck : bool; sp_query : Q }.
  Inductive setup_result := SetupOk (p : spath) | SetupNoPath | SetupMultiple.

  (* the paths that count as successful (regenerated test setup_path_ok); if more than one, those kept
     given the solver's answer on their query (regenerated filter setup_keeps) *)
  Definition setup_select (paths : list spath) : setup_result :=
    let ok := filter (fun p => setup_path_ok (sp_error p) (sp_stuck p)) paths in
    match ok with
    | [] => SetupNoPath
    | [p] => SetupOk p
    | _ =>
        match filter (fun p => setup_keeps (solve_low (sp_query p))) ok with
        | [] => SetupNoPath
        | [p] => SetupOk p
        | _ => SetupMultiple
        end
    end.
End RunTest.

Arguments mkLeaf {Q}.  Arguments l_ctx {Q}.  Arguments l_data {Q}.  Arguments l_query {Q}.
Arguments mkExploration {Q}.  Arguments ex_leaves {Q}.  Arguments ex_bounded {Q}.  Arguments ex_depth_cut {Q}.
Arguments mkSpath {Q}.  Arguments sp_error {Q}.  Arguments sp_stuck {Q}.  Arguments sp_query {Q}.
Arguments SetupOk {Q}.  Arguments SetupNoPath {Q}.  Arguments SetupMultiple {Q}.

(* ------------------------------------------------------------------ solve.solve_end_to_end *)

Section SolveEndToEnd.
  Variable Q : Type.
  Variable Qeqb : Q -> Q -> bool.          (* refined_ctx.query.smtlib != query.smtlib *)
  Variable core_hit : Q -> bool.           (* check_unsat_cores(query, unsat_cores) *)
  Variable low : Q -> Z * bool.            (* solve_low_level: (result, model.is_valid) *)
  Variable refine : Q -> Q.                (* PathContext.refine *)

  Definition solve_end_to_end (q : Q) (is_refined : bool) : Z :=
    if core_hit q then S_UNSAT
    else
      let '(r, valid) := low q in
      if (r =? S_SAT) && negb valid && negb is_refined then
        let q' := refine q in
        if negb (Qeqb q' q) then fst (low q') else r
      else r.
End SolveEndToEnd.

(* ------------------------------------------------------------------ which bounded-loop logs are reported (C10) *)

(* One run of an invariant test: setUp, the calls made by _compute_frontier (one private SEVM per
   target call, run_target_function) and the invariant_* transaction itself; each carries the
   flag `its SEVM's logs.bounded_loops is non-empty`. *)
Record inv_run := mkInvRun { iv_setup : bool; iv_targets : list bool; iv_test : bool }.

Definition loop_bound_warned (r : inv_run) : bool :=
  (setup_warns_loop_bound && iv_setup r)
  || existsb (fun b => target_warns_loop_bound && b) (iv_targets r)
  || (test_warns_loop_bound && iv_test r).
