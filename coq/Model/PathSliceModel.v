(* C15 model: which path conditions halmos treats as "constraints on state variables" (Path.sliced).

   src/halmos/sevm.py keeps, per Path,
     related[idx]        the PREVIOUS conditions related to condition idx (computed when idx is appended)
     var_to_conds[var]   the conditions in which the variable occurs
   Path.append(cond):    idx = len(conditions); related[idx] = _get_related(vars(cond)); var_to_conds[v].add(idx) for v in vars(cond)
   Path.slice(var_set):  sliced = _get_related(var_set)            (Exec.path_slice: var_set = variables of the balance,
                                                                    of symbolic code chunks and of the stored values)
   _get_related, the dependency update of append and slice are regenerated from the source in
   Gen/GenPathSlice.v; this file has the data they work on.
   Conditions are named by their position (nat), variables by numbers (Z).  Definitions only. *)
From Coq Require Import ZArith List Bool.
Import ListNotations.
Open Scope Z_scope.

Record pdeps := mkP {
  p_n : nat;                       (* len(self.conditions) *)
  p_related : nat -> list nat;     (* self.related *)
  p_v2c : Z -> list nat }.         (* self.var_to_conds (a defaultdict(set)) *)

Definition p_empty : pdeps := mkP O (fun _ => []) (fun _ => []).

Definition vmem (x : Z) (l : list Z) : bool := existsb (Z.eqb x) l.

(* set(x) payable { s = x; require(x == msg.value); if (msg.value > 9) {} else {} } :
   variables 1 = x, 2 = msg.value; conditions 0: x == msg.value, 1: msg.value > 9; state variables {x} *)
Module ForwardInst.
  Definition vs : list (list Z) := [[1; 2]; [2]].
  Definition S : list Z := [1].
End ForwardInst.
