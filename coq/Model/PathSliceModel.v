(* C15 model: which path conditions halmos treats as "constraints on state variables" (Path.sliced).

   src/halmos/sevm.py keeps, per Path,
     related[idx]        the PREVIOUS conditions related to condition idx (computed when idx is appended)
     var_to_conds[var]   the conditions in which the variable occurs
   Path.append(cond):    idx = len(conditions); related[idx] = _get_related(vars(cond)); var_to_conds[v].add(idx) for v in vars(cond)
   Path.slice(var_set):  a worklist closure: every condition in which a variable of the worklist occurs is sliced
                         and its variables join the worklist      (Exec.path_slice: var_set = variables of the balance,
                                                                    of the block fields but the timestamp, of symbolic
                                                                    code chunks and of the stored values)
   _get_related, the dependency update of append and slice are regenerated from the source in
   Gen/GenPathSlice.v; this file has the data they work on.
   Conditions are named by their position (nat), variables by numbers (Z).  Definitions only. *)
From Coq Require Import ZArith List Bool.
Import ListNotations.
Open Scope Z_scope.

Record pdeps := mkP {
  p_n : nat;                       (* len(self.conditions) *)
  p_related : nat -> list nat;     (* self.related *)
  p_v2c : Z -> list nat }.         (* self.var_to_conds (a defaultdict(set)) *)

Definition p_empty : pdeps := mkP O (fun _ => []) (fun _ => []).

Definition vmem (x : Z) (l : list Z) : bool := existsb (Z.eqb x) l.
Definition nmem (x : nat) (l : list nat) : bool := existsb (Nat.eqb x) l.

(* enough iterations for the loop of Path.slice: one more than the number of state variables plus the
   number of variable occurrences in the conditions (every pop is one iteration; every variable is
   pushed at most once per condition it occurs in, plus the initial ones) *)
Definition slice_fuel (vs : list (list Z)) (sv : list Z) : nat :=
  S (length sv + list_sum (map (@length Z) vs)).

(* set(x) payable { s = x; require(x == msg.value); if (msg.value > 9) {} else {} } :
   variables 1 = x, 2 = msg.value; conditions 0: x == msg.value, 1: msg.value > 9; state variables {x} *)
Module ForwardInst.
  Definition vs : list (list Z) := [[1; 2]; [2]].
  Definition S : list Z := [1].
End ForwardInst.
