(* Executable model of the Python float (IEEE-754 binary64, round to nearest even) operations
   that ParseTimeout / utils.parse_time use: float(str), repr(float), *, /, comparisons with
   floats and with ints, int(float), abs.  No proofs in this file (Proofs/ConfigFloatProofs.v).

   A finite float is its sign and its magnitude counted in units of 2^-1074 (the smallest
   subnormal): [FFin neg k] denotes (-1)^neg * k / 2^1074.  [k] is representable when it has at
   most 53 significant bits and is below 2^2098 (= 2^1024 in units of 2^-1074).  This covers
   normal and subnormal numbers and both zeros uniformly.                                     *)
From Coq Require Import ZArith List Bool.
Import ListNotations.
Open Scope Z_scope.

Definition F_UNIT : Z := 2 ^ 1074.        (* 1.0 *)
Definition F_TOP : Z := 2 ^ 2098.         (* first magnitude that is not finite *)

Inductive f64 :=
| FNan
| FInf (neg : bool)
| FFin (neg : bool) (k : Z).

(* number of low bits a magnitude must have clear: the quantum at magnitude [k] is 2^(f_shift k) *)
Definition f_shift (k : Z) : Z := Z.max 0 (Z.log2 k - 52).

Definition representable (k : Z) : Prop := 0 <= k /\ k mod 2 ^ f_shift k = 0.

Definition valid_f64 (v : f64) : Prop :=
  match v with
  | FFin _ k => representable k /\ k < F_TOP
  | _ => True
  end.

(* the magnitude (in units of 2^-1074) of the float nearest to n / d, ties to even
   (n >= 0, d > 0).  With n * 2^1074 = d * y + r0 and the quantum 2^s at magnitude y
   (s = f_shift y), the result is y / 2^s rounded by the remainder (y mod 2^s) * d + r0 of
   n * 2^1074 modulo d * 2^s.  The exponent range is not bounded above here: [f_mk] turns a
   magnitude >= F_TOP into inf. *)
Definition round_mag (n d : Z) : Z :=
  let '(y, r0) := Z.div_eucl (n * F_UNIT) d in
  let s := f_shift y in
  let q := Z.shiftr y s in
  let r := (y - Z.shiftl q s) * d + r0 in
  let b := Z.shiftl d s in
  Z.shiftl (if 2 * r <? b then q else if b <? 2 * r then q + 1 else if Z.even q then q else q + 1) s.

Definition f_mk (neg : bool) (k : Z) : f64 := if F_TOP <=? k then FInf neg else FFin neg k.

Definition f_of_ratio (neg : bool) (n d : Z) : f64 := f_mk neg (round_mag n d).

(* float(z) / the implicit conversion of an int operand *)
Definition f_of_Z (z : Z) : f64 := f_of_ratio (z <? 0) (Z.abs z) 1.

Definition f_neg (v : f64) : bool :=
  match v with FNan => false | FInf n => n | FFin n _ => n end.

Definition f_is_finite (v : f64) : bool :=
  match v with FFin _ _ => true | _ => false end.

Definition f_abs (v : f64) : f64 :=
  match v with FNan => FNan | FInf _ => FInf false | FFin _ k => FFin false k end.

(* signed magnitude of a finite float *)
Definition f_signed (neg : bool) (k : Z) : Z := if neg then - k else k.

(* x == y (IEEE: nan is not equal to anything, -0.0 == 0.0) *)
Definition f_eqb (x y : f64) : bool :=
  match x, y with
  | FInf a, FInf b => Bool.eqb a b
  | FFin a k1, FFin b k2 => f_signed a k1 =? f_signed b k2
  | _, _ => false
  end.

(* x >= z, x == z for a Python int z (exact comparison) *)
Definition f_geb_Z (x : f64) (z : Z) : bool :=
  match x with
  | FNan => false
  | FInf n => negb n
  | FFin n k => z * F_UNIT <=? f_signed n k
  end.

Definition f_eqb_Z (x : f64) (z : Z) : bool :=
  match x with
  | FFin n k => f_signed n k =? z * F_UNIT
  | _ => false
  end.

(* int(x): truncation toward zero; None = raises (ValueError for nan, OverflowError for inf) *)
Definition f_trunc (x : f64) : option Z :=
  match x with
  | FFin n k => Some (Z.quot (f_signed n k) F_UNIT)
  | _ => None
  end.

(* x * y *)
Definition f_mul (x y : f64) : f64 :=
  match x, y with
  | FNan, _ | _, FNan => FNan
  | FInf a, FInf b => FInf (xorb a b)
  | FInf a, FFin b k => if k =? 0 then FNan else FInf (xorb a b)
  | FFin a k, FInf b => if k =? 0 then FNan else FInf (xorb a b)
  | FFin a k1, FFin b k2 => f_of_ratio (xorb a b) (k1 * k2) (F_UNIT * F_UNIT)
  end.

(* x / y ; None = ZeroDivisionError *)
Definition f_div (x y : f64) : option f64 :=
  match x, y with
  | _, FFin _ 0 => None
  | FNan, _ | _, FNan => Some FNan
  | FInf a, FInf b => Some FNan
  | FInf a, FFin b _ => Some (FInf (xorb a b))
  | FFin a _, FInf b => Some (FFin (xorb a b) 0)
  | FFin a k1, FFin b k2 => Some (f_of_ratio (xorb a b) k1 k2)
  end.

(* structural identity (distinguishes the zeros; nan is identical to nan) *)
Definition f_same (x y : f64) : bool :=
  match x, y with
  | FNan, FNan => true
  | FInf a, FInf b => Bool.eqb a b
  | FFin a k1, FFin b k2 => Bool.eqb a b && (k1 =? k2)
  | _, _ => false
  end.
