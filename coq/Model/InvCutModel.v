(* C10, invariant testing: what _compute_frontier (src/halmos/__main__.py) does with each result state of a
   target transaction.  No proofs here.

   Regenerated on every run (coq/Gen/GenFrontierCls.v, translate/t_frontiercls.py): the body of
   `for post_ex in post_exs:` executed symbolically in SOURCE ORDER,

     frontier_step (is_stuck has_error : bool) (panic : ptri) (fail_set probe_reported visited : bool) : Z

   = the bit set of the effects performed on the state before the iteration ends
     (FE_ERROR error(...) logged / FE_PROBE probe handler called / FE_NEXT state joins the next frontier and is
      yielded / FE_MARK visited.add / FE_RAISE is_panic_of raised / FE_WARN a warning was printed).

   The observations are those of Model/RunnerModel.v on the same `leaf` (call tree, output data, query):
     is_stuck    CallContext.is_stuck(): output data None, or the error of the call itself is a HalmosException
     has_error   truthiness of output.error
     panic       Exec.is_panic_of(panic_error_codes)   (Model.RunnerModel.is_panic_of over Gen/GenPanic.v)
     fail_set    is_global_fail_set(subcall)
   and two facts that depend on what was processed before: the probe (target function) was already reported,
   the state id was already visited.  They are inputs here (any values). *)
From Coq Require Import ZArith List Bool.
From HV Require Import Gen.GenPanic Gen.GenRunTest Gen.GenFrontierCls Spec.PanicSpec Model.RunnerModel.
Import ListNotations.
Open Scope Z_scope.

Definition to_ptri (t : tri) : ptri :=
  match t with TTrue => PTrue | TFalse => PFalse | TRaise => PRaise end.

(* e has the (single-bit) effect b *)
Definition has_eff (e b : Z) : bool := negb (Z.land e b =? 0).

(* what the user / the rest of the run sees of the frontier computation: the indices (in execution order)
   of the states reported by an ERROR line, handed to the probe handler, added to the next frontier; and
   whether an exception left the generator (it propagates through run_message into run_test: the test
   does not get a verdict of its own, run_tests prints [ERROR]) *)
Record fres := mkFres { f_errors : list nat; f_probes : list nat; f_next : list nat; f_raised : option nat }.

Definition fres0 : fres := mkFres [] [] [] None.

Definition add_if (b : bool) (i : nat) (l : list nat) : list nat := if b then l ++ [i] else l.


Section InvCut.
  Variable Q : Type.

  (* one result state of a target transaction, as yielded by run_target_contract *)
  Record tstate := mkTstate { ts_leaf : leaf Q; ts_probe_reported : bool; ts_visited : bool }.

  Definition step_effects (codes : list Z) (s : tstate) : Z :=
    let l := ts_leaf s in
    frontier_step (is_stuck Q l) (has_error Q l)
                  (to_ptri (is_panic_of (l_err Q l) (l_data l) codes))
                  (global_fail (l_ctx l)) (ts_probe_reported s) (ts_visited s).

  (* the result states of ALL target transactions of ALL depths, in execution order (pre-states x targets x
     selectors x paths are flattened: the filters look at one state at a time) *)
  Fixpoint frontier_loop (codes : list Z) (i : nat) (ss : list tstate) (r : fres) : fres :=
    match ss with
    | [] => r
    | s :: rest =>
        let e := step_effects codes s in
        let r' := mkFres (add_if (has_eff e FE_ERROR) i (f_errors r))
                         (add_if (has_eff e FE_PROBE) i (f_probes r))
                         (add_if (has_eff e FE_NEXT) i (f_next r))
                         (f_raised r) in
        if has_eff e FE_RAISE
        then mkFres (f_errors r') (f_probes r') (f_next r') (Some i)
        else frontier_loop codes (S i) rest r'
    end.

  Definition frontier_run (codes : list Z) (ss : list tstate) : fres := frontier_loop codes 0 ss fres0.

  (* an invariant test = the frontier computation(s) + the invariant transaction run on the frontier states;
     "nothing was reported": no ERROR line about a target transaction, no exception, and the report of the
     invariant transaction itself is a PASS without warning *)
  Definition inv_clean_pass (fr : fres) (rep : report) : bool :=
    match f_raised fr with Some _ => false | None => true end
    && match f_errors fr with [] => true | _ => false end
    && (r_exit rep =? EX_PASS) && clean rep.
End InvCut.

Arguments mkTstate {Q}.  Arguments ts_leaf {Q}.  Arguments ts_probe_reported {Q}.  Arguments ts_visited {Q}.
