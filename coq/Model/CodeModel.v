(* Executable model of halmos.contract.Contract: jump-destination scan, instruction
   decoding, code slices.  No proofs in this file (Proofs/CodeProofs.v).

   code  := list (option Z); [Some b] is a concrete byte 0..255, [None] a symbolic byte.
   nfast := length of Contract._fastcode (the first chunk of the ByteVec when it is
            concrete; 0 when there is none).                                      *)
From Coq Require Import ZArith List Bool Lia.
From HV Require Import Gen.GenOpcodes.
Import ListNotations.
Open Scope Z_scope.

Definition code := list (option Z).

(* one `while pc < N` loop of Contract.__get_jumpdests over the sequence [l]
   (break on a symbolic opcode).  [fuel] bounds the number of iterations; the
   loop advances pc by at least one per iteration when insn_len >= 1. *)
Fixpoint scan (fuel : nat) (l : code) (pc : nat) (acc : list nat) : nat * list nat :=
  match fuel with
  | O => (pc, acc)
  | S f =>
      match nth_error l pc with
      | None => (pc, acc)                       (* pc >= N *)
      | Some None => (pc, acc)                  (* NotConcreteError -> break *)
      | Some (Some op) =>
          if op =? OP_JUMPDEST then scan f l (pc + 1)%nat (pc :: acc)
          else scan f l (pc + Z.to_nat (insn_len op))%nat acc
      end
  end.

(* for bytecode in (self._fastcode, self._code): if not bytecode: continue; ... *)
Definition jumpdests (nfast : nat) (c : code) : list nat :=
  let fast := firstn nfast c in
  let '(pc1, acc1) :=
    match fast with [] => (O, []) | _ => scan (length fast) fast O [] end in
  let '(_, acc2) :=
    match c with [] => (pc1, acc1) | _ => scan (length c) c pc1 acc1 end in
  acc2.

(* reads of the underlying ByteVec, as the flat zero-extended array C07 shows it to be *)
Definition code_byte (c : code) (i : nat) : option Z :=
  match nth_error c i with Some b => b | None => Some 0 end.

Definition code_slice (c : code) (start size : nat) : code :=
  map (fun i => code_byte c (start + i)%nat) (seq 0 size).

(* Contract.__getitem__: fastcode[key] if in range else _code.get_byte(key) *)
Definition getitem (nfast : nat) (c : code) (key : nat) : option Z :=
  if (key <? nfast)%nat then
    match nth_error (firstn nfast c) key with Some b => b | None => Some 0 end
  else code_byte c key.

(* Contract.slice / unwrapped_slice: `if self._fastcode and stop < len(self._fastcode)`
   takes the python slice fastcode[start:stop], else _code.slice(start, stop). *)
Definition slice (nfast : nat) (c : code) (start size : nat) : code :=
  let stop := (start + size)%nat in
  if (0 <? nfast)%nat && (stop <? nfast)%nat then
    firstn size (skipn start (firstn nfast c))
  else code_slice c start size.

(* big-endian value of a list of concrete bytes; None if any byte is symbolic *)
Fixpoint be_value (acc : Z) (l : code) : option Z :=
  match l with
  | [] => Some acc
  | Some b :: r => be_value (acc * 256 + b) r
  | None :: _ => None
  end.

Inductive decoded :=
| DStop                                   (* Instruction.STOP singleton (pc beyond the end) *)
| DSymbolic                               (* int_of raised NotConcreteError *)
| DInsn (opcode : Z) (next_pc : nat) (operand : option (option Z)).
   (* operand: None = no operand; Some None = symbolic operand; Some (Some v) *)

Definition decode (nfast : nat) (c : code) (pc : nat) : decoded :=
  if (length c <=? pc)%nat then DStop
  else
    match getitem nfast c pc with
    | None => DSymbolic
    | Some op =>
        let len := Z.to_nat (insn_len op) in
        let next_pc := (pc + len)%nat in
        if (1 <? len)%nat then
          DInsn op next_pc (Some (be_value 0 (slice nfast c (pc + 1) (len - 1))))
        else DInsn op next_pc None
    end.
