(* Chunk views of halmos.bytevec: a Chunk is a (data, start, length) triple, a window of
   [length] bytes from offset [start] of the backing value [data] (python bytes for a
   ConcreteChunk, ONE z3 term for a SymbolicChunk; here: the list of its bytes, of ANY
   length -- nothing below depends on a size).  The methods slice / get_byte / unwrap /
   __getitem__ are NOT written here: they are regenerated from bytevec.py by
   translate/t_chunkview.py into Gen/GenChunkView.v over the primitives of this file.
   No proofs in this file (Proofs/ChunkViewProofs.v).                                   *)
From Coq Require Import List ZArith Bool.
Import ListNotations.
Local Open Scope Z_scope.

Section ChunkView.
Variable B : Type.

Record view : Type := MkView { vdata : list B; vstart : Z; vlen : Z }.

(* self.data_byte_length = len(data) / byte_length(data) *)
Definition dlen (v : view) : Z := Z.of_nat (length (vdata v)).

(* the window [a, a + n) of a byte list (clipped at its end like python slicing) *)
Definition sub (l : list B) (a n : Z) : list B := firstn (Z.to_nat n) (skipn (Z.to_nat a) l).

(* halmos.utils.extract_bytes(term, offset, size) for an in-range window; data[a:b];
   data[i] as a one-byte sequence *)
Definition extract_bytes (d : list B) (off n : Z) : list B := sub d off n.
Definition py_slice (d : list B) (a b : Z) : list B := sub d a (b - a).
Definition py_index (d : list B) (i : Z) : list B := sub d i 1.

(* ConcreteChunk(data, start=0, length=None) / SymbolicChunk(...): the default length is
   data_byte_length - start *)
Definition mk_chunk (d : list B) (start : Z) (len : option Z) : view :=
  MkView d start (match len with Some l => l | None => Z.of_nat (length d) - start end).

(* the asserts of the constructors *)
Definition vwf (v : view) : Prop := 0 <= vstart v /\ 0 <= vlen v /\ vstart v + vlen v <= dlen v.

(* SPEC side: the bytes a view denotes *)
Definition vbytes (v : view) : list B := sub (vdata v) (vstart v) (vlen v).

(* a stack of windows, each relative to the one before: c[a1:b1][a2:b2]... *)
Fixpoint nest_slice (f : view -> Z -> Z -> option view) (v : view) (ws : list (Z * Z)) : option view :=
  match ws with
  | [] => Some v
  | (a, b) :: r => match f v a b with Some w => nest_slice f w r | None => None end
  end.

Fixpoint nest_ok (len : Z) (ws : list (Z * Z)) : Prop :=
  match ws with
  | [] => True
  | (a, b) :: r => 0 <= a /\ a <= b /\ b <= len /\ nest_ok (b - a) r
  end.

Fixpoint nest_off (ws : list (Z * Z)) : Z :=
  match ws with [] => 0 | (a, _) :: r => a + nest_off r end.

Fixpoint nest_len (len : Z) (ws : list (Z * Z)) : Z :=
  match ws with [] => len | (a, b) :: r => nest_len (b - a) r end.

End ChunkView.

Arguments MkView {B}.
Arguments vdata {B}.
Arguments vstart {B}.
Arguments vlen {B}.
Arguments dlen {B}.
Arguments sub {B}.
Arguments extract_bytes {B}.
Arguments py_slice {B}.
Arguments py_index {B}.
Arguments mk_chunk {B}.
Arguments vwf {B}.
Arguments vbytes {B}.
Arguments nest_slice {B}.
