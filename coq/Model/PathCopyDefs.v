(* C11: vocabulary of Gen/GenPathCopy.v -- how sevm.Path.branch / Path.extend_path hand each
   mutable container of the parent path to the new Path object.  Definitions only. *)

Inductive copy_mode : Type :=
| MAlias      (* new.f = old.f             -- the same object *)
| MShallow    (* new.f = old.f.copy()      -- a new container holding the same values *)
| MDeep.      (* new.f = deepcopy(old.f)   -- a new container holding new copies of the values *)

Record modes : Type := mkModes {
  br_conditions : copy_mode;      (* Path.branch:      path.conditions   = ... self.conditions *)
  br_related : copy_mode;         (*                   path.related      = ... self.related *)
  br_var_to_conds : copy_mode;    (*                   path.var_to_conds = ... self.var_to_conds *)
  ex_conditions : copy_mode;      (* Path.extend_path: self.conditions   = ... path.conditions *)
  ex_related : copy_mode;         (*                   self.related      = ... path.related *)
  ex_var_to_conds : copy_mode     (*                   self.var_to_conds = ... path.var_to_conds *)
}.

Definition not_alias (m : copy_mode) : bool :=
  match m with MAlias => false | _ => true end.

Definition is_deep (m : copy_mode) : bool :=
  match m with MDeep => true | _ => false end.

(* the containers of two Path objects are separate objects: `conditions` (values are
   immutable booleans) and `related` (values are sets that are never mutated once stored)
   need a copy of the container, `var_to_conds` (values are sets that Path.append mutates
   in place) needs a copy of the sets too *)
Definition separate (m : modes) : bool :=
  not_alias (br_conditions m) && not_alias (br_related m) && is_deep (br_var_to_conds m) &&
  not_alias (ex_conditions m) && not_alias (ex_related m) && is_deep (ex_var_to_conds m).
