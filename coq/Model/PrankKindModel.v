(* Executable model of what SEVM.call / SEVM.create do with the result of Exec.resolve_prank for a
   message call or creation of every kind: the Message the callee's frame is entered with
   (target / caller / origin / value), the account handle_insufficient_fund_case asks about, the
   accounts transfer_value debits and credits, the balance CALLCODE requires.  Every one of these
   selections is REGENERATED from src/halmos/sevm.py (Gen/GenPrankUse.v, translate/t_prankuse.py);
   the prank record itself is Model/PrankModel.v (Prank.lookup / Prank.prank / Exec.resolve_prank).
   Balances are concrete here (each symbolic fork of the code has exactly one feasible side, or --
   if the two sides are not complementary -- none or both, which the model reports).
   No proofs in this file (Proofs/PrankKindProofs.v). *)
From Coq Require Import ZArith List Bool.
From HV Require Import Gen.GenOpcodes Gen.GenCheatSelectors Gen.GenPrankUse Spec.FoundrySpec Spec.PrankKindSpec Model.PrankModel.
Import ListNotations.
Open Scope Z_scope.

(* CallContext.message.{target, caller, origin, value} + CallContext.prank *)
Record kframe := { k_f : mframe; k_value : Z }.
Definition k_fresh (this sender origin value : Z) : kframe := {| k_f := m_fresh this sender origin; k_value := value |}.
Definition k_with (f : kframe) (g : mframe) : kframe := {| k_f := g; k_value := k_value f |}.

Definition op_of_ckind (k : ckind) : Z :=
  match k with CkCall => OP_CALL | CkCallcode => OP_CALLCODE | CkDelegate => OP_DELEGATECALL | CkStatic => OP_STATICCALL end.
Definition op_of_nkind (k : nkind) : Z := match k with NkCreate => OP_CREATE | NkCreate2 => OP_CREATE2 end.

Inductive kres := KMErr | KMLost | KMDouble | KMOk (frames : list kframe) (b : balances) (out : list kobs).

(* SEVM.transfer_value(ex, from, to, value): None = InfeasiblePath (the path is dropped) *)
Definition m_transfer (b : balances) (from to value : Z) : option balances :=
  if pu_tv_zero_shortcut && (value =? 0) then Some b
  else if pu_balance_ok (b from) value then
    let b1 := bupd b from (pu_debit (b from) value) in
    Some (bupd b1 to (pu_credit (b1 to) value))
  else None.

(* handle_insufficient_fund_case(payer, value): is the failing side (push 0, no frame) feasible *)
Definition m_fails (b : balances) (payer value : Z) : bool :=
  if pu_hif_zero_shortcut && (value =? 0) then false else pu_insufficient (b payer) value.

(* the failing side and the continuing side of the funds fork put together:
   fails / continues = exactly one of them is feasible; none = KMLost; both = KMDouble *)
Definition m_outcome (fails : bool) (cont : option balances) (rest : list kframe) (b : balances)
                     (g : kframe) (obs : kobs) : kres :=
  match fails, cont with
  | true, None => KMOk rest b [KObsNoFunds]
  | false, Some b' => KMOk (g :: rest) b' [obs]
  | false, None => KMLost
  | true, Some _ => KMDouble
  end.

Definition k_obs (g : kframe) : kobs := KObs (m_this (k_f g)) (m_caller (k_f g)) (m_origin (k_f g)) (k_value g).

(* SEVM.call, callee = an account with code (call_known) *)
Definition km_call (k : ckind) (a v : Z) (f : kframe) (rest : list kframe) (b : balances) : kres :=
  let op := op_of_ckind k in
  let fund := pu_call_fund op v in
  let '((pc, po), f1) := resolve_prank (k_f f) a in
  let this := m_this (k_f f) in let caller := m_caller (k_f f) in let origin := m_origin (k_f f) in let cv := k_value f in
  let g := k_fresh (pu_call_target op a this caller origin cv pc po fund) (pu_call_caller op a this caller origin cv pc po fund)
                   (pu_call_origin op a this caller origin cv pc po fund) (pu_call_value op a this caller origin cv pc po fund) in
  let fails := m_fails b (pu_call_hif_payer op a this caller origin cv pc po fund) (pu_call_hif_value op a this caller origin cv pc po fund) in
  (* send_callvalue *)
  let cont :=
    if pu_call_sends op then
      m_transfer b (pu_call_tv_from op a this caller origin cv pc po fund) (pu_call_tv_to op a this caller origin cv pc po fund)
                 (pu_call_tv_value op a this caller origin cv pc po fund)
    else if pu_call_checks op fund then
      if pu_call_check_ok (b (pu_call_check_payer op a this caller origin cv pc po fund)) fund then Some b else None
    else Some b in
  m_outcome fails cont (k_with f f1 :: rest) b g (k_obs g).

(* SEVM.create *)
Definition km_create (k : nkind) (a v : Z) (f : kframe) (rest : list kframe) (b : balances) : kres :=
  let op := op_of_nkind k in
  let '((pc, po), f1) := resolve_prank (k_f f) 0 in
  let this := m_this (k_f f) in let caller := m_caller (k_f f) in let origin := m_origin (k_f f) in let cv := k_value f in
  let g := k_fresh (pu_create_target op a this caller origin cv pc po v) (pu_create_caller op a this caller origin cv pc po v)
                   (pu_create_origin op a this caller origin cv pc po v) (pu_create_value op a this caller origin cv pc po v) in
  let fails := m_fails b (pu_create_hif_payer op a this caller origin cv pc po v) (pu_create_hif_value op a this caller origin cv pc po v) in
  let cont := m_transfer b (pu_create_tv_from op a this caller origin cv pc po v) (pu_create_tv_to op a this caller origin cv pc po v)
                         (pu_create_tv_value op a this caller origin cv pc po v) in
  m_outcome fails cont (k_with f f1 :: rest) b g (k_obs g).

Definition km_step (st : list kframe) (b : balances) (o : kop) : kres :=
  match o, st with
  | _, [] => KMOk [] b []
  | KPrank keep s og, f :: rest =>
      (* SEVM.call to the hevm address: resolve_prank(to) first, then Prank.prank(...) *)
      let '(_, f1) := resolve_prank (k_f f) hevm_address in
      let '(ok, p') := do_prank (m_prank f1) s og keep in
      if ok then KMOk (k_with f (m_with f1 p') :: rest) b [] else KMErr
  | KStopPrank, f :: rest =>
      let '(_, f1) := resolve_prank (k_f f) hevm_address in
      KMOk (k_with f (m_with f1 (stop_prank (m_prank f1))) :: rest) b []
  | KCheat c, f :: rest =>
      let '(_, f1) := resolve_prank (k_f f) (cheat_addr c) in
      KMOk (k_with f f1 :: rest) b []
  | KCallK k a v, f :: rest => km_call k a v f rest b
  | KCreate k a v, f :: rest => km_create k a v f rest b
  | KReturn, f :: [] => KMOk [f] b []
  | KReturn, _ :: rest => KMOk rest b []
  | KBalance a, _ => KMOk st b [KObsBal (b a)]
  end.

Fixpoint km_run (st : list kframe) (b : balances) (ops : list kop) : list kobs :=
  match ops with
  | [] => []
  | o :: r => match km_step st b o with
              | KMErr => [KObsError]
              | KMLost => [KObsLost]
              | KMDouble => [KObsDouble]
              | KMOk st' b' out => out ++ km_run st' b' r
              end
  end.

(* the ops whose callee is an ordinary account *)
Definition ktarget_ok (o : kop) : Prop :=
  match o with KCallK _ a _ => ~ In a cheatcode_addresses | _ => True end.
